#!/usr/bin/env python3
"""Store the confirmed seeded changes of the held-out rounds under /verif/seeded/ and record both measurements.

  tools/store_seeds.py            copy /tmp/seed{2,3,4,5}-out/Cxx/k -> seeded/Cxx-r{2..5}-k (patch.diff, demo.py, meta.json)
                                  and attach `first_measurement` parsed from notes/logs/seed*-round1*.log
  tools/store_seeds.py --final    run tools/seedtest.py --all-checks on every stored seed (16 at a time) and store the
                                  verdict as `final_version_of_the_checks` in its meta.json

Round-1 seeds (seeded/Cxx-k) were stored by tools/seedtest.py --keep-as when they were confirmed.
"""
import glob, json, os, re, shutil, subprocess, sys
from concurrent.futures import ThreadPoolExecutor

VERIF = os.path.dirname(os.path.dirname(os.path.abspath(__file__)))
LOGS = {7: ['seed7-round1.log'], 2: ['seed2-round1.log'], 3: ['seed3-round1.log', 'seed3-round1b.log'], 4: ['seed4-round1.log', 'seed4-round1b.log'], 5: ['seed5-round1.log'], 6: ['seed6-round1.log']}
NOTE = {'seed3-round1b.log': 'measured while round 7 was already editing the packs (not a clean first measurement)'}


def first_measurements():
    out = {}
    for rnd, files in LOGS.items():
        for fn in files:
            p = os.path.join(VERIF, 'notes', 'logs', fn)
            if not os.path.exists(p):
                continue
            for l in open(p):
                m = re.match(r'/tmp/seed%d-out/(C\d\d)/(\d) (\w+) detected_by=(\[.*?\]) undecided_in=(\[.*?\]) \| ?(.*)' % rnd, l)
                if m and (rnd, m.group(1), m.group(2)) not in out:
                    d = {'status': m.group(3), 'detected_by': eval(m.group(4)), 'undecided_in': eval(m.group(5)), 'first_report': m.group(6)[:300], 'log': 'notes/logs/' + fn}
                    if fn in NOTE:
                        d['note'] = NOTE[fn]
                    out[(rnd, m.group(1), m.group(2))] = d
    # round 3, C01: measured by hand before the log existed
    out.setdefault((3, 'C01', '1'), {'status': 'confirmed', 'detected_by': ['C01', 'C02'], 'undecided_in': ['C17'], 'log': 'session'})
    out.setdefault((3, 'C01', '2'), {'status': 'confirmed', 'detected_by': ['C01'], 'undecided_in': [], 'log': 'session'})
    out.setdefault((3, 'C01', '3'), {'status': 'confirmed', 'detected_by': [], 'undecided_in': [], 'log': 'session'})
    return out


def store():
    fm = first_measurements()
    n = 0
    for rnd in (2, 3, 4, 5, 6, 7):
        for d in sorted(glob.glob(f'/tmp/seed{rnd}-out/C*/[0-9]*')):
            if not all(os.path.isfile(os.path.join(d, f)) for f in ('patch.diff', 'demo.py', 'meta.json')):
                continue
            prop, k = d.split('/')[-2], d.split('/')[-1]
            dst = os.path.join(VERIF, 'seeded', f'{prop}-r{rnd}-{k}')
            os.makedirs(dst, exist_ok=True)
            for f in ('patch.diff', 'demo.py'):
                shutil.copy(os.path.join(d, f), os.path.join(dst, f))
            meta = json.load(open(os.path.join(d, 'meta.json')))
            old = {}
            if os.path.exists(os.path.join(dst, 'meta.json')):
                old = json.load(open(os.path.join(dst, 'meta.json')))
            meta['round'] = rnd
            meta['held_out'] = True
            meta['first_measurement'] = fm.get((rnd, prop, k), {'status': 'not measured'})
            for key in ('final_version_of_the_checks', 'confirmation', 'what_was_run'):
                if key in old:
                    meta[key] = old[key]
            json.dump(meta, open(os.path.join(dst, 'meta.json'), 'w'), indent=1)
            n += 1
    print('stored', n, 'seeds of rounds 2-7')


def final_one(d):
    p = subprocess.run([sys.executable, os.path.join(VERIF, 'tools', 'seedtest.py'), d, '--all-checks'], capture_output=True, text=True)
    txt = '\n'.join(l for l in p.stdout.splitlines() if 'condarc' not in l)
    try:
        res = json.loads(txt[txt.index('{'):])
    except Exception as e:
        return d, {'status': 'seedtest failed: ' + (p.stdout + p.stderr)[-300:]}
    own = res.get('checks', {}).get(res.get('property'), {})
    out = {'status': 'confirmed' if res.get('confirmed') else ('patch does not apply (conflicts with a later fix: commit)' if res.get('applies') is False else 'not confirmed'),
           'detected_by': res.get('detected_by', []), 'undecided_in': res.get('undecided_in', []),
           'first_report': (own.get('reports') or [''])[0][:300]}
    conf = {k: res.get(k) for k in ('compiles', 'suite', 'demo_with_patch', 'demo_without_patch', 'demo_tail')}
    return d, out, conf


def final():
    dirs = sorted(glob.glob(os.path.join(VERIF, 'seeded', 'C*')))
    with ThreadPoolExecutor(max_workers=int(os.environ.get('JOBS', '8'))) as ex:
        for r in ex.map(final_one, dirs):
            d, out = r[0], r[1]
            mp = os.path.join(d, 'meta.json')
            meta = json.load(open(mp))
            meta['final_version_of_the_checks'] = out
            if len(r) > 2 and out['status'] == 'confirmed':
                meta['confirmation'] = r[2]
                meta['what_was_run'] = ('tools/seedtest.py: scratch worktree of /repo HEAD; git apply patch.diff; pinned suite (4 unittest files, 107 tests); '
                                        'demo.py with and without the patch; every check of /verif run on the scratch worktree and on /repo, findings compared')
            json.dump(meta, open(mp, 'w'), indent=1)
            print(os.path.basename(d), out['status'], 'detected_by=%s undecided_in=%s' % (out.get('detected_by'), out.get('undecided_in')), flush=True)


if __name__ == '__main__':
    if '--final' in sys.argv:
        final()
    else:
        store()
