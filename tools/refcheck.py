#!/usr/bin/env python3
"""Fast false-alarm sweep for ONE property: run its check on every behaviour-preserving patch of
refactorings/, refactorings2/ and refactorings3/ (or the dirs given) as an in-memory overlay of /repo HEAD.

  tools/refcheck.py C13 [dir ...]      -> one line per patch that is not silent; exit 1 on any false alarm

(no worktrees, no test-suite run: use tools/reftest.py for the full confirmation of a single patch)"""
import glob, os, re, shutil, subprocess, sys, tempfile
VERIF = os.path.dirname(os.path.dirname(os.path.abspath(__file__)))
sys.path.insert(0, VERIF)
from sa.main import run_check

def overlay_of(patch):
    patch = os.path.abspath(patch)
    files = re.findall(r'^\+\+\+ b/(\S+)', open(patch).read(), re.M)
    tmp = tempfile.mkdtemp(prefix='verif-refcheck-')
    try:
        for f in files:
            src = os.path.join('/repo', f)
            os.makedirs(os.path.dirname(os.path.join(tmp, f)), exist_ok=True)
            if os.path.exists(src):
                shutil.copy(src, os.path.join(tmp, f))
        p = subprocess.run(['patch', '-p1', '-s', '-d', tmp, '-i', patch], capture_output=True, text=True)
        if p.returncode != 0:
            return None
        return {f: open(os.path.join(tmp, f), encoding='utf-8').read() for f in files if f.endswith('.py') or f.endswith('.md') or f.endswith('.yml')}
    finally:
        shutil.rmtree(tmp, ignore_errors=True)

def main():
    prop = sys.argv[1].upper()
    dirs = sys.argv[2:] or sorted(d for d in glob.glob(os.path.join(VERIF, 'refactorings*', '*')) if os.path.isdir(d))
    base = run_check(prop, '/repo', 'quick', 0)
    bk = {f.key() for f in base.findings()}
    rc = 0; n = fa = und = 0
    for d in dirs:
        patch = os.path.join(d, 'patch.diff')
        if not os.path.isfile(patch):
            continue
        ov = overlay_of(patch)
        if ov is None:
            print(f'{os.path.basename(d)}: patch does not apply'); continue
        n += 1
        chk = run_check(prop, '/repo', 'quick', 0, None, ov)
        new = [f for f in chk.findings() if f.key() not in bk]
        if new:
            fa += 1; rc = 1
            for f in new[:3]:
                print(f'{os.path.basename(os.path.dirname(d))}/{os.path.basename(d)}: FALSE-ALARM {f.rule} {f.module}:{f.line} {f.function}: {f.message[:260]}')
        elif chk.errors and not base.errors:
            und += 1
            print(f'{os.path.basename(os.path.dirname(d))}/{os.path.basename(d)}: undecided {chk.errors[0][:260]}')
    print(f'{prop}: {n} patches, {fa} false alarms, {und} undecided, {n - fa - und} silent')
    return rc

if __name__ == '__main__':
    sys.exit(main())
