#!/bin/sh
# run every seed under /tmp/seed-out (or the dirs given) against all checks; one summary line each
cd "$(dirname "$0")/.."
for d in ${@:-/tmp/seed-out/C*/[0-9]*}; do
  /venv/bin/python tools/seedtest.py "$d" --all-checks 2>&1 | grep -v condarc | /venv/bin/python -c "
import sys,json
try:
    d=json.load(sys.stdin)
    own=d['checks'].get(d['property'],{})
    print('$d', 'confirmed' if d.get('confirmed') else 'UNCONFIRMED', 'detected_by=%s' % d.get('detected_by'), 'undecided_in=%s' % d.get('undecided_in'), '|', (own.get('reports') or [''])[0][:160])
except Exception as e:
    print('$d', 'ERROR', e)
"
done
