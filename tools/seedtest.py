#!/usr/bin/env python3
"""Confirm a seeded change and run the checks against it.

  tools/seedtest.py <dir with patch.diff demo.py meta.json> [--keep-as NAME] [--all-checks]

Steps (all in a scratch worktree of /repo HEAD under /tmp, removed afterwards):
  1. patch applies; the tree still compiles (py_compile of touched files)
  2. pinned suite passes with the patch (107 tests)
  3. demo.py fails with the patch and passes without it
  4. ./check <property> --repo <scratch>   (exit code + VIOLATION lines) ; optionally every check
With --keep-as the confirmed change is copied to /verif/seeded/<NAME>/ with the results in meta.json.
"""
import argparse, json, os, shutil, subprocess, sys, tempfile

VERIF = os.path.dirname(os.path.dirname(os.path.abspath(__file__)))
PY = '/venv/bin/python'
SUITE = [PY, '-m', 'pytest', '-q', '-p', 'no:cacheprovider', '--timeout=900', 'unittests/cargotests.py', 'unittests/optiontests.py',
         'unittests/taptests.py', 'unittests/versiontests.py']


def sh(cmd, cwd=None, env=None, timeout=1200):
    e = dict(os.environ)
    e.update(env or {})
    p = subprocess.run(cmd, cwd=cwd, env=e, capture_output=True, text=True, timeout=timeout)
    out = '\n'.join(l for l in (p.stdout + p.stderr).splitlines() if 'condarc' not in l)
    return p.returncode, out


def main():
    ap = argparse.ArgumentParser()
    ap.add_argument('dir')
    ap.add_argument('--keep-as')
    ap.add_argument('--all-checks', action='store_true')
    ap.add_argument('--base', default='HEAD')
    a = ap.parse_args()
    d = os.path.abspath(a.dir)
    meta = json.load(open(os.path.join(d, 'meta.json')))
    prop = meta['property']
    wt = tempfile.mkdtemp(prefix='verif-seedwt-', dir='/tmp')
    os.rmdir(wt)
    res = {'property': prop}
    try:
        rc, out = sh(['git', '-C', '/repo', 'worktree', 'add', '-q', '--detach', wt, a.base])
        assert rc == 0, out
        rc, out = sh([PY, 'demo.py'], cwd=_with_demo(wt, d), env={'NINJA': '/tmp/fakeninja'})
        res['demo_without_patch'] = rc
        rc, out = sh(['git', 'apply', '--3way', os.path.join(d, 'patch.diff')], cwd=wt)
        if rc != 0:
            rc, out = sh(['git', 'apply', os.path.join(d, 'patch.diff')], cwd=wt)
        res['applies'] = rc == 0
        if rc != 0:
            print('PATCH DOES NOT APPLY', out)
            print(json.dumps(res))
            return 3
        rc, out = sh(['git', 'diff', '--name-only', 'HEAD'], cwd=wt)
        files = [f for f in out.split() if f.endswith('.py')]
        rc, out = sh([PY, '-m', 'py_compile'] + files, cwd=wt)
        res['compiles'] = rc == 0
        rc, out = sh(SUITE, cwd=wt)
        res['suite'] = out.strip().splitlines()[-1] if out.strip() else ''
        res['suite_ok'] = rc == 0 and '107 passed' in res['suite']
        rc, out = sh([PY, 'demo.py'], cwd=wt, env={'NINJA': '/tmp/fakeninja'})
        res['demo_with_patch'] = rc
        res['demo_tail'] = out.strip().splitlines()[-1][:300] if out.strip() else ''
        res['confirmed'] = bool(res['compiles'] and res['suite_ok'] and res['demo_with_patch'] != 0 and res['demo_without_patch'] == 0)
        props = [prop] if not a.all_checks else [f'C{i:02d}' for i in range(1, 21)]
        res['checks'] = {}
        for p in props:
            if not os.path.exists(os.path.join(VERIF, 'sa', 'rules', p.lower() + '.py')):
                continue
            rc, out = sh([os.path.join(VERIF, 'check'), p, '--repo', wt, '--no-evidence'])
            viol = [l.strip() for l in out.splitlines() if l.startswith('  mesonbuild') or 'ANALYSIS-ERROR' in l]
            res['checks'][p] = {'exit': rc, 'reports': viol[:6]}
        res['detected_by'] = sorted(p for p, r in res['checks'].items() if r['exit'] == 1)
    finally:
        sh(['git', '-C', '/repo', 'worktree', 'remove', '--force', wt])
        shutil.rmtree(wt, ignore_errors=True)
    print(json.dumps(res, indent=1))
    if a.keep_as and res.get('confirmed'):
        dst = os.path.join(VERIF, 'seeded', a.keep_as)
        os.makedirs(dst, exist_ok=True)
        for f in ('patch.diff', 'demo.py'):
            shutil.copy(os.path.join(d, f), os.path.join(dst, f))
        meta['confirmation'] = {k: res[k] for k in ('compiles', 'suite', 'demo_with_patch', 'demo_without_patch', 'demo_tail')}
        meta['what_was_run'] = ('tools/seedtest.py: scratch worktree of /repo HEAD; git apply patch.diff; pinned suite (4 unittest files, 107 tests); '
                                'demo.py with and without the patch; ./check <property> --repo <scratch worktree>')
        meta['check_result'] = res['checks']
        meta['detected_by'] = res['detected_by']
        json.dump(meta, open(os.path.join(dst, 'meta.json'), 'w'), indent=1)
    return 0 if res.get('confirmed') else 4


def _with_demo(wt, d):
    shutil.copy(os.path.join(d, 'demo.py'), os.path.join(wt, 'demo.py'))
    return wt


if __name__ == '__main__':
    sys.exit(main())
