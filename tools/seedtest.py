#!/usr/bin/env python3
"""Confirm a seeded change and run the checks against it.

  tools/seedtest.py <dir with patch.diff demo.py meta.json> [--keep-as NAME] [--all-checks]

Steps (all in a scratch worktree of /repo HEAD under /tmp, removed afterwards):
  1. patch applies; the tree still compiles (py_compile of touched files)
  2. pinned suite passes with the patch (107 tests)
  3. demo.py fails with the patch and passes without it
  4. ./check <property> --repo <scratch>   (exit code + VIOLATION lines) ; optionally every check
With --keep-as the confirmed change is copied to /verif/seeded/<NAME>/ with the results in meta.json.
"""
import argparse, json, os, shutil, subprocess, sys, tempfile

VERIF = os.path.dirname(os.path.dirname(os.path.abspath(__file__)))
PY = '/venv/bin/python'
SUITE = [PY, '-m', 'pytest', '-q', '-p', 'no:cacheprovider', '--timeout=900', 'unittests/cargotests.py', 'unittests/optiontests.py',
         'unittests/taptests.py', 'unittests/versiontests.py']


def sh(cmd, cwd=None, env=None, timeout=1200):
    e = dict(os.environ)
    e.update(env or {})
    p = subprocess.run(cmd, cwd=cwd, env=e, capture_output=True, text=True, timeout=timeout)
    out = '\n'.join(l for l in (p.stdout + p.stderr).splitlines() if 'condarc' not in l)
    return p.returncode, out


def main():
    ap = argparse.ArgumentParser()
    ap.add_argument('dir')
    ap.add_argument('--keep-as')
    ap.add_argument('--all-checks', action='store_true')
    ap.add_argument('--base', default='HEAD')
    ap.add_argument('--baseline-repo', default='/repo')
    a = ap.parse_args()
    d = os.path.abspath(a.dir)
    meta = json.load(open(os.path.join(d, 'meta.json')))
    prop = meta['property']
    wt = tempfile.mkdtemp(prefix='verif-seedwt-', dir='/tmp')
    os.rmdir(wt)
    res = {'property': prop}
    try:
        rc, out = sh(['git', '-C', '/repo', 'worktree', 'add', '-q', '--detach', wt, a.base])
        assert rc == 0, out
        rc, out = sh([PY, 'demo.py'], cwd=_with_demo(wt, d), env={'NINJA': '/tmp/fakeninja'})
        res['demo_without_patch'] = rc
        rc, out = sh(['git', 'apply', '--3way', os.path.join(d, 'patch.diff')], cwd=wt)
        if rc != 0:
            rc, out = sh(['git', 'apply', os.path.join(d, 'patch.diff')], cwd=wt)
        res['applies'] = rc == 0
        if rc != 0:
            print('PATCH DOES NOT APPLY', out)
            print(json.dumps(res))
            return 3
        rc, out = sh(['git', 'diff', '--name-only', 'HEAD'], cwd=wt)
        files = [f for f in out.split() if f.endswith('.py')]
        rc, out = sh([PY, '-m', 'py_compile'] + files, cwd=wt)
        res['compiles'] = rc == 0
        rc, out = sh(SUITE, cwd=wt)
        res['suite'] = out.strip().splitlines()[-1] if out.strip() else ''
        res['suite_ok'] = rc == 0 and '107 passed' in res['suite']
        rc, out = sh([PY, 'demo.py'], cwd=wt, env={'NINJA': '/tmp/fakeninja'})
        res['demo_with_patch'] = rc
        res['demo_tail'] = out.strip().splitlines()[-1][:300] if out.strip() else ''
        res['confirmed'] = bool(res['compiles'] and res['suite_ok'] and res['demo_with_patch'] != 0 and res['demo_without_patch'] == 0)
        props = [prop] if not a.all_checks else [f'C{i:02d}' for i in range(1, 21)]
        res['checks'] = {}
        sys.path.insert(0, VERIF)
        from sa.main import run_check
        from sa.report import load_known
        for p in props:
            if not os.path.exists(os.path.join(VERIF, 'sa', 'rules', p.lower() + '.py')):
                continue
            base = run_check(p, a.baseline_repo, 'quick', 0)
            base_keys = {f.key() for f in base.findings()}
            chk = run_check(p, wt, 'quick', 0)
            new = [f for f in chk.findings() if f.key() not in base_keys]
            rep = [f'{f.rule} {f.module}:{f.line} {f.function}: {f.message}'[:400] for f in new]
            res['checks'][p] = {'new_findings': len(new), 'analysis_errors': chk.errors[:3], 'reports': rep[:6],
                                'verdict': 'violation' if new else ('undecided' if chk.errors and not base.errors else 'silent')}
        res['detected_by'] = sorted(p for p, r in res['checks'].items() if r['verdict'] == 'violation')
        res['undecided_in'] = sorted(p for p, r in res['checks'].items() if r['verdict'] == 'undecided')
    finally:
        sh(['git', '-C', '/repo', 'worktree', 'remove', '--force', wt])
        shutil.rmtree(wt, ignore_errors=True)
    print(json.dumps(res, indent=1))
    if a.keep_as and res.get('confirmed'):
        dst = os.path.join(VERIF, 'seeded', a.keep_as)
        os.makedirs(dst, exist_ok=True)
        for f in ('patch.diff', 'demo.py'):
            shutil.copy(os.path.join(d, f), os.path.join(dst, f))
        meta['confirmation'] = {k: res[k] for k in ('compiles', 'suite', 'demo_with_patch', 'demo_without_patch', 'demo_tail')}
        meta['what_was_run'] = ('tools/seedtest.py: scratch worktree of /repo HEAD; git apply patch.diff; pinned suite (4 unittest files, 107 tests); '
                                'demo.py with and without the patch; every check of /verif run on the scratch worktree and on /repo, findings compared')
        meta['check_result'] = res['checks']
        meta['detected_by'] = res['detected_by']
        meta['undecided_in'] = res['undecided_in']
        json.dump(meta, open(os.path.join(dst, 'meta.json'), 'w'), indent=1)
    return 0 if res.get('confirmed') else 4


def _with_demo(wt, d):
    shutil.copy(os.path.join(d, 'demo.py'), os.path.join(wt, 'demo.py'))
    return wt


if __name__ == '__main__':
    sys.exit(main())
