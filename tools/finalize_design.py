#!/usr/bin/env python3
"""Append the implementation report (notes/design_section8*.md) and the generated appendices C-E to DESIGN.md.

Idempotent: everything from the marker line on is replaced.  Sections 1-7 and Appendices A-B (the design as written
before any code existed) are never touched."""
import os, subprocess, sys
HERE = os.path.dirname(os.path.dirname(os.path.abspath(__file__)))
MARK = '<!-- implementation report: generated below this line by tools/finalize_design.py -->'
p = os.path.join(HERE, 'DESIGN.md')
s = open(p, encoding='utf-8').read()
if MARK in s:
    s = s[:s.index(MARK)].rstrip('\n') + '\n'
# an older run of gen_design_appendix may have appended Appendix C-E directly: cut them
for head in ('## Appendix C — rules as implemented',):
    if head in s:
        s = s[:s.index(head)].rstrip('\n') + '\n'
parts = [s, '\n' + MARK + '\n']
for f in ('design_section8.md', 'design_section8b.md'):
    parts.append(open(os.path.join(HERE, 'notes', f), encoding='utf-8').read().rstrip('\n') + '\n')
app = subprocess.run([sys.executable, os.path.join(HERE, 'tools', 'gen_design_appendix.py')], capture_output=True, text=True, cwd=HERE)
if app.returncode != 0:
    sys.exit('gen_design_appendix failed: ' + app.stderr[-2000:])
parts.append('\n' + app.stdout)
open(p, 'w', encoding='utf-8').write(''.join(parts))
print('DESIGN.md:', sum(1 for _ in open(p, encoding='utf-8')), 'lines')
