#!/usr/bin/env python3
"""Append the implementation report (notes/design_section8*.md) and the generated appendices C-E to DESIGN.md.

Idempotent: everything from the marker line on is replaced.  Sections 1-7 and Appendices A-B (the design as written
before any code existed) are never touched."""
import glob, importlib, json, os, re, subprocess, sys
HERE = os.path.dirname(os.path.dirname(os.path.abspath(__file__)))
MARK = '<!-- implementation report: generated below this line by tools/finalize_design.py -->'
p = os.path.join(HERE, 'DESIGN.md')
s = open(p, encoding='utf-8').read()
if MARK in s:
    s = s[:s.index(MARK)].rstrip('\n') + '\n'
# an older run of gen_design_appendix may have appended Appendix C-E directly: cut them
for head in ('## Appendix C — rules as implemented',):
    if head in s:
        s = s[:s.index(head)].rstrip('\n') + '\n'


def values():
    """Numbers quoted in section 8: computed from the committed evidence, matrices, known_findings.json, seeded/ and /repo's
    history; the few that come from a measurement run (refactoring rounds) are read from notes/design_values.json."""
    v = json.load(open(os.path.join(HERE, 'notes', 'design_values.json')))
    ev = [json.load(open(f)) for f in sorted(glob.glob(os.path.join(HERE, 'evidence', 'C*.json')))]
    v['NRULES'] = sum(len(e['coverage'].get('rules', [])) for e in ev)
    v['NOBL'] = sum(e['coverage'].get('obligations', 0) for e in ev)
    sys.path.insert(0, HERE)
    nv = nt = 0
    for i in range(1, 21):
        try:
            m = importlib.import_module('sa.mutants.c%02d' % i)
        except ModuleNotFoundError:
            continue
        nv += len(m.VARIANTS)
        nt += sum(1 for x in m.VARIANTS if x.kind == 'twin')
    v['NVARIANTS'], v['NTWINS'] = nv, nt
    kf = json.load(open(os.path.join(HERE, 'known_findings.json')))
    v['NKNOWN'] = sum(1 for f in kf['findings'] if f.get('status') == 'known')
    v['NFIXED'] = sum(1 for f in kf['findings'] if f.get('status') == 'fixed')
    log = subprocess.run(['git', '-C', '/repo', 'log', '--format=%s', 'b8a063f..HEAD'], capture_output=True, text=True).stdout.splitlines()
    v['NFIXCOMMITS'] = sum(1 for l in log if l.startswith('fix:'))
    fin = {}
    for mp in glob.glob(os.path.join(HERE, 'seeded', 'C*', 'meta.json')):
        m = json.load(open(mp))
        r = m.get('round', 1)
        f = m.get('final_version_of_the_checks', {})
        c = fin.setdefault(r, [0, 0, 0, 0])
        if f.get('status') != 'confirmed':
            c[3] += 1
        elif f.get('detected_by'):
            c[0] += 1
        elif f.get('undecided_in'):
            c[1] += 1
        else:
            c[2] += 1
    gain = {}
    tot = [0, 0, 0, 0]
    for mp in glob.glob(os.path.join(HERE, 'seeded', 'C*', 'meta.json')):
        m = json.load(open(mp))
        r = m.get('round', 1)
        f = m.get('final_version_of_the_checks', {})
        fm = m.get('first_measurement', {})
        if f.get('status') == 'confirmed':
            tot[0 if f.get('detected_by') else (1 if f.get('undecided_in') else 2)] += 1
        else:
            tot[3] += 1
        if fm and not fm.get('detected_by') and f.get('status') == 'confirmed':
            g = gain.setdefault(r, [0, 0])
            g[1] += 1
            if f.get('detected_by'):
                g[0] += 1
    own = any('seedfinal_own' in json.load(open(mp)).get('final_version_of_the_checks', {}).get('how', '')
              for mp in glob.glob(os.path.join(HERE, 'seeded', 'C*', 'meta.json')))
    tool = ('tools/seedfinal_own.py (each seed against the check of its own property only, a lower bound: the all-checks sweep '
            'tools/seedfinal.py did not finish inside the session)') if own else 'tools/seedfinal.py'
    v['SEEDFINALLINE'] = (tool + ' over all %d stored seeds with the final checks: %d detected, %d undecided, %d missed, '
                          '%d no longer apply to the moved /repo' % (sum(tot), tot[0], tot[1], tot[2], tot[3]))
    for r, g in gain.items():
        v['R%dGAINLINE' % r] = 'Of the %d round-%d seeds missed or undecided at first measurement (and still applicable), %d are detected by the final checks' % (g[1], r, g[0])
    for r, c in fin.items():
        v['R%dFINAL' % r] = '%d detected, %d undecided, %d missed' % (c[0], c[1], c[2]) + (', %d no longer apply' % c[3] if c[3] else '')
    return v


parts = [s, '\n' + MARK + '\n']
vals = values()
for f in ('design_section8.md', 'design_section8b.md'):
    t = open(os.path.join(HERE, 'notes', f), encoding='utf-8').read().rstrip('\n') + '\n'
    t = re.sub(r'\{([A-Z0-9]+)\}', lambda m: str(vals[m.group(1)]) if m.group(1) in vals else m.group(0), t)
    left = re.findall(r'\{[A-Z0-9]+\}', t)
    if left:
        print('unfilled placeholders in', f, sorted(set(left)))
    parts.append(t)
app = subprocess.run([sys.executable, os.path.join(HERE, 'tools', 'gen_design_appendix.py')], capture_output=True, text=True, cwd=HERE)
if app.returncode != 0:
    sys.exit('gen_design_appendix failed: ' + app.stderr[-2000:])
parts.append('\n' + app.stdout)
open(p, 'w', encoding='utf-8').write(''.join(parts))
print('DESIGN.md:', sum(1 for _ in open(p, encoding='utf-8')), 'lines')
