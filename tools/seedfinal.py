#!/usr/bin/env python3
"""Fast final measurement of every stored seeded change with the current checks (no worktrees, no test-suite run).

  tools/seedfinal.py [jobs] [--only GLOB]   -> seeded/<id>/meta.json['final_version_of_the_checks'], notes/logs/seedfinal.log

Each of the 20 packs is run (tools/refcheck.py machinery: in-memory overlay of /repo HEAD) over every seeded/<id>/patch.diff;
a finding the unmodified tree does not have = detected, a rule that gives up = undecided.  The confirmation of a seed (it
compiles, the pinned suite passes, the demo fails with it and passes without it) was done by tools/seedtest.py when the seed
was stored (meta.json['confirmation'] / first measurement) and is not repeated here; tools/store_seeds.py --final does the
slow full re-confirmation."""
import glob
import json
import os
import re
import subprocess
import sys
from concurrent.futures import ThreadPoolExecutor

VERIF = os.path.dirname(os.path.dirname(os.path.abspath(__file__)))
PY = '/venv/bin/python' if os.path.exists('/venv/bin/python') else sys.executable


def sweep(args):
    prop, dirs = args
    p = subprocess.run([PY, os.path.join(VERIF, 'tools', 'refcheck.py'), prop] + dirs, capture_output=True, text=True, cwd=VERIF)
    return prop, p.stdout + p.stderr


def main():
    argv = [a for a in sys.argv[1:]]
    pat = 'C*'
    if '--only' in argv:
        i = argv.index('--only')
        pat = argv[i + 1]
        del argv[i:i + 2]
    jobs = int(argv[0]) if argv else 16
    dirs = sorted(glob.glob(os.path.join(VERIF, 'seeded', pat)))
    rel = [os.path.relpath(d, VERIF) for d in dirs]
    det = {os.path.basename(d): set() for d in dirs}
    und = {os.path.basename(d): set() for d in dirs}
    rep = {}
    stale = set()
    log = []
    props = ['C%02d' % i for i in range(1, 21)]
    with ThreadPoolExecutor(max_workers=jobs) as ex:
        for prop, out in ex.map(sweep, [(p, rel) for p in props]):
            log.append('## ' + prop + '\n' + '\n'.join(l for l in out.splitlines() if 'condarc' not in l))
            for l in out.splitlines():
                m = re.match(r'seeded/(\S+): (FALSE-ALARM|undecided) (.*)', l)
                if m:
                    sid = m.group(1)
                    if m.group(2) == 'FALSE-ALARM':
                        det[sid].add(prop)
                        if sid.startswith(prop):
                            rep.setdefault(sid, m.group(3)[:300])
                    else:
                        und[sid].add(prop)
                m = re.match(r'(\S+): patch does not apply', l)
                if m:
                    stale.add(m.group(1))
    os.makedirs(os.path.join(VERIF, 'notes', 'logs'), exist_ok=True)
    open(os.path.join(VERIF, 'notes', 'logs', 'seedfinal.log'), 'w').write('\n'.join(log) + '\n')
    tot = [0, 0, 0, 0]
    for d in dirs:
        sid = os.path.basename(d)
        mp = os.path.join(d, 'meta.json')
        meta = json.load(open(mp))
        if sid in stale:
            out = {'status': 'patch does not apply (conflicts with a later fix: commit)', 'detected_by': [], 'undecided_in': []}
            tot[3] += 1
        else:
            u = sorted(und[sid] - det[sid])
            out = {'status': 'confirmed', 'detected_by': sorted(det[sid]), 'undecided_in': u, 'first_report': rep.get(sid, ''),
                   'how': 'tools/seedfinal.py: every check over the patch as an in-memory overlay of /repo HEAD, findings compared with the unmodified tree'}
            tot[0 if det[sid] else (1 if u else 2)] += 1
        meta['final_version_of_the_checks'] = out
        json.dump(meta, open(mp, 'w'), indent=1)
        print(sid, out['status'].split(' (')[0], 'detected_by=%s undecided_in=%s' % (out['detected_by'], out['undecided_in']))
    print('total: %d detected / %d undecided / %d missed / %d no longer apply (of %d)' % (tot[0], tot[1], tot[2], tot[3], len(dirs)))


if __name__ == '__main__':
    main()
