#!/bin/sh
# Final run of a session: every check in the thorough tier (evidence rewritten by the checks themselves), 3 at a time.
# usage: tools/final_run.sh [jobs]  -> notes/logs/final-thorough/Cxx.log, summary on stdout
cd "$(dirname "$0")/.." || exit 2
J=${1:-3}
out=notes/logs/final-thorough; mkdir -p $out
for i in 01 02 03 04 05 06 07 08 09 10 11 12 13 14 15 16 17 18 19 20; do echo C$i; done | \
  xargs -P $J -I{} sh -c "./check {} --tier thorough > $out/{}.log 2>&1; echo {} exit=\$? \$(grep -c '^SELFTEST' $out/{}.log) variants \$(grep -c 'VIOLATION\|ANALYSIS-ERROR\|UNDECIDED' $out/{}.log) problem-lines"
