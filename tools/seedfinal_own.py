#!/usr/bin/env python3
"""Fallback of tools/seedfinal.py when time is short: every pack over the stored seeds of ITS OWN property only
(detections by other packs are not measured, so the result is a lower bound).  Writes the same meta.json field."""
import glob, json, os, re, subprocess, sys
from concurrent.futures import ThreadPoolExecutor
VERIF = os.path.dirname(os.path.dirname(os.path.abspath(__file__)))
PY = '/venv/bin/python' if os.path.exists('/venv/bin/python') else sys.executable

def sweep(prop):
    dirs = sorted(os.path.relpath(d, VERIF) for d in glob.glob(os.path.join(VERIF, 'seeded', prop + '-*')))
    p = subprocess.run([PY, os.path.join(VERIF, 'tools', 'refcheck.py'), prop] + dirs, capture_output=True, text=True, cwd=VERIF)
    return prop, dirs, p.stdout + p.stderr

def main():
    tot = [0, 0, 0, 0]
    with ThreadPoolExecutor(max_workers=int(sys.argv[1]) if len(sys.argv) > 1 else 20) as ex:
        for prop, dirs, out in ex.map(sweep, ['C%02d' % i for i in range(1, 21)]):
            det, und, stale, rep = set(), set(), set(), {}
            for l in out.splitlines():
                m = re.match(r'seeded/(\S+): (FALSE-ALARM|undecided) (.*)', l)
                if m:
                    (det if m.group(2) == 'FALSE-ALARM' else und).add(m.group(1))
                    if m.group(2) == 'FALSE-ALARM':
                        rep.setdefault(m.group(1), m.group(3)[:300])
                m = re.match(r'(\S+): patch does not apply', l)
                if m:
                    stale.add(m.group(1))
            for d in dirs:
                sid = os.path.basename(d)
                mp = os.path.join(VERIF, d, 'meta.json')
                meta = json.load(open(mp))
                if sid in stale:
                    o = {'status': 'patch does not apply (conflicts with a later fix: commit)', 'detected_by': [], 'undecided_in': []}
                    tot[3] += 1
                else:
                    o = {'status': 'confirmed', 'detected_by': [prop] if sid in det else [], 'undecided_in': [prop] if sid in und and sid not in det else [],
                         'first_report': rep.get(sid, ''), 'how': 'tools/seedfinal_own.py: the check of the seed\'s own property over the patch as an in-memory overlay of /repo HEAD (other checks not run: lower bound)'}
                    tot[0 if sid in det else (1 if sid in und else 2)] += 1
                meta['final_version_of_the_checks'] = o
                json.dump(meta, open(mp, 'w'), indent=1)
            print(prop, len(dirs), 'seeds:', len(det), 'detected', len(und - det), 'undecided', len(stale), 'stale', flush=True)
    print('total (own pack only): %d detected / %d undecided / %d missed / %d no longer apply' % tuple(tot))

if __name__ == '__main__':
    main()
