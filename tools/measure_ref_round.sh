#!/bin/sh
# Held-out measurement of one refactoring round: every pack over every patch of refactorings<N>/ (in-memory overlays of /repo).
# usage: tools/measure_ref_round.sh <N> [jobs]   -> notes/logs/ref<N>chk/{Cxx.txt,summary.txt,per_patch.txt}
N=$1; J=${2:-16}
cd "$(dirname "$0")/.." || exit 2
out=notes/logs/ref${N}chk; mkdir -p $out
ls -d refactorings$N/C* > $out/dirs.txt
for i in 01 02 03 04 05 06 07 08 09 10 11 12 13 14 15 16 17 18 19 20; do echo C$i; done | \
  xargs -P $J -I{} sh -c "/venv/bin/python tools/refcheck.py {} \$(cat $out/dirs.txt) > $out/{}.txt 2>&1"
for i in 01 02 03 04 05 06 07 08 09 10 11 12 13 14 15 16 17 18 19 20; do tail -1 $out/C$i.txt; done > $out/summary.txt
/venv/bin/python - $N $out <<'PY'
import sys, re, glob, os
n, out = sys.argv[1], sys.argv[2]
dirs = [l.strip() for l in open(out + '/dirs.txt')]
fa, und = {}, {}
for f in sorted(glob.glob(out + '/C??.txt')):
    for l in open(f):
        m = re.match(r'(refactorings\d*/C\d\d-\d): (FALSE-ALARM|undecided) (\S+)', l)
        if m:
            (fa if m.group(2) == 'FALSE-ALARM' else und).setdefault(m.group(1), set()).add(m.group(3).rstrip(':'))
lines = []
s = u = a = 0
for d in dirs:
    if d in fa:
        a += 1; lines.append('%s FALSE-ALARM %s%s' % (d, ','.join(sorted(fa[d])), (' undecided ' + ','.join(sorted(und[d]))) if d in und else ''))
    elif d in und:
        u += 1; lines.append('%s undecided %s' % (d, ','.join(sorted(und[d]))))
    else:
        s += 1; lines.append('%s silent' % d)
lines.append('round %s: %d patches: %d silent / %d undecided / %d false alarms' % (n, len(dirs), s, u, a))
open(out + '/per_patch.txt', 'w').write('\n'.join(lines) + '\n')
print(lines[-1])
PY
