#!/usr/bin/env python3
"""Print a markdown table of the implemented rules (id, title) per property, with obligation counts from the evidence files."""
import importlib, json, os, sys
HERE = os.path.dirname(os.path.dirname(os.path.abspath(__file__)))
sys.path.insert(0, HERE)
for i in range(1, 21):
    pid = f'C{i:02d}'
    pack = importlib.import_module(f'sa.rules.{pid.lower()}')
    ev = {}
    try:
        ev = {r['rule']: r for r in json.load(open(os.path.join(HERE, 'evidence', pid + '.json')))['coverage']['rules']}
    except Exception:
        pass
    print(f'\n**{pid}** — technique: {getattr(pack, "TECHNIQUE", "")}\n')
    print('| rule | what it decides | obligations |')
    print('|------|-----------------|------------:|')
    for r in pack.RULES:
        n = ev.get(r.rule_id, {}).get('obligations', '')
        print(f'| {r.rule_id} | {r.title} | {n} |')
