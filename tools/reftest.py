#!/usr/bin/env python3
"""Run every check against a behaviour-preserving refactoring (patch.diff) of /repo.

  tools/reftest.py <dir with patch.diff> [more dirs ...]

For each: scratch worktree of /repo HEAD under /tmp, git apply, pinned suite (must stay 107 passed),
then each check with --repo <scratch>; findings that the unmodified tree does not have are FALSE ALARMS,
analysis errors that the unmodified tree does not have are UNDECIDED.  The worktree is removed afterwards.
"""
import json, os, shutil, subprocess, sys, tempfile

VERIF = os.path.dirname(os.path.dirname(os.path.abspath(__file__)))
sys.path.insert(0, VERIF)
PY = '/venv/bin/python'
SUITE = [PY, '-m', 'pytest', '-q', '-p', 'no:cacheprovider', '--timeout=900', 'unittests/cargotests.py', 'unittests/optiontests.py',
         'unittests/taptests.py', 'unittests/versiontests.py']


def sh(cmd, cwd=None):
    p = subprocess.run(cmd, cwd=cwd, capture_output=True, text=True)
    return p.returncode, '\n'.join(l for l in (p.stdout + p.stderr).splitlines() if 'condarc' not in l)


def one(d, baselines):
    from sa.main import run_check
    d = os.path.abspath(d)
    wt = tempfile.mkdtemp(prefix='verif-refwt-', dir='/tmp')
    os.rmdir(wt)
    res = {'dir': d}
    try:
        rc, out = sh(['git', '-C', '/repo', 'worktree', 'add', '-q', '--detach', wt, 'HEAD'])
        assert rc == 0, out
        rc, out = sh(['git', 'apply', os.path.join(d, 'patch.diff')], cwd=wt)
        if rc != 0:
            res['status'] = 'patch does not apply'
            return res
        rc, out = sh(SUITE, cwd=wt)
        res['suite'] = out.strip().splitlines()[-1] if out.strip() else ''
        res['false_alarms'] = {}
        res['undecided'] = {}
        for i in range(1, 21):
            p = f'C{i:02d}'
            if p not in baselines:
                b = run_check(p, '/repo', 'quick', 0)
                baselines[p] = ({f.key() for f in b.findings()}, list(b.errors))
            chk = run_check(p, wt, 'quick', 0)
            new = [f for f in chk.findings() if f.key() not in baselines[p][0]]
            if new:
                res['false_alarms'][p] = [f'{f.rule} {f.module}:{f.line} {f.function}: {f.message}'[:500] for f in new[:4]]
            elif chk.errors and not baselines[p][1]:
                res['undecided'][p] = [e[:400] for e in chk.errors[:3]]
        res['status'] = 'FALSE-ALARM' if res['false_alarms'] else ('undecided' if res['undecided'] else 'silent')
    finally:
        sh(['git', '-C', '/repo', 'worktree', 'remove', '--force', wt])
        shutil.rmtree(wt, ignore_errors=True)
    return res


def main():
    baselines = {}
    rc = 0
    for d in sys.argv[1:]:
        r = one(d, baselines)
        print(json.dumps(r, indent=1))
        if r.get('status') == 'FALSE-ALARM':
            rc = 1
    return rc


if __name__ == '__main__':
    sys.exit(main())
