#!/usr/bin/env python3
"""Re-base stored patches (refactorings*/<id>/patch.diff, seeded/<id>/patch.diff, or the dirs given) onto /repo HEAD.

/repo moves when a `fix:` commit lands; a stored patch whose context was touched then stops applying.  For each
patch that `git apply --check` rejects, try `git apply --3way` in a scratch worktree of HEAD (the base blobs named
in the patch's index lines are in /repo's object database); on success the patch is rewritten as `git diff HEAD`
(the original is kept once as patch.orig.diff), on conflict the directory is reported and left alone.

  tools/refresh_patches.py [dir ...]
"""
import glob, os, shutil, subprocess, sys, tempfile

VERIF = os.path.dirname(os.path.dirname(os.path.abspath(__file__)))


def sh(cmd, cwd=None):
    p = subprocess.run(cmd, cwd=cwd, capture_output=True, text=True)
    return p.returncode, p.stdout + p.stderr


def main():
    dirs = sys.argv[1:] or sorted(glob.glob(os.path.join(VERIF, 'refactorings*', '*')) + glob.glob(os.path.join(VERIF, 'seeded', '*')))
    wt = tempfile.mkdtemp(prefix='verif-refresh-', dir='/tmp')
    os.rmdir(wt)
    rc, out = sh(['git', '-C', '/repo', 'worktree', 'add', '-q', '--detach', wt, 'HEAD'])
    assert rc == 0, out
    ok = refreshed = stale = 0
    try:
        for d in dirs:
            patch = os.path.abspath(os.path.join(d, 'patch.diff'))
            if not os.path.isfile(patch):
                continue
            rc, _ = sh(['git', 'apply', '--check', patch], cwd=wt)
            if rc == 0:
                ok += 1
                continue
            rc, out = sh(['git', 'apply', '--3way', patch], cwd=wt)
            rc2, conflicts = sh(['git', 'diff', '--name-only', '--diff-filter=U'], cwd=wt)
            if rc == 0 and not conflicts.strip():
                rc, diff = sh(['git', 'diff', 'HEAD'], cwd=wt)
                if not os.path.exists(os.path.join(d, 'patch.orig.diff')):
                    shutil.copy(patch, os.path.join(d, 'patch.orig.diff'))
                open(patch, 'w').write(diff)
                refreshed += 1
                print('refreshed', d)
            else:
                stale += 1
                print('STALE (conflicts with a later fix: commit)', d)
            sh(['git', 'reset', '-q', '--hard', 'HEAD'], cwd=wt)
            sh(['git', 'clean', '-fdq'], cwd=wt)
    finally:
        sh(['git', '-C', '/repo', 'worktree', 'remove', '--force', wt])
        shutil.rmtree(wt, ignore_errors=True)
    print(f'{ok} apply as they are, {refreshed} refreshed, {stale} stale')


if __name__ == '__main__':
    main()
