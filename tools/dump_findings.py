#!/usr/bin/env python3
"""Print the findings a check reports right now as known_findings.json entries (for triage)."""
import json, os, sys
sys.path.insert(0, os.path.dirname(os.path.dirname(os.path.abspath(__file__))))
from sa.main import run_check
out = []
for p in sys.argv[1:]:
    chk = run_check(p.upper(), os.environ.get('VERIF_REPO', '/repo'), 'quick', 0)
    for f in chk.findings():
        out.append({'id': '', 'status': 'known', 'property': f.prop, 'rule': f.rule, 'module': f.module, 'function': f.function,
                    'construct': f.construct, 'what': f.message[:300]})
    for e in chk.errors:
        print('ANALYSIS-ERROR', p, e, file=sys.stderr)
print(json.dumps(out, indent=1))
