#!/usr/bin/env python3
"""Regenerate /verif/MANIFEST.json from the rule packs that exist (sa/rules/cXX.py)."""
import importlib, json, os, sys
HERE = os.path.dirname(os.path.dirname(os.path.abspath(__file__)))
sys.path.insert(0, HERE)
NA_REASONS = json.load(open(os.path.join(HERE, 'tools', 'not_applicable.json')))
checks, na = [], []
for i in range(1, 21):
    pid = f'C{i:02d}'
    try:
        pack = importlib.import_module(f'sa.rules.{pid.lower()}')
    except ModuleNotFoundError:
        na.append({'property_id': pid, 'reason': NA_REASONS.get(pid, 'no structural clause is armed for this property yet; see DESIGN.md section 3')})
        continue
    checks.append({
        'property_id': pid,
        'quick_cmd': f'./check {pid} --tier quick',
        'thorough_cmd': f'./check {pid} --tier thorough',
        'evidence_file': f'/verif/evidence/{pid}.json',
        'replay_cmd_template': './check --replay {path}',
        'engine': 'sa',
        'level_claimed': {
            'category': 'other',
            'text': pack.EXPLANATION,
            'design_ref': f'DESIGN.md section 2, {pid}',
        },
        'level_note': 'Static analysis of /repo source (ast, CFG, decision tables, constant/regex folding); decides the named structural '
                      'clauses only - necessary conditions of the behaviour, not the behaviour. Trusted: CPython ast/re._parser, the reference '
                      'tables in sa/rules (provenance in each), conservative callee resolution. ' + ' '.join(getattr(pack, 'ASSUMPTIONS', [])),
        'technique': getattr(pack, 'TECHNIQUE', 'repository-specific static analysis over Python ast: CFG reachability, decision tables, constant folding'),
    })
man = {
    'version': 1,
    'setup_cmd': 'true',
    'hooks': {
        'guard': 'MESON_VERIF_STATIC',
        'enable': 'no hooks: the checks read /repo source only; the guard name is reserved and unused',
        'baseline_off_cmd': 'cd /repo && /venv/bin/python -m pytest -ra -q -p no:cacheprovider --timeout=900 --continue-on-collection-errors',
        'source_commits': [],
        'add_only': True,
    },
    'engines': [{
        'name': 'sa', 'path': '/verif/sa',
        'serves_properties': [c['property_id'] for c in checks],
        'kind_free_text': 'repository-specific static analysis over Python ast: CFG/reachability, structured path enumeration with predicate '
                          'abstraction (decision tables), def-use flow, constant and regex folding; mutation matrix for the checker itself in thorough tier',
    }],
    'checks': checks,
    'notes': 'All claims are level "other": each check decides named structural clauses (see level_claimed.text and DESIGN.md section 2/3) and '
             'explicitly does not decide the behavioural statement. Known genuine defects are listed in known_findings.json; fixed ones as status "fixed".',
    'not_applicable': na,
}
json.dump(man, open(os.path.join(HERE, 'MANIFEST.json'), 'w'), indent=1)
print(f'{len(checks)} checks, {len(na)} not applicable')
