#!/usr/bin/env python3
"""Split trial_fixes.patch into one patch per finding (hunks assigned by order)."""
import re, sys, os
src = open('/verif/notes/trial_fixes.patch').read()
files = re.split(r'(?m)^(?=diff -ru )', src)
files = [f for f in files if f.startswith('diff -ru')]
assign = {
 'mesonbuild/arglist.py': ['F19'],
 'mesonbuild/ast/printer.py': ['F05F06', 'F05'],
 'mesonbuild/backend/backends.py': ['F11', 'F11', 'F11'],
 'mesonbuild/backend/ninjabackend.py': ['F23'],
 'mesonbuild/cargo/version.py': ['F16'],
 'mesonbuild/cmdline.py': ['F12', 'F12', 'F12', 'F12'],
 'mesonbuild/coredata.py': ['F10'],
 'mesonbuild/mformat.py': ['F08', 'F09'],
 'mesonbuild/modules/pkgconfig.py': ['F18', 'F18'],
 'mesonbuild/mparser.py': ['F04', 'F20', 'F01', 'F03F02'],
 'mesonbuild/mtest.py': ['F15', 'F15', 'F15'],
 'mesonbuild/options.py': ['F24', 'F21'],
 'mesonbuild/rewriter.py': ['F25', 'F25', 'F25', 'F25', 'F07'],
 'mesonbuild/scripts/uninstall.py': ['F17'],
}
out = {}
for f in files:
    head, *hunks = re.split(r'(?m)^(?=@@ )', f)
    name = re.search(r'^\+\+\+ b/(\S+)', head, re.M).group(1)
    ids = assign[name]
    assert len(ids) == len(hunks), (name, len(hunks))
    hdr = f'--- a/{name}\n+++ b/{name}\n'
    for fid, h in zip(ids, hunks):
        out.setdefault(fid, {}).setdefault(name, hdr)
        out[fid][name] += h
for fid, d in out.items():
    open(f'/verif/notes/fixes/{fid}.patch', 'w').write(''.join(d.values()))
print(sorted(out))
