"""E7: obligations, findings, known-findings matching, evidence, exit codes."""
from __future__ import annotations

import ast
import json
import os
import re
import time
import typing as T

from .core import Module, Repo, AnalysisError, Undecided, norm, short

VERIF = os.path.dirname(os.path.dirname(os.path.abspath(__file__)))


def _squash(s: str) -> str:
    return re.sub(r'\s+', ' ', s).strip()


class Finding:
    def __init__(self, prop: str, rule: str, module: str, function: str, construct: str, message: str,
                 line: int = 0, detail: T.Optional[T.Dict[str, T.Any]] = None):
        self.prop = prop
        self.rule = rule
        self.module = module
        self.function = function
        self.construct = _squash(construct)
        self.message = message
        self.line = line
        self.detail = detail or {}

    def key(self) -> T.Tuple[str, str, str, str]:
        return (self.rule, self.module, self.function, self.construct)

    def to_json(self) -> T.Dict[str, T.Any]:
        return {'property': self.prop, 'rule': self.rule, 'module': self.module, 'function': self.function,
                'construct': self.construct, 'message': self.message, 'location': f'{self.module}:{self.line}',
                'detail': self.detail}


class RuleCtx:
    """Handed to every rule function: records what was analysed and what was found."""

    def __init__(self, check: 'Check', rule_id: str, title: str):
        self.check = check
        self.repo = check.repo
        self.rule_id = rule_id
        self.title = title
        self.obligations = 0
        self.discharged = 0
        self.instances: T.List[str] = []      # one line per evaluated rule instance
        self.nontrivial: T.Set[str] = set()   # distinct non-trivial instances (path / flow / table involved)
        self.findings: T.List[Finding] = []
        self.info: T.List[str] = []
        self.floor_failures: T.List[str] = []

    @property
    def thorough(self) -> bool:
        return self.check.tier == 'thorough'

    def ok(self, what: str, nontrivial: bool = True) -> None:
        """An obligation was evaluated and discharged."""
        self.obligations += 1
        self.discharged += 1
        self.instances.append('ok   ' + what)
        if nontrivial:
            self.nontrivial.add(what)

    def violation(self, mod: T.Union[Module, str], function: str, construct: T.Union[ast.AST, str], message: str,
                  node: T.Optional[ast.AST] = None, **detail: T.Any) -> None:
        self.obligations += 1
        rel = mod.rel if isinstance(mod, Module) else mod
        line = getattr(node if node is not None else construct, 'lineno', 0) if not isinstance(node if node is not None else construct, str) else 0
        f = Finding(self.check.prop, self.rule_id, rel, function, norm(construct), message, line, detail)
        self.findings.append(f)
        self.instances.append('FAIL ' + f'{rel}:{line} {function}: {message}')
        self.nontrivial.add(f'{self.rule_id}:{rel}:{function}:{f.construct}')

    def require(self, cond: bool, what: str, mod: T.Union[Module, str], function: str,
                construct: T.Union[ast.AST, str], message: str, node: T.Optional[ast.AST] = None, **detail: T.Any) -> bool:
        if cond:
            self.ok(what)
        else:
            self.violation(mod, function, construct, message, node, **detail)
        return cond

    def floor(self, what: str, count: int, minimum: int) -> None:
        """A rule must not pass vacuously: fewer instances than confirmed by hand -> analysis error."""
        if count < minimum:
            self.floor_failures.append(f'{self.rule_id}: {what}: matched {count} instance(s), floor is {minimum}')
        else:
            self.info.append(f'{what}: {count} (floor {minimum})')

    def note(self, text: str) -> None:
        self.info.append(text)


RuleFn = T.Callable[[RuleCtx], None]


class Rule(T.NamedTuple):
    rule_id: str
    title: str
    fn: RuleFn
    thorough_only: bool = False


def load_known(path: T.Optional[str] = None) -> T.List[T.Dict[str, T.Any]]:
    path = path or os.path.join(VERIF, 'known_findings.json')
    if not os.path.exists(path):
        return []
    with open(path, encoding='utf-8') as f:
        data = json.load(f)
    return data.get('findings', [])


class Check:
    def __init__(self, prop: str, repo: Repo, tier: str = 'quick', seed: int = 0, explanation: str = '',
                 assumptions: T.Optional[T.List[str]] = None):
        self.prop = prop
        self.repo = repo
        self.tier = tier
        self.seed = seed
        self.explanation = explanation
        self.assumptions = assumptions or []
        self.ctxs: T.List[RuleCtx] = []
        self.errors: T.List[str] = []       # every rule that did not reach a verdict (hard errors and undecided)
        self.undecided: T.List[str] = []    # subset of errors: the rule met an idiom it does not read (sa.core.Undecided)
        self.extra: T.Dict[str, T.Any] = {}
        self.t0 = time.time()

    def run_rules(self, rules: T.Sequence[Rule], only: T.Optional[str] = None) -> None:
        for r in rules:
            if only and r.rule_id != only:
                continue
            if r.thorough_only and self.tier != 'thorough':
                continue
            ctx = RuleCtx(self, r.rule_id, r.title)
            self.ctxs.append(ctx)
            try:
                r.fn(ctx)
            except AnalysisError as e:
                msg = f'{r.rule_id}: {e.__class__.__name__}: {e}'
                self.errors.append(msg)
                if isinstance(e, Undecided):
                    self.undecided.append(msg)
            except RecursionError as e:  # pragma: no cover
                self.errors.append(f'{r.rule_id}: checker recursion: {e}')
            except Exception as e:  # checker bug: never a verdict about /repo
                import traceback
                tb = traceback.format_exc(limit=6)
                self.errors.append(f'{r.rule_id}: checker exception {e.__class__.__name__}: {e}\n{tb}')
            self.errors.extend(ctx.floor_failures)
            if ctx.obligations == 0 and not ctx.floor_failures and not any(x.startswith(r.rule_id + ':') for x in self.errors):
                self.errors.append(f'{r.rule_id}: rule evaluated zero obligations (vacuous)')

    # ------------------------------------------------------------------
    def findings(self) -> T.List[Finding]:
        out: T.List[Finding] = []
        seen = set()
        for c in self.ctxs:
            for f in c.findings:
                if f.key() in seen:
                    continue
                seen.add(f.key())
                out.append(f)
        return out

    def split_known(self, known: T.List[T.Dict[str, T.Any]]) -> T.Tuple[T.List[T.Tuple[Finding, T.Dict[str, T.Any]]], T.List[Finding]]:
        kn: T.List[T.Tuple[Finding, T.Dict[str, T.Any]]] = []
        new: T.List[Finding] = []
        for f in self.findings():
            hit = None
            for k in known:
                if k.get('status', 'known') != 'known':
                    continue   # 'fixed' entries suppress nothing
                if (k.get('property') == f.prop and k.get('rule') == f.rule and k.get('module') == f.module
                        and k.get('function') == f.function and _squash(k.get('construct', '')) == f.construct):
                    hit = k
                    break
            if hit is not None:
                kn.append((f, hit))
            else:
                new.append(f)
        return kn, new

    def evidence(self, violations: int, selftest: T.Optional[T.Dict[str, T.Any]] = None) -> T.Dict[str, T.Any]:
        obligations = sum(c.obligations for c in self.ctxs)
        discharged = sum(c.discharged for c in self.ctxs)
        nontrivial: T.Set[str] = set()
        for c in self.ctxs:
            nontrivial |= {f'{c.rule_id}|{x}' for x in c.nontrivial}
        samples: T.List[T.Any] = []
        for c in self.ctxs:
            for inst in c.instances[:4]:
                samples.append(f'{c.rule_id}: {inst}')
        rules = []
        for c in self.ctxs:
            rules.append({'rule': c.rule_id, 'title': c.title, 'obligations': c.obligations, 'discharged': c.discharged,
                          'findings': [f.to_json() for f in c.findings], 'info': c.info,
                          'instances': c.instances if len(c.instances) <= 400 else c.instances[:400] + [f'... {len(c.instances) - 400} more']})
        cov: T.Dict[str, T.Any] = {
            'explanation': self.explanation,
            'obligations': obligations,
            'discharged': discharged,
            'evaluations': max(obligations, 0),
            'distinct_nontrivial': len(nontrivial),
            'rule': ('every armed rule instance (obligation) is one evaluation; an instance is distinct by '
                     '(rule id, construct/what text) and counted non-trivial when deciding it involved a CFG path, '
                     'a data flow, a folded table or a regex language (pure presence checks are excluded)'),
            'samples': samples[:60],
            'checker_cmd': f'./check {self.prop} --tier {self.tier}',
            'trusted_base': ['CPython ast / re._parser', 'the reference tables under /verif/sa (provenance in each)',
                             'name/callee resolution of sa.core (unresolved callees are treated conservatively)'],
            'exhaustive': True,
            'rules': rules,
            'files_consulted': dict(sorted(self.repo.consulted.items())),
            'analysis_errors': [e for e in self.errors if e not in self.undecided],
            'undecided_rules': self.undecided,
        }
        cov.update(self.extra)
        if selftest is not None:
            cov['selftest'] = selftest
        return {
            'property_id': self.prop,
            'tier': self.tier,
            'seed': self.seed,
            'level': 'other',
            'coverage': cov,
            'assumptions': self.assumptions,
            'wall_s': round(time.time() - self.t0, 3),
            'violations': violations,
        }
