"""E5: structured path enumeration with a finite predicate abstraction.

`enumerate_paths(body)` walks a statement list and yields every syntactic path
(loops unrolled 0..`unroll` times, `try` handlers optional) together with the
truth assignment of the *atoms* tested along it.  Atoms are the maximal boolean
sub-expressions that are not and/or/not combinations; an atom is identified by
its normalised text *and the reaching version* of the names it reads (an
assignment to a name forgets what was known about atoms mentioning it), so
infeasible rows such as "isinstance(value, str) true, later false with no
rebinding in between" are not produced.  Atoms containing impure calls
(`self.accept(...)`) are never identified with one another.

No solver, no execution.
"""
from __future__ import annotations

import ast
import typing as T

from .core import Undecided, norm, names_in, chains_in, walk_no_nested

PURE_CALLS = {
    'isinstance', 'len', 'startswith', 'endswith', 'get', 'lower', 'upper', 'strip', 'bool', 'int', 'str', 'type',
    'issubclass', 'hasattr', 'getattr', 'any', 'all', 'is_parallel', 'is_finished', 'is_bad', 'isdigit', 'has_section',
}


class Event:
    __slots__ = ('kind', 'node', 'val')

    def __init__(self, kind: str, node: T.Optional[ast.AST], val: T.Any = None):
        self.kind = kind  # 'stmt' | 'cond' | 'iter' | 'exc' | 'with'
        self.node = node
        self.val = val

    def __repr__(self) -> str:
        if self.kind == 'cond':
            return f'[{"+" if self.val else "-"}{norm(self.node)}]'
        return f'{self.kind}:{norm(self.node)[:60]}'


class Path:
    __slots__ = ('events', 'outcome', 'value')

    def __init__(self, events: T.List[Event], outcome: str, value: T.Optional[ast.AST]):
        self.events = events
        self.outcome = outcome   # return | raise | fall | break | continue
        self.value = value

    def conds(self) -> T.List[T.Tuple[str, bool]]:
        return [(norm(e.node), e.val) for e in self.events if e.kind == 'cond']

    def cond_map(self) -> T.Dict[str, bool]:
        out: T.Dict[str, bool] = {}
        for k, v in self.conds():
            out.setdefault(k, v)
        return out

    def stmts(self) -> T.List[ast.AST]:
        return [e.node for e in self.events if e.kind in ('stmt', 'iter', 'with') and e.node is not None]

    def calls(self) -> T.List[ast.Call]:
        out: T.List[ast.Call] = []
        for e in self.events:
            if e.node is None:
                continue
            roots: T.List[ast.AST]
            if e.kind == 'iter':
                roots = [e.node.iter]  # type: ignore[attr-defined]
            elif e.kind == 'with':
                roots = [i.context_expr for i in e.node.items]  # type: ignore[attr-defined]
            else:
                roots = [e.node]
            for r in roots:
                cs = [c for c in walk_no_nested(r) if isinstance(c, ast.Call)]
                # evaluation order: inner before outer, left to right ~ sort by end position
                cs.sort(key=lambda c: (c.end_lineno or 0, c.end_col_offset or 0))
                out.extend(cs)
        if self.value is not None and self.outcome in ('return', 'raise'):
            pass  # the return/raise statement is already an event
        return out

    def describe(self) -> str:
        cs = ' & '.join(('' if v else 'not ') + k for k, v in self.conds())
        return f'{cs or "always"} => {self.outcome} {norm(self.value) if self.value is not None else ""}'.strip()


def _is_pure(e: ast.AST, pure: T.Set[str]) -> bool:
    for n in ast.walk(e):
        if isinstance(n, ast.Call):
            f = n.func
            name = f.attr if isinstance(f, ast.Attribute) else (f.id if isinstance(f, ast.Name) else None)
            if name not in pure:
                return False
        elif isinstance(n, (ast.Await, ast.Yield, ast.YieldFrom, ast.NamedExpr)):
            return False
    return True


def _is_boolish(e: ast.AST) -> bool:
    if isinstance(e, ast.BoolOp):
        return all(_is_boolish(v) for v in e.values)
    if isinstance(e, ast.UnaryOp) and isinstance(e.op, ast.Not):
        return True
    if isinstance(e, ast.Compare):
        return True
    if isinstance(e, ast.IfExp):
        return _is_boolish(e.body) and _is_boolish(e.orelse)
    if isinstance(e, ast.Call) and isinstance(e.func, ast.Name) and e.func.id in ('isinstance', 'bool', 'any', 'all'):
        return True
    return False


def _eq_const(e: ast.AST) -> T.Optional[T.Tuple[str, str, T.Any]]:
    """x == c  /  x is c  ->  ('eq', norm(x), c);  x != c -> ('ne', ...)"""
    if isinstance(e, ast.Compare) and len(e.ops) == 1:
        l, r = e.left, e.comparators[0]
        if isinstance(l, ast.Constant) and not isinstance(r, ast.Constant):
            l, r = r, l
        if isinstance(r, ast.Constant):
            if isinstance(e.ops[0], (ast.Eq, ast.Is)):
                return ('eq', norm(l), r.value)
            if isinstance(e.ops[0], (ast.NotEq, ast.IsNot)):
                return ('ne', norm(l), r.value)
    return None


class Enumerator:
    def __init__(self, *, unroll: int = 1, handlers: bool = False, max_paths: int = 20000,
                 pure: T.Optional[T.Set[str]] = None, prune: bool = True, bool_returns: bool = False):
        self.bool_returns = bool_returns
        self.unroll = unroll
        self.handlers = handlers
        self.max_paths = max_paths
        self.pure = set(PURE_CALLS) | (pure or set())
        self.prune = prune
        self.count = 0

    # env: atom text -> bool (only for pure atoms)
    Env = T.Dict[str, bool]
    State = T.Tuple[T.List[Event], 'Enumerator.Env']

    def run(self, body: T.List[ast.stmt]) -> T.List[Path]:
        out: T.List[Path] = []
        for ev, env, oc, val in self._block(body, [], {}):
            out.append(Path(ev, oc, val))
        return out

    # every generator yields (events, env, outcome, value) with outcome None meaning "continues"
    def _block(self, body: T.List[ast.stmt], ev: T.List[Event], env: Env) -> T.Iterator[T.Tuple[T.List[Event], Env, T.Optional[str], T.Optional[ast.AST]]]:
        if not body:
            yield ev, env, 'fall', None
            return
        first, rest = body[0], body[1:]
        for ev1, env1, oc, val in self._stmt(first, ev, env):
            if oc is None:
                yield from self._block(rest, ev1, env1)
            else:
                self.count += 1
                if self.count > self.max_paths:
                    raise Undecided(f'more than {self.max_paths} paths')
                yield ev1, env1, oc, val

    def _forget(self, env: Env, targets: T.Iterable[ast.AST]) -> Env:
        killed: T.Set[str] = set()
        for t in targets:
            for n in ast.walk(t):
                if isinstance(n, ast.Name):
                    killed.add(n.id)
            killed |= chains_in(t)
        if not killed:
            return env
        out = {}
        for k, v in env.items():
            try:
                e = ast.parse(k, mode='eval').body
            except SyntaxError:
                continue
            if names_in(e) & killed or chains_in(e) & killed:
                continue
            out[k] = v
        return out

    def _assume(self, test: ast.AST, val: bool, ev: T.List[Event], env: Env) -> T.Iterator[T.Tuple[T.List[Event], Env]]:
        """All ways `test` can evaluate to `val`, as (events, env) extensions."""
        if isinstance(test, ast.UnaryOp) and isinstance(test.op, ast.Not):
            yield from self._assume(test.operand, not val, ev, env)
            return
        if isinstance(test, ast.BoolOp):
            is_and = isinstance(test.op, ast.And)
            vals = test.values
            if (is_and and val) or (not is_and and not val):
                # all operands evaluate to val, in order
                def chain(i: int, ev: T.List[Event], env: Enumerator.Env) -> T.Iterator[T.Tuple[T.List[Event], Enumerator.Env]]:
                    if i == len(vals):
                        yield ev, env
                        return
                    for ev1, env1 in self._assume(vals[i], val, ev, env):
                        yield from chain(i + 1, ev1, env1)
                yield from chain(0, ev, env)
            else:
                # first k operands are (not val) ... operand k is val (short circuit)
                stop = not is_and  # value that stops evaluation: and stops at False, or stops at True
                def upto(i: int, k: int, ev: T.List[Event], env: Enumerator.Env) -> T.Iterator[T.Tuple[T.List[Event], Enumerator.Env]]:
                    if i == k:
                        yield from self._assume(vals[k], stop, ev, env)
                        return
                    for ev1, env1 in self._assume(vals[i], not stop, ev, env):
                        yield from upto(i + 1, k, ev1, env1)
                for k in range(len(vals)):
                    yield from upto(0, k, ev, env)
            return
        if isinstance(test, ast.Constant):
            if bool(test.value) == val:
                yield ev, env
            return
        if isinstance(test, ast.IfExp):
            for ev1, env1 in self._assume(test.test, True, ev, env):
                yield from self._assume(test.body, val, ev1, env1)
            for ev1, env1 in self._assume(test.test, False, ev, env):
                yield from self._assume(test.orelse, val, ev1, env1)
            return
        key = norm(test)
        pure = _is_pure(test, self.pure)
        if pure and self.prune:
            if key in env:
                if env[key] != val:
                    return
                yield ev + [Event('cond', test, val)], env
                return
            if self._contradicts(test, val, env):
                return
            env = dict(env)
            env[key] = val
        yield ev + [Event('cond', test, val)], env

    def _contradicts(self, test: ast.AST, val: bool, env: Env) -> bool:
        ec = _eq_const(test)
        if ec is not None:
            kind, var, c = ec
            want_eq = (kind == 'eq') == val
            for k, v in env.items():
                try:
                    e2 = ast.parse(k, mode='eval').body
                except SyntaxError:
                    continue
                ec2 = _eq_const(e2)
                if ec2 is None or ec2[1] != var:
                    continue
                eq2 = (ec2[0] == 'eq') == v
                same = (ec2[2] == c and type(ec2[2]) is type(c))
                if want_eq and eq2 and not same:
                    return True          # x == a and x == b
                if want_eq != eq2 and same:
                    return True          # x == a and x != a
        # x in ('a','b') vs x == 'c' is left to the rules
        return False

    def _stmt(self, st: ast.stmt, ev: T.List[Event], env: Env) -> T.Iterator[T.Tuple[T.List[Event], Env, T.Optional[str], T.Optional[ast.AST]]]:
        if isinstance(st, ast.If):
            for ev1, env1 in self._assume(st.test, True, ev, env):
                yield from self._cont(self._block(st.body, ev1, env1))
            for ev1, env1 in self._assume(st.test, False, ev, env):
                if st.orelse:
                    yield from self._cont(self._block(st.orelse, ev1, env1))
                else:
                    yield ev1, env1, None, None
            return
        if isinstance(st, (ast.For, ast.AsyncFor, ast.While)):
            yield from self._loop(st, ev, env, self.unroll)
            return
        if isinstance(st, (ast.With, ast.AsyncWith)):
            ev1 = ev + [Event('with', st)]
            env1 = self._forget(env, [i.optional_vars for i in st.items if i.optional_vars is not None])
            yield from self._cont(self._block(st.body, ev1, env1))
            return
        if isinstance(st, ast.Try) or st.__class__.__name__ == 'TryStar':
            def after_finally(it: T.Iterable[T.Tuple[T.List[Event], Enumerator.Env, T.Optional[str], T.Optional[ast.AST]]]) -> T.Iterator[T.Tuple[T.List[Event], Enumerator.Env, T.Optional[str], T.Optional[ast.AST]]]:
                for ev1, env1, oc, val in it:
                    if not st.finalbody:
                        yield ev1, env1, oc, val
                        continue
                    for ev2, env2, oc2, val2 in self._block(st.finalbody, ev1, env1):
                        if oc2 == 'fall':
                            yield ev2, env2, oc, val   # finally completed: the original way out continues
                        else:
                            yield ev2, env2, oc2, val2
            def normal() -> T.Iterator[T.Tuple[T.List[Event], Enumerator.Env, T.Optional[str], T.Optional[ast.AST]]]:
                for ev1, env1, oc, val in self._block(st.body, ev, env):
                    if oc == 'fall':
                        if st.orelse:
                            yield from self._cont(self._block(st.orelse, ev1, env1))
                        else:
                            yield ev1, env1, None, None
                    else:
                        yield ev1, env1, oc, val
                if self.handlers:
                    for h in st.handlers:
                        ev1 = ev + [Event('exc', h)]
                        env1 = self._forget(env, [ast.Name(id=n, ctx=ast.Store()) for n in self._assigned(st.body)])
                        yield from self._cont(self._block(h.body, ev1, env1))
            yield from after_finally(normal())
            return
        if isinstance(st, ast.Return):
            if self.bool_returns and st.value is not None and _is_boolish(st.value):
                for v in (True, False):
                    for ev1, env1 in self._assume(st.value, v, ev, env):
                        yield ev1 + [Event('stmt', st)], env1, 'return', ast.Constant(value=v)
                return
            yield ev + [Event('stmt', st)], env, 'return', st.value
            return
        if isinstance(st, ast.Raise):
            yield ev + [Event('stmt', st)], env, 'raise', st.exc
            return
        if isinstance(st, ast.Break):
            yield ev, env, 'break', None
            return
        if isinstance(st, ast.Continue):
            yield ev, env, 'continue', None
            return
        if isinstance(st, ast.Assert):
            # normal path: the assertion holds
            for ev1, env1 in self._assume(st.test, True, ev, env):
                yield ev1, env1, None, None
            return
        if st.__class__.__name__ == 'Match':
            raise Undecided('match statement')
        # simple statement
        env1 = env
        if isinstance(st, ast.Assign):
            env1 = self._forget(env, st.targets)
        elif isinstance(st, (ast.AugAssign, ast.AnnAssign)):
            env1 = self._forget(env, [st.target])
        elif isinstance(st, ast.Delete):
            env1 = self._forget(env, st.targets)
        elif isinstance(st, ast.Expr) and isinstance(st.value, ast.Call) and isinstance(st.value.func, ast.Attribute):
            # x.mutate(...) may change what tests on x say
            m = st.value.func.attr
            if m in ('append', 'extend', 'insert', 'pop', 'remove', 'clear', 'add', 'update', 'discard', 'sort', 'reverse', 'appendleft', 'extendleft', 'popleft', 'setdefault'):
                env1 = self._forget(env, [st.value.func.value])
        yield ev + [Event('stmt', st)], env1, None, None

    def _assigned(self, body: T.List[ast.stmt]) -> T.Set[str]:
        out: T.Set[str] = set()
        for st in body:
            for n in ast.walk(st):
                if isinstance(n, ast.Name) and isinstance(n.ctx, ast.Store):
                    out.add(n.id)
        return out

    def _cont(self, it: T.Iterable[T.Tuple[T.List[Event], Env, T.Optional[str], T.Optional[ast.AST]]]) -> T.Iterator[T.Tuple[T.List[Event], Env, T.Optional[str], T.Optional[ast.AST]]]:
        for ev, env, oc, val in it:
            yield ev, env, (None if oc == 'fall' else oc), val

    def _loop(self, st: T.Union[ast.For, ast.AsyncFor, ast.While], ev: T.List[Event], env: Env, k: int) -> T.Iterator[T.Tuple[T.List[Event], Env, T.Optional[str], T.Optional[ast.AST]]]:
        is_while = isinstance(st, ast.While)
        # exit now
        def exit_now(ev: T.List[Event], env: Enumerator.Env, broke: bool) -> T.Iterator[T.Tuple[T.List[Event], Enumerator.Env, T.Optional[str], T.Optional[ast.AST]]]:
            if broke or not st.orelse:
                yield ev, env, None, None
            else:
                yield from self._cont(self._block(st.orelse, ev, env))
        if is_while:
            if not (isinstance(st.test, ast.Constant) and st.test.value):
                for ev1, env1 in self._assume(st.test, False, ev, env):
                    yield from exit_now(ev1, env1, False)
            enters = list(self._assume(st.test, True, ev, env)) if k > 0 else []
        else:
            yield from exit_now(ev + [Event('iter', st, 'done')], env, False)
            enters = [(ev + [Event('iter', st, 'iter')], self._forget(env, [st.target]))] if k > 0 else []
        assigned = [ast.Name(id=n, ctx=ast.Store()) for n in self._assigned(st.body)]
        for ev1, env1 in enters:
            for ev2, env2, oc, val in self._block(st.body, ev1, env1):
                if oc in ('fall', 'continue'):
                    env3 = self._forget(env2, assigned)
                    if is_while and isinstance(st.test, ast.Constant) and st.test.value and k - 1 <= 0:
                        # while True: cannot leave without break/return; cut the path here
                        continue
                    yield from self._loop(st, ev2, env3, k - 1) if k - 1 > 0 else self._loop_exit(st, ev2, env3)
                elif oc == 'break':
                    yield from exit_now(ev2, env2, True)
                else:
                    yield ev2, env2, oc, val

    def _loop_exit(self, st: T.Union[ast.For, ast.AsyncFor, ast.While], ev: T.List[Event], env: Env) -> T.Iterator[T.Tuple[T.List[Event], Env, T.Optional[str], T.Optional[ast.AST]]]:
        if isinstance(st, ast.While):
            for ev1, env1 in self._assume(st.test, False, ev, env):
                if st.orelse:
                    yield from self._cont(self._block(st.orelse, ev1, env1))
                else:
                    yield ev1, env1, None, None
        else:
            ev1 = ev + [Event('iter', st, 'done')]
            if st.orelse:
                yield from self._cont(self._block(st.orelse, ev1, env))
            else:
                yield ev1, env, None, None


def enumerate_paths(body: T.List[ast.stmt], **kw: T.Any) -> T.List[Path]:
    return Enumerator(**kw).run(body)
