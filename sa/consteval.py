"""E2: syntactic constant folding of repository tables.

Folds literals, containers, `+`/`%`/f-strings over constants, names bound at
module or class level (through imports), `re.compile(p, flags)` -> Regex(p, flags),
enum members -> Enum(cls, name, value), simple comprehensions over folded
iterables, `str.maketrans({...})`, `set/frozenset/tuple/list/dict/sorted(...)`.
Anything else raises Undecided: a rule that needs the value then reports
*undecided* (exit 2); it never guesses.
"""
from __future__ import annotations

import ast
import typing as T

from .core import Module, Repo, Undecided, AnchorMissing, attr_chain, short


class Regex(T.NamedTuple):
    pattern: str
    flags: int


class EnumMember(T.NamedTuple):
    cls: str
    name: str
    value: T.Any

    def __repr__(self) -> str:
        return f'{self.cls}.{self.name}'


class Opaque(T.NamedTuple):
    """A reference to a repository function/class/lambda (kept symbolic)."""
    kind: str
    name: str
    node: T.Any

    def __repr__(self) -> str:
        return f'<{self.kind} {self.name}>'

    def __hash__(self) -> int:
        return hash((self.kind, self.name))

    def __eq__(self, other: object) -> bool:
        return isinstance(other, Opaque) and (self.kind, self.name) == (other.kind, other.name)


RE_FLAGS = {'I': 2, 'IGNORECASE': 2, 'M': 8, 'MULTILINE': 8, 'S': 16, 'DOTALL': 16, 'X': 64, 'VERBOSE': 64, 'A': 256, 'ASCII': 256, 'U': 32, 'UNICODE': 32}


class Folder:
    def __init__(self, repo: Repo, mod: Module, scope: T.Optional[ast.ClassDef] = None,
                 env: T.Optional[T.Dict[str, T.Any]] = None, depth: int = 0):
        self.repo = repo
        self.mod = mod
        self.scope = scope
        self.env = dict(env or {})
        self.depth = depth

    def sub(self, mod: Module, scope: T.Optional[ast.ClassDef] = None) -> 'Folder':
        if self.depth > 12:
            raise Undecided('constant folding recursion too deep')
        return Folder(self.repo, mod, scope, None, self.depth + 1)

    # ------------------------------------------------------------------
    def fold(self, e: ast.AST) -> T.Any:
        m = getattr(self, 'f_' + e.__class__.__name__, None)
        if m is None:
            raise Undecided(f'cannot fold {e.__class__.__name__}: {short(e)}')
        return m(e)

    def f_Constant(self, e: ast.Constant) -> T.Any:
        return e.value

    def f_Tuple(self, e: ast.Tuple) -> T.Any:
        return tuple(self._elts(e.elts))

    def f_List(self, e: ast.List) -> T.Any:
        return list(self._elts(e.elts))

    def f_Set(self, e: ast.Set) -> T.Any:
        return set(self._elts(e.elts))

    def _elts(self, elts: T.List[ast.expr]) -> T.List[T.Any]:
        out: T.List[T.Any] = []
        for x in elts:
            if isinstance(x, ast.Starred):
                out.extend(self.fold(x.value))
            else:
                out.append(self.fold(x))
        return out

    def f_Dict(self, e: ast.Dict) -> T.Any:
        out: T.Dict[T.Any, T.Any] = {}
        for k, v in zip(e.keys, e.values):
            if k is None:
                out.update(self.fold(v))
            else:
                out[self.fold(k)] = self.fold(v)
        return out

    def f_JoinedStr(self, e: ast.JoinedStr) -> T.Any:
        parts = []
        for v in e.values:
            if isinstance(v, ast.Constant):
                parts.append(str(v.value))
            elif isinstance(v, ast.FormattedValue) and v.format_spec is None and v.conversion == -1:
                parts.append(str(self.fold(v.value)))
            else:
                raise Undecided(f'cannot fold f-string part {short(v)}')
        return ''.join(parts)

    def f_BinOp(self, e: ast.BinOp) -> T.Any:
        l, r = self.fold(e.left), self.fold(e.right)
        try:
            if isinstance(e.op, ast.Add):
                return l + r
            if isinstance(e.op, ast.Mod):
                return l % r
            if isinstance(e.op, ast.BitOr):
                return l | r
            if isinstance(e.op, ast.Sub):
                return l - r
            if isinstance(e.op, ast.Mult):
                return l * r
            if isinstance(e.op, ast.BitAnd):
                return l & r
        except Exception as ex:
            raise Undecided(f'cannot fold {short(e)}: {ex}')
        raise Undecided(f'cannot fold operator in {short(e)}')

    def f_UnaryOp(self, e: ast.UnaryOp) -> T.Any:
        v = self.fold(e.operand)
        if isinstance(e.op, ast.USub):
            return -v
        if isinstance(e.op, ast.Not):
            return not v
        raise Undecided(f'cannot fold {short(e)}')

    def f_Lambda(self, e: ast.Lambda) -> T.Any:
        return Opaque('lambda', short(e, 200), e)

    def f_Name(self, e: ast.Name) -> T.Any:
        if e.id in self.env:
            return self.env[e.id]
        return self.lookup(e.id)

    def f_Attribute(self, e: ast.Attribute) -> T.Any:
        chain = attr_chain(e)
        if chain is None:
            # e.g. X.value on a folded enum member
            base = self.fold(e.value)
            return self._getattr(base, e.attr, e)
        head, *rest = chain.split('.')
        if head == 're' and len(rest) == 1 and rest[0] in RE_FLAGS:
            return RE_FLAGS[rest[0]]
        if head in self.env:
            v = self.env[head]
        else:
            v = self.lookup(head)
        for a in rest:
            v = self._getattr(v, a, e)
        return v

    def _getattr(self, v: T.Any, a: str, e: ast.AST) -> T.Any:
        if isinstance(v, EnumMember):
            if a == 'value':
                return v.value
            if a == 'name':
                return v.name
        if isinstance(v, Opaque) and v.kind == 'module':
            return self.sub(v.node).lookup(a)
        if isinstance(v, Opaque) and v.kind == 'class':
            mod, cls = v.node
            return self._class_attr(mod, cls, a)
        raise Undecided(f'cannot fold attribute .{a} in {short(e)}')

    def _class_attr(self, mod: Module, cls: ast.ClassDef, a: str) -> T.Any:
        for m, c in self.repo.mro(mod, cls):
            if self._is_enum(m, c):
                mem = self._enum_members(m, c)
                if a in mem:
                    return mem[a]
            if m.has_assign(a, c):
                return self.sub(m, c).fold(m.assign_value(a, c))
            for st in c.body:
                if isinstance(st, (ast.FunctionDef, ast.AsyncFunctionDef)) and st.name == a:
                    return Opaque('function', f'{c.name}.{a}', st)
        raise Undecided(f'class {cls.name} has no foldable attribute {a}')

    def _is_enum(self, mod: Module, cls: ast.ClassDef) -> bool:
        for b in cls.bases:
            n = attr_chain(b) or ''
            if n.split('.')[-1] in ('Enum', 'IntEnum', 'Flag', 'IntFlag', 'StrEnum'):
                return True
        return False

    def _enum_members(self, mod: Module, cls: ast.ClassDef) -> T.Dict[str, EnumMember]:
        out: T.Dict[str, EnumMember] = {}
        auto = 0
        f = self.sub(mod, None)
        for st in cls.body:
            if isinstance(st, ast.Assign) and len(st.targets) == 1 and isinstance(st.targets[0], ast.Name):
                name = st.targets[0].id
                if name.startswith('_'):
                    continue
                v = st.value
                if isinstance(v, ast.Call) and (attr_chain(v.func) or '').split('.')[-1] == 'auto':
                    auto += 1
                    val: T.Any = auto
                else:
                    try:
                        val = f.fold(v)
                    except Undecided:
                        val = short(v)
                    if isinstance(val, int):
                        auto = val
                out[name] = EnumMember(cls.name, name, val)
        return out

    def lookup(self, name: str) -> T.Any:
        # class scope, then module scope, then imports
        if self.scope is not None and self.mod.has_assign(name, self.scope):
            return self.sub(self.mod, self.scope).fold(self.mod.assign_value(name, self.scope))
        if self.mod.has_assign(name):
            return self.sub(self.mod).fold(self.mod.assign_value(name))
        if self.mod.has_cls(name):
            return Opaque('class', name, (self.mod, self.mod.cls(name)))
        if self.mod.has_func(name):
            return Opaque('function', name, self.mod.func(name))
        imps = self.mod.imports()
        if name in imps:
            origin = imps[name]
            m2 = self.repo.module_by_dotted(origin)
            if m2 is not None:
                return Opaque('module', origin, m2)
            modname, _, attr = origin.rpartition('.')
            m2 = self.repo.module_by_dotted(modname)
            if m2 is not None and m2 is not self.mod:
                return self.sub(m2).lookup(attr)
            return Opaque('external', origin, None)
        if name in ('str', 'int', 'bool', 'list', 'dict', 'object', 'float', 'tuple', 'set', 'frozenset', 'type', 'None', 'bytes'):
            return Opaque('builtin', name, None)
        raise Undecided(f'{self.mod.rel}: cannot resolve constant {name}')

    def f_Subscript(self, e: ast.Subscript) -> T.Any:
        v = self.fold(e.value)
        try:
            if isinstance(e.slice, ast.Slice):
                lo = self.fold(e.slice.lower) if e.slice.lower else None
                hi = self.fold(e.slice.upper) if e.slice.upper else None
                st = self.fold(e.slice.step) if e.slice.step else None
                return v[lo:hi:st]
            return v[self.fold(e.slice)]
        except Undecided:
            raise
        except Exception as ex:
            raise Undecided(f'cannot fold {short(e)}: {ex}')

    def f_Call(self, e: ast.Call) -> T.Any:
        fn = attr_chain(e.func)
        if fn in ('re.compile', 're.Pattern'):
            pat = self.fold(e.args[0])
            flags = 0
            if len(e.args) > 1:
                flags = self.fold(e.args[1])
            for k in e.keywords:
                if k.arg == 'flags':
                    flags = self.fold(k.value)
            if not isinstance(pat, str):
                raise Undecided(f'regex pattern is not a string in {short(e)}')
            return Regex(pat, flags)
        if fn in ('set', 'frozenset', 'tuple', 'list', 'sorted', 'dict', 'OrderedSet', 'T.cast', 'typing.cast'):
            if fn in ('T.cast', 'typing.cast'):
                return self.fold(e.args[1])
            if not e.args:
                base: T.Any = [] if fn != 'dict' else {}
            else:
                base = self.fold(e.args[0])
            if fn == 'dict':
                d = dict(base)
                for k in e.keywords:
                    if k.arg is None:
                        d.update(self.fold(k.value))
                    else:
                        d[k.arg] = self.fold(k.value)
                return d
            try:
                if fn in ('set',):
                    return set(base)
                if fn == 'frozenset':
                    return frozenset(base)
                if fn == 'tuple':
                    return tuple(base)
                if fn == 'sorted':
                    return sorted(base)
                return list(base)
            except Exception as ex:
                raise Undecided(f'cannot fold {short(e)}: {ex}')
        if fn == 'str.maketrans' and len(e.args) == 1:
            d = self.fold(e.args[0])
            return {ord(k) if isinstance(k, str) else k: v for k, v in d.items()}
        if isinstance(e.func, ast.Attribute) and e.func.attr in ('keys', 'values', 'items', 'union', 'copy', 'format', 'join', 'lower', 'upper'):
            base = self.fold(e.func.value)
            args = [self.fold(a) for a in e.args]
            try:
                r = getattr(base, e.func.attr)(*args)
                if e.func.attr in ('keys', 'values', 'items'):
                    r = list(r)
                return r
            except Exception as ex:
                raise Undecided(f'cannot fold {short(e)}: {ex}')
        if fn == 'len' and len(e.args) == 1:
            return len(self.fold(e.args[0]))
        raise Undecided(f'cannot fold call {short(e)}')

    def _comp(self, gens: T.List[ast.comprehension], emit: T.Callable[['Folder'], None]) -> None:
        def rec(i: int, f: Folder) -> None:
            if i == len(gens):
                emit(f)
                return
            g = gens[i]
            it = f.fold(g.iter)
            if isinstance(it, Opaque) and it.kind == 'class':
                mod, cls = it.node
                if not f._is_enum(mod, cls):
                    raise Undecided(f'iteration over non-enum class {cls.name}')
                it = list(f._enum_members(mod, cls).values())
            if isinstance(it, dict):
                it = list(it.keys())
            for item in it:
                f2 = Folder(f.repo, f.mod, f.scope, f.env, f.depth)
                f2._bind(g.target, item)
                if all(f2.fold(c) for c in g.ifs):
                    rec(i + 1, f2)
        rec(0, self)

    def _bind(self, target: ast.AST, val: T.Any) -> None:
        if isinstance(target, ast.Name):
            self.env[target.id] = val
        elif isinstance(target, (ast.Tuple, ast.List)):
            vals = list(val)
            if len(vals) != len(target.elts):
                raise Undecided('unpack mismatch while folding comprehension')
            for t, v in zip(target.elts, vals):
                self._bind(t, v)
        else:
            raise Undecided(f'cannot bind {short(target)}')

    def f_ListComp(self, e: ast.ListComp) -> T.Any:
        out: T.List[T.Any] = []
        self._comp(e.generators, lambda f: out.append(f.fold(e.elt)))
        return out

    def f_SetComp(self, e: ast.SetComp) -> T.Any:
        out: T.Set[T.Any] = set()
        self._comp(e.generators, lambda f: out.add(f.fold(e.elt)))
        return out

    def f_GeneratorExp(self, e: ast.GeneratorExp) -> T.Any:
        out: T.List[T.Any] = []
        self._comp(e.generators, lambda f: out.append(f.fold(e.elt)))
        return out

    def f_DictComp(self, e: ast.DictComp) -> T.Any:
        out: T.Dict[T.Any, T.Any] = {}

        def emit(f: Folder) -> None:
            out[f.fold(e.key)] = f.fold(e.value)
        self._comp(e.generators, emit)
        return out

    def f_Compare(self, e: ast.Compare) -> T.Any:
        if len(e.ops) != 1:
            raise Undecided(f'cannot fold {short(e)}')
        l, r = self.fold(e.left), self.fold(e.comparators[0])
        op = e.ops[0]
        if isinstance(op, ast.Eq):
            return l == r
        if isinstance(op, ast.NotEq):
            return l != r
        if isinstance(op, ast.In):
            return l in r
        if isinstance(op, ast.NotIn):
            return l not in r
        raise Undecided(f'cannot fold {short(e)}')

    def f_IfExp(self, e: ast.IfExp) -> T.Any:
        return self.fold(e.body) if self.fold(e.test) else self.fold(e.orelse)


def fold_const(repo: Repo, mod: Module, name: str, cls: T.Optional[str] = None) -> T.Any:
    scope = mod.cls(cls) if cls else None
    expr = mod.assign_value(name, scope)
    return Folder(repo, mod, scope).fold(expr)


def fold_expr(repo: Repo, mod: Module, e: ast.AST, cls: T.Optional[str] = None, env: T.Optional[T.Dict[str, T.Any]] = None) -> T.Any:
    scope = mod.cls(cls) if cls else None
    return Folder(repo, mod, scope, env).fold(e)
