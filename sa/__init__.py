"""Repository-specific static analysis for mesonbuild/meson (see /verif/DESIGN.md)."""
