"""E6: facts about the *language* of a repository regex, from re._parser's AST.

The regex subset meson uses (literals, classes, categories, branches, groups,
greedy/lazy repeats, anchors, simple look-ahead) is compiled to a Thompson NFA
over a finite alphabet of *representative characters* (every literal, every
range boundary and its neighbours, one member of each category, a few
outsiders).  All questions below are decided on that NFA; anything outside the
subset (back-references, conditionals) raises Undecided.
"""
from __future__ import annotations

import re
import typing as T

try:
    import re._parser as sre_parse       # py >= 3.11
    import re._constants as sre_c
except ImportError:  # pragma: no cover
    import sre_parse                      # type: ignore
    import sre_constants as sre_c         # type: ignore

from .core import Undecided

BASE_SAMPLES = ['\n', '\r', '\t', ' ', '\x0b', '\x0c', '\x00', 'a', 'z', 'A', 'Z', 'q', 'Q', '0', '9', '5', '_', '-', '+', '.', '\\', "'", '"',
                '@', '$', ':', '#', '{', '}', 'é', ' ', '\x85', '\x1c', '~', '/', '*', '(', ')', '[', ']', '=', '!', '<', '>', ',', '%', '|']


def parse(pattern: str, flags: int = 0) -> T.Any:
    try:
        return sre_parse.parse(pattern, flags)
    except re.error as e:
        raise Undecided(f'regex does not parse: {pattern!r}: {e}')


def _cat_match(cat: T.Any, ch: str) -> bool:
    name = str(cat)
    pos = {'CATEGORY_DIGIT': r'\d', 'CATEGORY_NOT_DIGIT': r'\D', 'CATEGORY_SPACE': r'\s', 'CATEGORY_NOT_SPACE': r'\S',
           'CATEGORY_WORD': r'\w', 'CATEGORY_NOT_WORD': r'\W'}
    if name not in pos:
        raise Undecided(f'regex category {name}')
    return re.fullmatch(pos[name], ch) is not None


def _in_match(items: T.List[T.Any], ch: str, ignorecase: bool) -> bool:
    neg = False
    hit = False
    for op, av in items:
        if op is sre_c.NEGATE:
            neg = True
        elif op is sre_c.LITERAL:
            if chr(av) == ch or (ignorecase and chr(av).lower() == ch.lower()):
                hit = True
        elif op is sre_c.RANGE:
            lo, hi = av
            if lo <= ord(ch) <= hi or (ignorecase and (lo <= ord(ch.lower()) <= hi or lo <= ord(ch.upper()) <= hi)):
                hit = True
        elif op is sre_c.CATEGORY:
            if _cat_match(av, ch):
                hit = True
        else:
            raise Undecided(f'regex class item {op}')
    return hit != neg


def _collect_chars(tree: T.Any, out: T.Set[str]) -> None:
    for op, av in tree:
        if op in (sre_c.LITERAL, sre_c.NOT_LITERAL):
            out.add(chr(av))
        elif op is sre_c.IN:
            for o2, a2 in av:
                if o2 is sre_c.LITERAL:
                    out.add(chr(a2))
                elif o2 is sre_c.RANGE:
                    for c in (a2[0], a2[1], a2[0] - 1, a2[1] + 1, (a2[0] + a2[1]) // 2):
                        if 0 <= c < 0x110000:
                            out.add(chr(c))
        elif op is sre_c.BRANCH:
            for b in av[1]:
                _collect_chars(b, out)
        elif op is sre_c.SUBPATTERN:
            _collect_chars(av[3], out)
        elif op in (sre_c.MAX_REPEAT, sre_c.MIN_REPEAT) or str(op) == 'POSSESSIVE_REPEAT':
            _collect_chars(av[2], out)
        elif op in (sre_c.ASSERT, sre_c.ASSERT_NOT):
            _collect_chars(av[1], out)
        elif str(op) == 'ATOMIC_GROUP':
            _collect_chars(av, out)


class NFA:
    """epsilon-NFA; transitions carry a predicate on one character."""

    def __init__(self) -> None:
        self.eps: T.List[T.List[int]] = []
        self.trans: T.List[T.List[T.Tuple[T.Callable[[str], bool], int]]] = []
        self.start = self.new()
        self.accept = -1

    def new(self) -> int:
        self.eps.append([])
        self.trans.append([])
        return len(self.eps) - 1

    def closure(self, states: T.Iterable[int]) -> T.FrozenSet[int]:
        seen = set(states)
        stack = list(seen)
        while stack:
            s = stack.pop()
            for t in self.eps[s]:
                if t not in seen:
                    seen.add(t)
                    stack.append(t)
        return frozenset(seen)

    def step(self, states: T.FrozenSet[int], ch: str) -> T.FrozenSet[int]:
        nxt = set()
        for s in states:
            for pred, t in self.trans[s]:
                if pred(ch):
                    nxt.add(t)
        return self.closure(nxt)


def build(pattern: str, flags: int = 0, max_unroll: int = 6) -> NFA:
    tree = parse(pattern, flags)
    ic = bool(flags & re.IGNORECASE)
    dotall = bool(flags & re.DOTALL)
    nfa = NFA()

    def seq(items: T.Any, s: int) -> int:
        for op, av in items:
            s = one(op, av, s)
        return s

    def one(op: T.Any, av: T.Any, s: int) -> int:
        if op is sre_c.LITERAL:
            t = nfa.new()
            c = chr(av)
            nfa.trans[s].append(((lambda ch, c=c: ch == c or (ic and ch.lower() == c.lower())), t))
            return t
        if op is sre_c.NOT_LITERAL:
            t = nfa.new()
            c = chr(av)
            nfa.trans[s].append(((lambda ch, c=c: ch != c), t))
            return t
        if op is sre_c.ANY:
            t = nfa.new()
            nfa.trans[s].append(((lambda ch: dotall or ch != '\n'), t))
            return t
        if op is sre_c.IN:
            t = nfa.new()
            nfa.trans[s].append(((lambda ch, av=av: _in_match(av, ch, ic)), t))
            return t
        if op is sre_c.BRANCH:
            t = nfa.new()
            for b in av[1]:
                b0 = nfa.new()
                nfa.eps[s].append(b0)
                nfa.eps[seq(b, b0)].append(t)
            return t
        if op is sre_c.SUBPATTERN:
            return seq(av[3], s)
        if str(op) == 'ATOMIC_GROUP':
            return seq(av, s)
        if op in (sre_c.MAX_REPEAT, sre_c.MIN_REPEAT) or str(op) == 'POSSESSIVE_REPEAT':
            lo, hi, sub = av
            if lo > max_unroll:
                lo = max_unroll
            for _ in range(lo):
                s = seq(sub, s)
            if hi is sre_c.MAXREPEAT or hi > max_unroll + lo:
                loop = nfa.new()
                nfa.eps[s].append(loop)
                end = seq(sub, loop)
                nfa.eps[end].append(loop)
                return loop
            out = nfa.new()
            nfa.eps[s].append(out)
            for _ in range(hi - lo):
                s = seq(sub, s)
                nfa.eps[s].append(out)
            return out
        if op is sre_c.AT:
            return s   # anchors do not consume; over-approximation (language can only grow)
        if op in (sre_c.ASSERT, sre_c.ASSERT_NOT):
            return s   # look-around: over-approximation
        raise Undecided(f'regex construct {op} outside the supported subset in {pattern!r}')

    nfa.accept = seq(tree, nfa.start)
    return nfa


def alphabet(*patterns: str, extra: T.Iterable[str] = ()) -> T.List[str]:
    chars: T.Set[str] = set(BASE_SAMPLES) | set(extra)
    for p in patterns:
        _collect_chars(parse(p), chars)
    return sorted(chars)


def matches_char(pattern: str, ch: str, flags: int = 0) -> bool:
    """Can a full match of `pattern` contain the character `ch` somewhere?"""
    nfa = build(pattern, flags)
    alpha = alphabet(pattern, extra=[ch])
    # BFS over (stateset, seen_ch)
    start = (nfa.closure([nfa.start]), False)
    seen = {start}
    todo = [start]
    while todo:
        st, flag = todo.pop()
        if flag and nfa.accept in st:
            return True
        for c in alpha:
            nx = nfa.step(st, c)
            if not nx:
                continue
            item = (nx, flag or c == ch)
            if item not in seen:
                seen.add(item)
                todo.append(item)
    return False


def intersects(p1: str, p2: str, f1: int = 0, f2: int = 0, max_len: int = 12) -> T.Optional[str]:
    """A witness string matched *fully* by both patterns, or None if L(p1) and L(p2) are disjoint
    (over the representative alphabet)."""
    n1, n2 = build(p1, f1), build(p2, f2)
    alpha = alphabet(p1, p2)
    start = (n1.closure([n1.start]), n2.closure([n2.start]))
    seen = {start: ''}
    todo = [start]
    while todo:
        nxt_todo = []
        for st in todo:
            w = seen[st]
            if n1.accept in st[0] and n2.accept in st[1]:
                return w
            if len(w) >= max_len:
                continue
            for c in alpha:
                a, b = n1.step(st[0], c), n2.step(st[1], c)
                if a and b and (a, b) not in seen:
                    seen[(a, b)] = w + c
                    nxt_todo.append((a, b))
        todo = nxt_todo
    return None


def full_matches(pattern: str, text: str, flags: int = 0) -> bool:
    """NFA-based full match (used to cross-check reference strings without re-running repo code)."""
    nfa = build(pattern, flags)
    st = nfa.closure([nfa.start])
    for ch in text:
        st = nfa.step(st, ch)
        if not st:
            return False
    return nfa.accept in st


def branch_alternatives(pattern: str, flags: int = 0) -> T.List[T.Any]:
    """Top-level alternatives of a pattern (each as a parsed item list)."""
    tree = parse(pattern, flags)
    items = list(tree)
    if len(items) == 1 and items[0][0] is sre_c.BRANCH:
        return [list(b) for b in items[0][1][1]]
    if len(items) == 1 and items[0][0] is sre_c.SUBPATTERN:
        inner = list(items[0][1][3])
        if len(inner) == 1 and inner[0][0] is sre_c.BRANCH:
            return [list(b) for b in inner[0][1][1]]
    return [items]


def literal_prefix(items: T.List[T.Any]) -> str:
    out = ''
    for op, av in items:
        if op is sre_c.LITERAL:
            out += chr(av)
        else:
            break
    return out


def class_chars(items: T.List[T.Any], universe: T.Iterable[str], ignorecase: bool = False) -> T.Set[str]:
    """Members of `universe` accepted by a character class (an IN item list)."""
    return {c for c in universe if _in_match(items, c, ignorecase)}


def unbounded_repeat_of(pattern: str, what: T.Callable[[str], bool] = str.isdigit) -> bool:
    """Does the pattern contain an unbounded repeat over a class that accepts characters `what`?"""
    found = False

    def rec(items: T.Any) -> None:
        nonlocal found
        for op, av in items:
            if op in (sre_c.MAX_REPEAT, sre_c.MIN_REPEAT) or str(op) == 'POSSESSIVE_REPEAT':
                lo, hi, sub = av
                if hi is sre_c.MAXREPEAT:
                    chars: T.Set[str] = set()
                    for o2, a2 in sub:
                        if o2 is sre_c.IN:
                            chars |= class_chars(a2, '0123456789abcxyzABCXYZ_')
                        elif o2 is sre_c.LITERAL:
                            chars.add(chr(a2))
                        elif o2 is sre_c.ANY:
                            chars |= set('09az')
                    if any(what(c) for c in chars):
                        found = True
                rec(sub)
            elif op is sre_c.BRANCH:
                for b in av[1]:
                    rec(b)
            elif op is sre_c.SUBPATTERN:
                rec(av[3])
    rec(parse(pattern))
    return found
