"""CLI: ./check Cxx --tier quick|thorough

exit 0  the property held on everything that was decided (rules that met an idiom they do not read print an
        `UNDECIDED property=… rule: reason` line and are listed in the evidence; VERIF_STRICT=1 turns them into exit 2)
exit 1  a violation (line `VIOLATION property=<id> replay=<path>`)
exit 2  the analysis itself is broken: an anchor vanished, a rule matched fewer instances than its floor or none
        at all, the mutation matrix failed, the checker crashed (line `ANALYSIS-ERROR property=<id> …`)
"""
from __future__ import annotations

import argparse
import importlib
import json
import os
import sys
import typing as T

from .core import Repo
from .report import Check, Rule, load_known, VERIF


def load_pack(prop: str) -> T.Any:
    return importlib.import_module(f'sa.rules.{prop.lower()}')


def run_check(prop: str, repo_root: str, tier: str, seed: int, only: T.Optional[str] = None,
              overlay: T.Optional[T.Dict[str, str]] = None) -> Check:
    pack = load_pack(prop)
    repo = Repo(repo_root, overlay)
    chk = Check(prop, repo, tier, seed, getattr(pack, 'EXPLANATION', ''), getattr(pack, 'ASSUMPTIONS', []))
    chk.run_rules(pack.RULES, only)
    return chk


def main(argv: T.Optional[T.List[str]] = None) -> int:
    ap = argparse.ArgumentParser(prog='check')
    ap.add_argument('prop', nargs='?')
    ap.add_argument('--tier', default=os.environ.get('VERIF_TIER', 'quick'), choices=['quick', 'thorough'])
    ap.add_argument('--rule')
    ap.add_argument('--repo', default=os.environ.get('VERIF_REPO', '/repo'))
    ap.add_argument('--replay')
    ap.add_argument('--no-evidence', action='store_true')
    ap.add_argument('--no-selftest', action='store_true')
    ap.add_argument('-v', '--verbose', action='store_true')
    args = ap.parse_args(argv)
    try:
        seed = int(os.environ.get('VERIF_SEED', '0'))
    except ValueError:
        seed = 0

    if args.replay:
        with open(args.replay, encoding='utf-8') as f:
            rp = json.load(f)
        args.prop = rp['property']
        args.rule = rp['rule']
        args.no_evidence = True
        print(f'replaying rule {args.rule} of {args.prop}: {rp.get("message")}')
    if not args.prop:
        ap.error('property id required')
    prop = args.prop.upper()

    try:
        chk = run_check(prop, args.repo, args.tier, seed, args.rule)
    except ModuleNotFoundError as e:
        print(f'ANALYSIS-ERROR property={prop} no rule pack: {e}')
        return 2
    except Exception as e:  # never a traceback masquerading as a violation
        import traceback
        traceback.print_exc()
        print(f'ANALYSIS-ERROR property={prop} checker crashed: {e.__class__.__name__}: {e}')
        return 2

    known, new = chk.split_known(load_known())
    for c in chk.ctxs:
        print(f'RULE {c.rule_id}: {c.title}: obligations={c.obligations} discharged={c.discharged} findings={len(c.findings)}')
        if args.verbose:
            for i in c.instances:
                print('    ' + i)
        for i in c.info:
            print('    info: ' + i)
    for f, k in known:
        print(f'KNOWN-FINDING: property={prop} {f.rule} {f.module}:{f.line} {f.function}: {f.message} [{k.get("id", "")}]')

    selftest = None
    st_failed = False
    if args.tier == 'thorough' and not args.no_selftest and not args.rule:
        try:
            from . import selftest as st
            selftest = st.run_matrix(prop, args.repo)
            for line in selftest.pop('lines'):
                print(line)
            st_failed = bool(selftest['failures'])
            for fl in selftest['failures']:
                chk.errors.append('selftest: ' + fl)
        except Exception as e:
            import traceback
            traceback.print_exc()
            chk.errors.append(f'selftest crashed: {e.__class__.__name__}: {e}')

    rc = 0
    rdir = os.path.join(VERIF, 'evidence', 'replay')
    write_files = not args.no_evidence and not args.rule
    if write_files and os.path.isdir(rdir):
        for fn in os.listdir(rdir):       # stale replay files of earlier runs of this property
            if fn.startswith(prop + '-'):
                os.unlink(os.path.join(rdir, fn))
    if new:
        rc = 1
        if write_files:
            os.makedirs(rdir, exist_ok=True)
        for i, f in enumerate(new):
            path = os.path.join(rdir, f'{prop}-{f.rule}-{i}.json')
            if write_files:
                with open(path, 'w', encoding='utf-8') as fp:
                    d = f.to_json()
                    d['replay_cmd'] = f'./check {prop} --rule {f.rule}'
                    json.dump(d, fp, indent=1)
            else:
                path = f'(not written: ./check {prop} --rule {f.rule})'
            print(f'  {f.module}:{f.line} in {f.function} [{f.rule}] {f.message}')
            print(f'      construct: {f.construct[:200]}')
            print(f'VIOLATION property={prop} replay={path}')
    strict = os.environ.get('VERIF_STRICT', '') not in ('', '0')
    hard = [e for e in chk.errors if e not in chk.undecided]
    for e in chk.undecided:
        print(f'UNDECIDED property={prop} {e}')
    for e in hard:
        print(f'ANALYSIS-ERROR property={prop} {e}')
    if rc == 0 and (hard or (strict and chk.undecided)):
        rc = 2

    if not args.no_evidence and not args.rule:
        os.makedirs(os.path.join(VERIF, 'evidence'), exist_ok=True)
        ev = chk.evidence(len(new), selftest)
        ev['coverage']['known_findings_reported'] = [f.to_json() for f, _ in known]
        with open(os.path.join(VERIF, 'evidence', f'{prop}.json'), 'w', encoding='utf-8') as fp:
            json.dump(ev, fp, indent=1, sort_keys=False, default=str)
    tot_o = sum(c.obligations for c in chk.ctxs)
    tot_d = sum(c.discharged for c in chk.ctxs)
    print(f'{prop} tier={args.tier}: rules={len(chk.ctxs)} obligations={tot_o} discharged={tot_d} '
          f'known={len(known)} violations={len(new)} undecided_rules={len(chk.undecided)} analysis_errors={len(hard)} -> exit {rc}')
    return rc


if __name__ == '__main__':
    sys.exit(main())
