"""E1 srcmodel: parse the repository (never import it), index modules, classes,
functions; small AST helpers shared by every rule.

Nothing here executes repository code.  A `Repo` may carry an in-memory
*overlay* {relative path: source text}; the selftest harness uses it to analyse
scratch variants of a file without ever writing them anywhere.
"""
from __future__ import annotations

import ast
import hashlib
import os
import typing as T


class AnalysisError(Exception):
    """The checker cannot decide (anchor vanished, unknown idiom).  Exit 2."""


class AnchorMissing(AnalysisError):
    pass


class Undecided(AnalysisError):
    pass


def norm(node: T.Union[ast.AST, str, None]) -> str:
    """Normalised source text of a construct (position- and layout-free)."""
    if node is None:
        return '<none>'
    if isinstance(node, str):
        return node
    try:
        return ast.unparse(node)
    except Exception:  # pragma: no cover
        return ast.dump(node)


def short(node: T.Union[ast.AST, str, None], n: int = 110) -> str:
    s = ' '.join(norm(node).split())
    return s if len(s) <= n else s[:n - 3] + '...'


def attr_chain(node: ast.AST) -> T.Optional[str]:
    """`self.a.b` -> 'self.a.b'; anything that is not a pure Name/Attribute chain -> None."""
    parts: T.List[str] = []
    while isinstance(node, ast.Attribute):
        parts.append(node.attr)
        node = node.value
    if isinstance(node, ast.Name):
        parts.append(node.id)
        return '.'.join(reversed(parts))
    return None


def call_name(call: ast.AST) -> T.Optional[str]:
    """Dotted name of the callee of a Call (`self.accept`, `os.replace`), else None."""
    if isinstance(call, ast.Call):
        return attr_chain(call.func)
    return None


def call_method(call: ast.AST) -> T.Optional[str]:
    """Last component of the callee name (`accept`, `replace`)."""
    if isinstance(call, ast.Call):
        f = call.func
        if isinstance(f, ast.Attribute):
            return f.attr
        if isinstance(f, ast.Name):
            return f.id
    return None


def walk_no_nested(node: ast.AST, *, include_root: bool = True) -> T.Iterator[ast.AST]:
    """ast.walk that does not descend into nested function/class/lambda bodies."""
    stack = [node]
    first = True
    while stack:
        n = stack.pop()
        if not first and isinstance(n, (ast.FunctionDef, ast.AsyncFunctionDef, ast.ClassDef, ast.Lambda)):
            yield n  # the definition itself is visible, its body is not
            continue
        if include_root or not first:
            yield n
        first = False
        stack.extend(reversed(list(ast.iter_child_nodes(n))))


def calls_in(node: ast.AST, nested: bool = False) -> T.List[ast.Call]:
    it = ast.walk(node) if nested else walk_no_nested(node)
    return sorted((n for n in it if isinstance(n, ast.Call)), key=lambda c: (c.lineno, c.col_offset))


def names_in(node: ast.AST) -> T.Set[str]:
    return {n.id for n in ast.walk(node) if isinstance(n, ast.Name)}


def chains_in(node: ast.AST) -> T.Set[str]:
    """All maximal Name/Attribute chains read or written inside node."""
    out: T.Set[str] = set()

    def rec(n: ast.AST) -> None:
        c = attr_chain(n)
        if c is not None:
            out.add(c)
            return
        for ch in ast.iter_child_nodes(n):
            rec(ch)
    rec(node)
    return out


def const_value(node: ast.AST) -> T.Any:
    if isinstance(node, ast.Constant):
        return node.value
    raise Undecided(f'not a constant: {short(node)}')


def kwarg(call: ast.Call, name: str) -> T.Optional[ast.AST]:
    for k in call.keywords:
        if k.arg == name:
            return k.value
    return None


def decorator_names(fn: ast.AST) -> T.List[str]:
    out = []
    for d in getattr(fn, 'decorator_list', []):
        n = attr_chain(d.func if isinstance(d, ast.Call) else d)
        out.append(n or short(d))
    return out


FuncNode = T.Union[ast.FunctionDef, ast.AsyncFunctionDef]


class Module:
    def __init__(self, repo: 'Repo', rel: str, src: str):
        self.repo = repo
        self.rel = rel
        self.src = src
        try:
            self.tree = ast.parse(src, filename=rel)
        except SyntaxError as e:
            raise AnalysisError(f'{rel}: does not parse: {e}')
        self.digest = hashlib.sha256(src.encode('utf-8', 'surrogateescape')).hexdigest()[:16]
        self._funcs: T.Dict[str, FuncNode] = {}
        self._classes: T.Dict[str, ast.ClassDef] = {}
        self._parents: T.Optional[T.Dict[ast.AST, ast.AST]] = None
        self._imports: T.Optional[T.Dict[str, str]] = None
        self._index(self.tree, '')

    def _index(self, node: ast.AST, prefix: str) -> None:
        for ch in getattr(node, 'body', []):
            self._index_stmt(ch, prefix)

    def _index_stmt(self, ch: ast.AST, prefix: str) -> None:
        if isinstance(ch, (ast.FunctionDef, ast.AsyncFunctionDef)):
            q = prefix + ch.name
            # keep the *last* definition unless the earlier one is the real one
            # (overloads / platform variants are kept under name#n)
            if q in self._funcs:
                i = 2
                while f'{q}#{i}' in self._funcs:
                    i += 1
                self._funcs[f'{q}#{i}'] = ch
            else:
                self._funcs[q] = ch
            self._index(ch, q + '.')
        elif isinstance(ch, ast.ClassDef):
            q = prefix + ch.name
            if q in self._classes:
                i = 2
                while f'{q}#{i}' in self._classes:
                    i += 1
                q = f'{q}#{i}'
            self._classes[q] = ch
            self._index(ch, q + '.')
        elif isinstance(ch, (ast.If, ast.Try, ast.With)):
            # module/class level conditionals (platform switches, TYPE_CHECKING)
            for field in ('body', 'orelse', 'finalbody'):
                for s in getattr(ch, field, []):
                    self._index_stmt(s, prefix)
            for h in getattr(ch, 'handlers', []):
                for s in h.body:
                    self._index_stmt(s, prefix)

    # -- lookups -----------------------------------------------------
    def has_func(self, q: str) -> bool:
        return q in self._funcs

    def func(self, q: str) -> FuncNode:
        try:
            return self._funcs[q]
        except KeyError:
            raise AnchorMissing(f'{self.rel}: function {q} not found')

    def funcs(self) -> T.Dict[str, FuncNode]:
        return self._funcs

    def has_cls(self, q: str) -> bool:
        return q in self._classes

    def cls(self, q: str) -> ast.ClassDef:
        try:
            return self._classes[q]
        except KeyError:
            raise AnchorMissing(f'{self.rel}: class {q} not found')

    def classes(self) -> T.Dict[str, ast.ClassDef]:
        return self._classes

    def methods(self, cls: str) -> T.Dict[str, FuncNode]:
        self.cls(cls)
        p = cls + '.'
        return {q[len(p):]: f for q, f in self._funcs.items() if q.startswith(p) and '.' not in q[len(p):]}

    def assign_value(self, name: str, scope: T.Optional[ast.AST] = None) -> ast.AST:
        """The value expression of the (last) top-level/class-level `name = ...`."""
        body = (scope or self.tree).body  # type: ignore[attr-defined]
        found = None
        for st in _flatten_toplevel(body):
            if isinstance(st, ast.Assign):
                for t in st.targets:
                    if isinstance(t, ast.Name) and t.id == name:
                        found = st.value
            elif isinstance(st, ast.AnnAssign) and isinstance(st.target, ast.Name) and st.target.id == name and st.value is not None:
                found = st.value
        if found is None:
            where = f'class {scope.name}' if isinstance(scope, ast.ClassDef) else 'module'
            raise AnchorMissing(f'{self.rel}: {where} constant {name} not found')
        return found

    def has_assign(self, name: str, scope: T.Optional[ast.AST] = None) -> bool:
        try:
            self.assign_value(name, scope)
            return True
        except AnchorMissing:
            return False

    def parent_map(self) -> T.Dict[ast.AST, ast.AST]:
        if self._parents is None:
            pm: T.Dict[ast.AST, ast.AST] = {}
            for n in ast.walk(self.tree):
                for ch in ast.iter_child_nodes(n):
                    pm[ch] = n
            self._parents = pm
        return self._parents

    def enclosing_func(self, node: ast.AST) -> T.Optional[str]:
        """Qualified name of the innermost function containing node."""
        best = None
        ln = getattr(node, 'lineno', None)
        if ln is None:
            return None
        for q, f in self._funcs.items():
            if f.lineno <= ln <= (f.end_lineno or f.lineno):
                if best is None or self._funcs[best].lineno <= f.lineno:
                    best = q
        return best

    def loc(self, node: T.Optional[ast.AST]) -> str:
        ln = getattr(node, 'lineno', 0) if node is not None else 0
        return f'{self.rel}:{ln}'

    def imports(self) -> T.Dict[str, str]:
        """local name -> dotted origin ('mesonlib' -> 'mesonbuild.mesonlib', 'OptionKey' -> 'mesonbuild.options.OptionKey').
        `from x import *` is recorded under the key '*:<n>' -> 'x' (see star_modules())."""
        if self._imports is not None:
            return self._imports
        out: T.Dict[str, str] = {}
        pkg = self.rel[:-3].replace('/', '.').split('.')
        if pkg[-1] == '__init__':
            pkg = pkg[:-1]
            base = pkg
        else:
            base = pkg[:-1]
        for st in ast.walk(self.tree):
            if isinstance(st, ast.Import):
                for a in st.names:
                    out[a.asname or a.name.split('.')[0]] = a.name if a.asname else a.name.split('.')[0]
            elif isinstance(st, ast.ImportFrom):
                if st.level:
                    b = base[:len(base) - (st.level - 1)]
                    mod = '.'.join(b + ([st.module] if st.module else []))
                else:
                    mod = st.module or ''
                for a in st.names:
                    if a.name == '*':
                        out[f'*:{len(out)}'] = mod
                    else:
                        out[a.asname or a.name] = f'{mod}.{a.name}'
        self._imports = out
        return out

    def star_modules(self) -> T.List[str]:
        return [v for k, v in self.imports().items() if k.startswith('*:')]


def _flatten_toplevel(body: T.List[ast.stmt]) -> T.Iterator[ast.stmt]:
    for st in body:
        yield st
        if isinstance(st, (ast.If, ast.Try)):
            for field in ('body', 'orelse', 'finalbody'):
                yield from _flatten_toplevel(getattr(st, field, []))
            for h in getattr(st, 'handlers', []):
                yield from _flatten_toplevel(h.body)


class Repo:
    def __init__(self, root: str, overlay: T.Optional[T.Dict[str, str]] = None):
        self.root = root
        self.overlay = dict(overlay or {})
        self._mods: T.Dict[str, Module] = {}
        self._rc_cache: T.Dict[T.Tuple[str, str], T.Optional[T.Tuple[Module, ast.ClassDef]]] = {}
        self._mro_cache: T.Dict[T.Tuple[str, int], T.List[T.Tuple[Module, ast.ClassDef]]] = {}
        self.consulted: T.Dict[str, str] = {}

    def exists(self, rel: str) -> bool:
        return rel in self.overlay or os.path.isfile(os.path.join(self.root, rel))

    def read(self, rel: str) -> str:
        if rel in self.overlay:
            src = self.overlay[rel]
        else:
            p = os.path.join(self.root, rel)
            try:
                with open(p, encoding='utf-8') as f:
                    src = f.read()
            except OSError as e:
                raise AnchorMissing(f'{rel}: cannot read ({e.__class__.__name__})')
        self.consulted[rel] = hashlib.sha256(src.encode('utf-8', 'surrogateescape')).hexdigest()[:16]
        return src

    def module(self, rel: str) -> Module:
        m = self._mods.get(rel)
        if m is None:
            m = Module(self, rel, self.read(rel))
            self._mods[rel] = m
        return m

    def py_files(self, sub: str = 'mesonbuild') -> T.List[str]:
        out = []
        base = os.path.join(self.root, sub)
        for dp, dn, fn in os.walk(base):
            dn.sort()
            for f in sorted(fn):
                if f.endswith('.py'):
                    out.append(os.path.relpath(os.path.join(dp, f), self.root))
        for rel in self.overlay:
            if rel.startswith(sub) and rel.endswith('.py') and rel not in out:
                out.append(rel)
        return sorted(out)

    def module_by_dotted(self, dotted: str) -> T.Optional[Module]:
        rel = dotted.replace('.', '/')
        for cand in (rel + '.py', rel + '/__init__.py'):
            if self.exists(cand):
                return self.module(cand)
        return None

    # -- class hierarchy across modules --------------------------------
    def resolve_class(self, mod: Module, name: str) -> T.Optional[T.Tuple[Module, ast.ClassDef]]:
        """Resolve a (possibly imported / dotted) class name used in `mod` (cached)."""
        key = (mod.rel, name)
        if key not in self._rc_cache:
            self._rc_cache[key] = None
            self._rc_cache[key] = self._resolve_class(mod, name, 0)
        return self._rc_cache[key]

    def _resolve_class(self, mod: Module, name: str, depth: int) -> T.Optional[T.Tuple[Module, ast.ClassDef]]:
        seen = 0
        while seen < 8:
            seen += 1
            if '.' not in name and mod.has_cls(name):
                return mod, mod.cls(name)
            imps = mod.imports()
            head, _, tail = name.partition('.')
            if head not in imps:
                # `from x import *` re-exports (mesonlib -> utils.universal)
                if depth < 4:
                    for star in mod.star_modules():
                        m2 = self.module_by_dotted(star)
                        if m2 is not None and m2 is not mod:
                            r = self._resolve_class(m2, name, depth + 1)
                            if r is not None:
                                return r
                return None
            origin = imps[head] + ('.' + tail if tail else '')
            # origin is module.path.Class or module.path (then tail is Class...)
            parts = origin.split('.')
            for i in range(len(parts) - 1, 0, -1):
                m2 = self.module_by_dotted('.'.join(parts[:i]))
                if m2 is not None:
                    rest = '.'.join(parts[i:])
                    if m2 is mod and rest == name:
                        return None
                    mod, name = m2, rest
                    break
            else:
                return None
        return None

    def mro(self, mod: Module, cls: ast.ClassDef) -> T.List[T.Tuple[Module, ast.ClassDef]]:
        """Linearisation (DFS, left to right, de-duplicated keeping last = good
        enough for single-inheritance-with-mixins as meson uses it)."""
        ck = (mod.rel, id(cls))
        if ck in self._mro_cache:
            return list(self._mro_cache[ck])
        out: T.List[T.Tuple[Module, ast.ClassDef]] = []

        def rec(m: Module, c: ast.ClassDef, depth: int) -> None:
            if depth > 12:
                return
            if any(c is x[1] for x in out):
                return
            out.append((m, c))
            for b in c.bases:
                n = attr_chain(b.value if isinstance(b, ast.Subscript) else b)
                if not n:
                    continue
                r = self.resolve_class(m, n)
                if r is not None:
                    rec(r[0], r[1], depth + 1)
        rec(mod, cls, 0)
        self._mro_cache[ck] = list(out)
        return out

    def find_method(self, mod: Module, cls: ast.ClassDef, name: str) -> T.Optional[T.Tuple[Module, ast.ClassDef, FuncNode]]:
        for m, c in self.mro(mod, cls):
            for st in c.body:
                if isinstance(st, (ast.FunctionDef, ast.AsyncFunctionDef)) and st.name == name:
                    return m, c, st
        return None
