"""E3: per-function control-flow graph over the statement kinds meson uses.

Nodes are simple statements and branch heads; `finally` bodies and `with` exits
are duplicated per way out (normal / return / raise / break / continue), the way
a compiler lowers them.  Every statement of a `try` body that can raise has an
exception edge to each handler head.

Queries are reachability based ("is B reachable from A when the nodes in C are
removed"), which decides must-pass-through for *sets* of nodes directly.
"""
from __future__ import annotations

import ast
import typing as T

from .core import Undecided, walk_no_nested, short


class Node:
    __slots__ = ('id', 'kind', 'ast', 'extra')

    def __init__(self, id: int, kind: str, node: T.Optional[ast.AST], extra: T.Any = None):
        self.id = id
        self.kind = kind      # entry exit_return exit_raise stmt test iter with_enter with_exit handler join
        self.ast = node       # the statement, or for test/iter/with_* the owning compound statement
        self.extra = extra

    @property
    def lineno(self) -> int:
        return getattr(self.ast, 'lineno', 0)

    def expr(self) -> T.Optional[ast.AST]:
        """The expression evaluated at this node (test of If/While, iterator of For, items of With, the stmt)."""
        if self.kind == 'test':
            return self.ast.test  # type: ignore[union-attr]
        if self.kind == 'iter':
            return self.ast.iter  # type: ignore[union-attr]
        if self.kind == 'with_enter':
            return ast.Tuple(elts=[i.context_expr for i in self.ast.items], ctx=ast.Load())  # type: ignore[union-attr]
        if self.kind == 'handler':
            return self.ast.type  # type: ignore[union-attr]
        if self.kind == 'stmt':
            return self.ast
        return None

    def __repr__(self) -> str:
        return f'<{self.id}:{self.kind}@{self.lineno} {short(self.expr(), 50) if self.expr() is not None else ""}>'


def _may_raise(st: ast.AST) -> bool:
    for n in walk_no_nested(st):
        if isinstance(n, (ast.Call, ast.Subscript, ast.Attribute, ast.Await, ast.Yield, ast.YieldFrom,
                          ast.Assert, ast.Raise, ast.BinOp, ast.Compare, ast.Import, ast.ImportFrom, ast.Delete)):
            return True
    return False


def _const_truth(e: ast.AST) -> T.Optional[bool]:
    if isinstance(e, ast.Constant):
        return bool(e.value)
    return None


class _Frame:
    """A pending cleanup (finally body or with-exit) that every way out must run."""
    def __init__(self, kind: str, node: ast.AST):
        self.kind = kind   # 'finally' | 'with'
        self.node = node


class CFG:
    def __init__(self, fn: T.Union[ast.FunctionDef, ast.AsyncFunctionDef, ast.Lambda, ast.Module]):
        self.fn = fn
        self.nodes: T.List[Node] = []
        self.succ: T.Dict[int, T.List[T.Tuple[int, T.Any]]] = {}
        self.pred: T.Dict[int, T.List[T.Tuple[int, T.Any]]] = {}
        self.entry = self._new('entry', None)
        self.exit_return = self._new('exit_return', None)
        self.exit_raise = self._new('exit_raise', None)
        # context stacks
        self._loops: T.List[T.Tuple[Node, Node, int]] = []   # (continue target, break target, frame depth)
        self._frames: T.List[_Frame] = []
        self._handlers: T.List[T.Tuple[T.List[Node], bool, int]] = []  # (handler heads, has catch-all, frame depth)
        body = fn.body if not isinstance(fn, ast.Lambda) else [ast.Return(value=fn.body, lineno=fn.lineno, col_offset=0)]
        last = self._block(body, [(self.entry, None)])
        for n, lab in last:
            self._edge(n, self.exit_return, lab)   # falling off the end returns None

    # -- construction ---------------------------------------------------
    def _new(self, kind: str, node: T.Optional[ast.AST], extra: T.Any = None) -> Node:
        n = Node(len(self.nodes), kind, node, extra)
        self.nodes.append(n)
        self.succ[n.id] = []
        self.pred[n.id] = []
        return n

    def _edge(self, a: Node, b: Node, label: T.Any = None) -> None:
        if (b.id, label) not in self.succ[a.id]:
            self.succ[a.id].append((b.id, label))
            self.pred[b.id].append((a.id, label))

    def _connect(self, preds: T.List[T.Tuple[Node, T.Any]], n: Node) -> None:
        for p, lab in preds:
            self._edge(p, n, lab)

    Preds = T.List[T.Tuple[Node, T.Any]]

    def _block(self, body: T.List[ast.stmt], preds: 'CFG.Preds') -> 'CFG.Preds':
        for st in body:
            if not preds:
                break  # unreachable code after return/raise
            preds = self._stmt(st, preds)
        return preds

    def _exc_targets(self, node: Node) -> None:
        """Add exception edges from node to the enclosing handlers / exit_raise."""
        depth = len(self._frames)
        for heads, catch_all, fdepth in reversed(self._handlers):
            cur: CFG.Preds = [(node, 'exc')]
            cur = self._run_frames(cur, depth, fdepth)
            for h in heads:
                self._connect(cur, h)
            depth = fdepth
            if catch_all:
                return
        cur = self._run_frames([(node, 'exc')], depth, 0)
        self._connect(cur, self.exit_raise)

    def _run_frames(self, preds: 'CFG.Preds', frm: int, to: int) -> 'CFG.Preds':
        """Run the cleanup frames [to, frm) innermost first and return the new frontier."""
        for i in range(frm - 1, to - 1, -1):
            fr = self._frames[i]
            if fr.kind == 'with':
                n = self._new('with_exit', fr.node)
                self._connect(preds, n)
                preds = [(n, None)]
            else:
                saved_frames, saved_handlers, saved_loops = self._frames, self._handlers, self._loops
                self._frames = self._frames[:i]
                self._handlers = [h for h in self._handlers if h[2] <= i]
                self._loops = [l for l in self._loops if l[2] <= i]
                preds = self._block(fr.node.finalbody, preds)  # type: ignore[attr-defined]
                self._frames, self._handlers, self._loops = saved_frames, saved_handlers, saved_loops
        return preds

    def _stmt(self, st: ast.stmt, preds: 'CFG.Preds') -> 'CFG.Preds':
        if isinstance(st, ast.If):
            t = self._new('test', st)
            self._connect(preds, t)
            if self._handlers and _may_raise(st.test):
                self._exc_targets(t)
            c = _const_truth(st.test)
            out: CFG.Preds = []
            if c is not False:
                out += self._block(st.body, [(t, True)])
            if c is not True:
                out += self._block(st.orelse, [(t, False)]) if st.orelse else [(t, False)]
            return out
        if isinstance(st, ast.While):
            t = self._new('test', st)
            self._connect(preds, t)
            if self._handlers and _may_raise(st.test):
                self._exc_targets(t)
            after = self._new('join', st)
            self._loops.append((t, after, len(self._frames)))
            c = _const_truth(st.test)
            body_out = self._block(st.body, [(t, True)]) if c is not False else []
            self._loops.pop()
            self._connect(body_out, t)
            if c is not True:
                else_out = self._block(st.orelse, [(t, False)]) if st.orelse else [(t, False)]
                self._connect(else_out, after)
            return [(after, None)] if self.pred[after.id] else []
        if isinstance(st, (ast.For, ast.AsyncFor)):
            t = self._new('iter', st)
            self._connect(preds, t)
            if self._handlers:
                self._exc_targets(t)
            after = self._new('join', st)
            self._loops.append((t, after, len(self._frames)))
            body_out = self._block(st.body, [(t, 'iter')])
            self._loops.pop()
            self._connect(body_out, t)
            else_out = self._block(st.orelse, [(t, 'done')]) if st.orelse else [(t, 'done')]
            self._connect(else_out, after)
            return [(after, None)]
        if isinstance(st, (ast.With, ast.AsyncWith)):
            e = self._new('with_enter', st)
            self._connect(preds, e)
            if self._handlers:
                self._exc_targets(e)
            self._frames.append(_Frame('with', st))
            out = self._block(st.body, [(e, None)])
            self._frames.pop()
            if out:
                x = self._new('with_exit', st)
                self._connect(out, x)
                return [(x, None)]
            return []
        if isinstance(st, ast.Try) or st.__class__.__name__ == 'TryStar':
            heads = [self._new('handler', h) for h in st.handlers]
            catch_all = any(h.type is None or (isinstance(h.type, ast.Name) and h.type.id in ('BaseException', 'Exception'))
                            for h in st.handlers)
            # only a bare except / BaseException is truly catch-all; `Exception` is treated as
            # catch-all for routing purposes but also keeps an edge outwards (see below)
            truly_all = any(h.type is None or (isinstance(h.type, ast.Name) and h.type.id == 'BaseException') for h in st.handlers)
            has_finally = bool(st.finalbody)
            if has_finally:
                self._frames.append(_Frame('finally', st))
            if heads:
                self._handlers.append((heads, truly_all, len(self._frames)))
            body_out = self._block(st.body, preds)
            if heads:
                self._handlers.pop()
            out = self._block(st.orelse, body_out) if st.orelse else body_out
            for h, hn in zip(st.handlers, heads):
                if self.pred[hn.id] or True:
                    out = out + self._block(h.body, [(hn, None)])
            if has_finally:
                self._frames.pop()
                out = self._block(st.finalbody, out) if out else []
            return out
        if isinstance(st, ast.Return):
            n = self._new('stmt', st)
            self._connect(preds, n)
            if self._handlers and st.value is not None and _may_raise(st.value):
                self._exc_targets(n)
            cur = self._run_frames([(n, None)], len(self._frames), 0)
            self._connect(cur, self.exit_return)
            return []
        if isinstance(st, ast.Raise):
            n = self._new('stmt', st)
            self._connect(preds, n)
            self._exc_targets(n)
            return []
        if isinstance(st, ast.Break):
            n = self._new('stmt', st)
            self._connect(preds, n)
            if not self._loops:
                raise Undecided('break outside loop')
            _, brk, fdepth = self._loops[-1]
            cur = self._run_frames([(n, None)], len(self._frames), fdepth)
            self._connect(cur, brk)
            return []
        if isinstance(st, ast.Continue):
            n = self._new('stmt', st)
            self._connect(preds, n)
            cont, _, fdepth = self._loops[-1]
            cur = self._run_frames([(n, None)], len(self._frames), fdepth)
            self._connect(cur, cont)
            return []
        if st.__class__.__name__ == 'Match':
            raise Undecided(f'match statement at line {st.lineno} is outside the CFG subset')
        # simple statement (incl. nested def/class, which are opaque)
        n = self._new('stmt', st)
        self._connect(preds, n)
        if self._handlers and _may_raise(st):
            self._exc_targets(n)
        if isinstance(st, ast.Assert):
            # a failing assert leaves through the exception route
            if not self._handlers:
                pass
        return [(n, None)]

    # -- queries ----------------------------------------------------------
    def find(self, pred: T.Callable[[Node], bool]) -> T.List[Node]:
        return [n for n in self.nodes if pred(n)]

    def nodes_with_call(self, pred: T.Callable[[ast.Call], bool]) -> T.List[Node]:
        out = []
        for n in self.nodes:
            e = n.expr()
            if e is None:
                continue
            if any(isinstance(c, ast.Call) and pred(c) for c in walk_no_nested(e)):
                out.append(n)
        return out

    def reachable(self, start: T.Iterable[Node], avoid: T.Iterable[Node] = (), *,
                  edge_ok: T.Optional[T.Callable[[Node, Node, T.Any], bool]] = None,
                  include_start: bool = False) -> T.Set[int]:
        """Ids of nodes reachable from start by >=1 edge without *entering* a node of `avoid`."""
        av = {n.id for n in avoid}
        seen: T.Set[int] = set()
        stack = [n.id for n in start]
        first = set(stack)
        if include_start:
            seen |= first
        while stack:
            a = stack.pop()
            for b, lab in self.succ[a]:
                if b in av or b in seen:
                    continue
                if edge_ok is not None and not edge_ok(self.nodes[a], self.nodes[b], lab):
                    continue
                seen.add(b)
                stack.append(b)
        return seen

    def can_reach(self, a: Node, b: Node, avoid: T.Iterable[Node] = (), no_exc: bool = False) -> bool:
        ok = (lambda x, y, lab: lab != 'exc') if no_exc else None
        return b.id in self.reachable([a], avoid, edge_ok=ok)

    def must_pass(self, src: Node, dst: Node, via: T.Iterable[Node], no_exc: bool = False) -> bool:
        """Every path src ->+ dst enters a node of `via` (dst itself may be in via only if src!=dst)."""
        via = [v for v in via if v.id != dst.id]
        return not self.can_reach(src, dst, via, no_exc=no_exc)

    def dominated_by_any(self, dst: Node, via: T.Iterable[Node], no_exc: bool = False) -> bool:
        return self.must_pass(self.entry, dst, via, no_exc=no_exc)

    def is_reachable(self, n: Node) -> bool:
        return n.id in self.reachable([self.entry])

    def stmt_nodes(self, st: ast.AST) -> T.List[Node]:
        return [n for n in self.nodes if n.ast is st]

    def node_containing(self, sub: ast.AST) -> T.List[Node]:
        """CFG nodes whose evaluated expression contains the AST object `sub`."""
        out = []
        for n in self.nodes:
            e = n.expr()
            if e is None:
                continue
            if n.kind == 'with_enter':
                roots: T.List[ast.AST] = [i for i in n.ast.items]  # type: ignore[union-attr]
            elif n.kind == 'iter':
                roots = [n.ast.iter, n.ast.target]  # type: ignore[union-attr]
            else:
                roots = [e]
            for r in roots:
                if any(x is sub for x in walk_no_nested(r)):
                    out.append(n)
                    break
        return out
