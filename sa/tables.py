"""E5b: decision tables over canonical atoms, and their comparison with reference
denotations by exhaustive enumeration of the *worlds* of a finite predicate
abstraction (no solver, no execution of repository code).

  table = extract(fn)                 # rows: canonical conditions -> outcome
  for world in table.worlds():        # every consistent truth assignment
      got = table.outcome(world)      # the row that fires
      want = reference(view(world))   # rule-specific

Canonicalisation makes the comparison insensitive to refactoring:
  * parameters are renamed by position (ARG1, ARG2 ...; `self` stays),
  * single-definition pure locals are inlined (copy propagation),
  * comparisons are normalised (a > b == b < a; not a < b == b <= a; a != b == not a == b),
  * if/elif chains, early returns, conditional expressions and and/or/not
    combinations all come out as the same set of rows.
"""
from __future__ import annotations

import ast
import copy
import itertools
import typing as T

from .core import Undecided, norm, names_in, walk_no_nested
from .paths import Enumerator, Path, Event

BUILTIN_TYPES = ('bool', 'int', 'str', 'list', 'dict', 'tuple', 'set', 'float', 'bytes')


class Atom(T.NamedTuple):
    kind: str                 # cmp | is | isinstance | in | truth
    args: T.Tuple[T.Any, ...]

    def __repr__(self) -> str:
        if self.kind == 'cmp':
            return f'{self.args[1]} {dict(lt="<", le="<=", eq="==")[self.args[0]]} {self.args[2]}'
        if self.kind == 'is':
            return f'{self.args[0]} is {self.args[1]}'
        if self.kind == 'isinstance':
            return f'isinstance({self.args[0]}, {"|".join(self.args[1])})'
        if self.kind == 'in':
            return f'{self.args[0]} in {self.args[1]}'
        return str(self.args[0])


def canon(e: ast.AST, val: bool) -> T.Tuple[Atom, bool]:
    """Canonical (atom, polarity) for a condition `e` observed with truth value `val`."""
    if isinstance(e, ast.UnaryOp) and isinstance(e.op, ast.Not):
        return canon(e.operand, not val)
    if isinstance(e, ast.Compare) and len(e.ops) == 1:
        a, b = norm(e.left), norm(e.comparators[0])
        op = e.ops[0]
        if isinstance(op, ast.Lt):
            return Atom('cmp', ('lt', a, b)), val
        if isinstance(op, ast.Gt):
            return Atom('cmp', ('lt', b, a)), val
        if isinstance(op, ast.LtE):
            # a <= b  ==  not (b < a)
            return Atom('cmp', ('lt', b, a)), not val
        if isinstance(op, ast.GtE):
            return Atom('cmp', ('lt', a, b)), not val
        if isinstance(op, (ast.Eq, ast.NotEq)):
            x, y = sorted((a, b))
            # keep the constant on the right for readability
            if isinstance(e.left, ast.Constant) and not isinstance(e.comparators[0], ast.Constant):
                x, y = b, a
            elif isinstance(e.comparators[0], ast.Constant):
                x, y = a, b
            return Atom('cmp', ('eq', x, y)), val if isinstance(op, ast.Eq) else not val
        if isinstance(op, (ast.Is, ast.IsNot)):
            return Atom('is', (a, b)), val if isinstance(op, ast.Is) else not val
        if isinstance(op, (ast.In, ast.NotIn)):
            return Atom('in', (a, b)), val if isinstance(op, ast.In) else not val
    if isinstance(e, ast.Call) and isinstance(e.func, ast.Name) and e.func.id == 'isinstance' and len(e.args) == 2:
        t = e.args[1]
        names = tuple(sorted(norm(x) for x in (t.elts if isinstance(t, ast.Tuple) else [t])))
        return Atom('isinstance', (norm(e.args[0]), names)), val
    return Atom('truth', (norm(e),)), val


class Row:
    def __init__(self, conds: T.Dict[Atom, bool], outcome: T.Tuple[T.Any, ...], effects: T.Tuple[str, ...], path: Path):
        self.conds = conds
        self.outcome = outcome
        self.effects = effects
        self.path = path

    def __repr__(self) -> str:
        cs = ' & '.join(('' if v else 'not ') + repr(a) for a, v in self.conds.items()) or 'always'
        eff = (' {' + '; '.join(self.effects) + '}') if self.effects else ''
        return f'{cs} => {" ".join(str(x) for x in self.outcome)}{eff}'


class _Subst(ast.NodeTransformer):
    def __init__(self, mapping: T.Dict[str, ast.AST], params: T.Optional[T.Dict[str, ast.AST]] = None):
        self.mapping = mapping
        self.params = params or {}

    def visit_Name(self, n: ast.Name) -> ast.AST:
        if isinstance(n.ctx, ast.Load) and n.id in self.mapping:
            return copy.deepcopy(self.mapping[n.id])
        if n.id in self.params:
            return ast.Name(id=self.params[n.id].id, ctx=n.ctx)  # type: ignore[attr-defined]
        return n


def _param_map(fn: T.Union[ast.FunctionDef, ast.AsyncFunctionDef, ast.Lambda]) -> T.Dict[str, ast.AST]:
    out: T.Dict[str, ast.AST] = {}
    args = fn.args.posonlyargs + fn.args.args
    i = 0
    for a in args:
        if a.arg in ('self', 'cls'):
            continue
        i += 1
        out[a.arg] = ast.Name(id=f'ARG{i}', ctx=ast.Load())
    for a in fn.args.kwonlyargs:
        out[a.arg] = ast.Name(id=f'ARG_{a.arg}', ctx=ast.Load())
    return out


INLINE_CALLS = {'isinstance', 'len', 'bool', 'int', 'str', 'get', 'lower', 'upper', 'strip', 'startswith', 'endswith', 'group', 'type'}


def _inlinable_locals(body: T.List[ast.stmt], params: T.Set[str], calls: T.Set[str] = INLINE_CALLS) -> T.Dict[str, ast.AST]:
    """Locals with exactly one definition `x = <pure expr>` that is not inside a loop
    and does not read anything that is assigned in the body."""
    defs: T.Dict[str, T.List[ast.AST]] = {}
    in_loop: T.Set[str] = set()
    assigned_any: T.Set[str] = set()

    def visit(stmts: T.List[ast.stmt], loop: bool) -> None:
        for st in stmts:
            for n in walk_no_nested(st):
                if isinstance(n, ast.Name) and isinstance(n.ctx, (ast.Store, ast.Del)):
                    assigned_any.add(n.id)
            if isinstance(st, ast.Assign) and len(st.targets) == 1 and isinstance(st.targets[0], ast.Name):
                defs.setdefault(st.targets[0].id, []).append(st.value)
                if loop:
                    in_loop.add(st.targets[0].id)
            elif isinstance(st, ast.AnnAssign) and isinstance(st.target, ast.Name) and st.value is not None:
                defs.setdefault(st.target.id, []).append(st.value)
                if loop:
                    in_loop.add(st.target.id)
            else:
                for n in walk_no_nested(st):
                    if isinstance(n, ast.Name) and isinstance(n.ctx, (ast.Store, ast.Del)):
                        defs.setdefault(n.id, []).append(None)  # type: ignore[arg-type]
                        defs[n.id].append(None)  # type: ignore[arg-type]
            for field in ('body', 'orelse', 'finalbody'):
                sub = getattr(st, field, None)
                if isinstance(sub, list) and sub and isinstance(sub[0], ast.stmt):
                    visit(sub, loop or isinstance(st, (ast.For, ast.While, ast.AsyncFor)))
            for h in getattr(st, 'handlers', []):
                visit(h.body, loop)
    visit(body, False)
    out: T.Dict[str, ast.AST] = {}
    for name, vals in defs.items():
        if len(vals) != 1 or vals[0] is None or name in in_loop or name in params:
            continue
        v = vals[0]
        pure = True
        for n in ast.walk(v):
            if isinstance(n, (ast.Await, ast.Yield, ast.YieldFrom, ast.NamedExpr, ast.Lambda)):
                pure = False
            if isinstance(n, ast.Call):
                f = n.func
                nm = f.attr if isinstance(f, ast.Attribute) else (f.id if isinstance(f, ast.Name) else '')
                if nm not in calls:
                    pure = False
        reads_assigned = {x for x in names_in(v) if x in assigned_any and x != name}
        if pure and not (reads_assigned - params):
            out[name] = v
    return out


class Table:
    def __init__(self, rows: T.List[Row], name: str = ''):
        self.rows = rows
        self.name = name

    def atoms(self) -> T.List[Atom]:
        seen: T.Dict[Atom, None] = {}
        for r in self.rows:
            for a in r.conds:
                seen.setdefault(a)
        return list(seen)

    # -- worlds -----------------------------------------------------------
    def worlds(self, extra_atoms: T.Iterable[Atom] = (), limit: int = 1 << 16) -> T.Iterator[T.Dict[Atom, bool]]:
        atoms = list(dict.fromkeys(list(self.atoms()) + list(extra_atoms)))
        cmp_groups: T.Dict[T.FrozenSet[str], T.List[Atom]] = {}
        inst_groups: T.Dict[str, T.List[Atom]] = {}
        free: T.List[Atom] = []
        for a in atoms:
            if a.kind == 'cmp':
                cmp_groups.setdefault(frozenset((a.args[1], a.args[2])), []).append(a)
            elif a.kind == 'isinstance' and all(t in BUILTIN_TYPES for t in a.args[1]):
                inst_groups.setdefault(a.args[0], []).append(a)
            else:
                free.append(a)
        dims: T.List[T.List[T.Dict[Atom, bool]]] = []
        for pair, grp in cmp_groups.items():
            only_eq = all(a.args[0] == 'eq' for a in grp)
            opts = []
            for world in (('eq', 'ne') if only_eq else ('lt', 'eq', 'gt')):
                d: T.Dict[Atom, bool] = {}
                for a in grp:
                    op, x, y = a.args
                    ref = sorted(pair)[0] if len(pair) == 2 else x
                    if op == 'eq':
                        d[a] = world == 'eq'
                    else:  # lt(x, y): world is relative to (ref, other)
                        if len(pair) == 1:
                            d[a] = False
                        elif x == ref:
                            d[a] = world == 'lt'
                        else:
                            d[a] = world == 'gt'
                opts.append(d)
            dims.append(opts)
        for subj, grp in inst_groups.items():
            types = sorted({t for a in grp for t in a.args[1]})
            opts = []
            for world in types + ['<other>']:
                d = {}
                for a in grp:
                    d[a] = any(world == t or (world == 'bool' and t == 'int') for t in a.args[1])
                opts.append(d)
            dims.append(opts)
        for a in free:
            dims.append([{a: True}, {a: False}])
        total = 1
        for d_ in dims:
            total *= len(d_)
            if total > limit:
                raise Undecided(f'{self.name}: more than {limit} worlds ({len(atoms)} atoms)')
        for combo in itertools.product(*dims) if dims else [()]:
            w: T.Dict[Atom, bool] = {}
            for d in combo:
                w.update(d)
            # exclusivity: x == c1 and x == c2 for distinct constants
            eqs: T.Dict[str, T.Set[str]] = {}
            bad = False
            for a, v in w.items():
                if a.kind == 'cmp' and a.args[0] == 'eq' and v and _is_const_text(a.args[2]):
                    s = eqs.setdefault(a.args[1], set())
                    s.add(a.args[2])
                    if len(s) > 1:
                        bad = True
                        break
            if not bad:
                yield w

    def fire(self, world: T.Dict[Atom, bool]) -> T.List[Row]:
        return [r for r in self.rows if all(world.get(a) == v for a, v in r.conds.items())]

    def dump(self) -> T.List[str]:
        return [repr(r) for r in self.rows]


def _is_const_text(s: str) -> bool:
    try:
        return isinstance(ast.parse(s, mode='eval').body, ast.Constant)
    except SyntaxError:
        return False


def default_outcome(p: Path, subst: T.Callable[[ast.AST], ast.AST]) -> T.Tuple[T.Any, ...]:
    if p.outcome == 'return':
        return ('return', norm(subst(p.value)) if p.value is not None else 'None')
    if p.outcome == 'raise':
        exc = p.value
        if exc is None:
            return ('raise', '<reraise>')
        if isinstance(exc, ast.Call):
            exc = exc.func
        return ('raise', norm(exc))
    return (p.outcome,)


def extract(fn: T.Union[ast.FunctionDef, ast.AsyncFunctionDef], *, body: T.Optional[T.List[ast.stmt]] = None,
            effects: T.Optional[T.Callable[[ast.AST], T.Optional[str]]] = None,
            outcome: T.Optional[T.Callable[[Path, T.Callable[[ast.AST], ast.AST]], T.Tuple[T.Any, ...]]] = None,
            inline: bool = True, name: str = '', inline_calls: T.Iterable[str] = (), **kw: T.Any) -> Table:
    """Decision table of a function (or of `body`, e.g. one loop body of it)."""
    params = _param_map(fn)
    stmts = body if body is not None else fn.body
    mapping: T.Dict[str, ast.AST] = dict(params)
    if inline:
        loc = _inlinable_locals(stmts, set(params), INLINE_CALLS | set(inline_calls))
        # resolve chains a = p; b = a
        for _ in range(4):
            for k, v in list(loc.items()):
                loc[k] = _Subst({**params, **{x: y for x, y in loc.items() if x != k}}).visit(_copy(v))
        mapping.update(loc)

    def subst(e: ast.AST) -> ast.AST:
        return _Subst(mapping, params).visit(_copy(e))

    en = Enumerator(**kw)
    rows: T.List[Row] = []
    for p in en.run(stmts):
        conds: T.Dict[Atom, bool] = {}
        feasible = True
        for ev in p.events:
            if ev.kind != 'cond':
                continue
            a, v = canon(subst(ev.node), ev.val)
            if a in conds and conds[a] != v:
                feasible = False
                break
            conds[a] = v
        if not feasible:
            continue
        effs: T.List[str] = []
        if effects is not None:
            for ev in p.events:
                if ev.kind in ('stmt', 'iter', 'with') and ev.node is not None:
                    s = effects(subst(ev.node) if ev.kind == 'stmt' else ev.node)
                    if s:
                        effs.append(s)
        oc = (outcome or default_outcome)(p, subst)
        rows.append(Row(conds, oc, tuple(effs), p))
    return Table(rows, name or getattr(fn, 'name', ''))


def _copy(e: ast.AST) -> ast.AST:
    import copy
    return copy.deepcopy(e)


def check_table(table: Table, view: T.Callable[[T.Dict[Atom, bool]], T.Any],
                reference: T.Callable[[T.Any], T.Any], got: T.Callable[[Row], T.Any],
                known_atom: T.Callable[[Atom], bool]) -> T.Tuple[int, T.List[str], T.List[str]]:
    """Compare table and reference on every world.

    view(world) -> semantic view or None (world outside the reference's domain: skipped)
    reference(view) -> expected outcome (None = reference does not care)
    got(row) -> comparable outcome of a row
    Returns (worlds compared, mismatches, undecided) as texts.
    """
    unknown = [a for a in table.atoms() if not known_atom(a)]
    n = 0
    mism: T.List[str] = []
    undec: T.List[str] = []
    seen: T.Set[str] = set()
    for w in table.worlds():
        v = view(w)
        if v is None:
            continue
        want = reference(v)
        if want is None:
            continue
        rows = table.fire(w)
        n += 1
        if not rows:
            msg = f'no row fires for {_fmt_world(w)}'
            if msg not in seen:
                seen.add(msg)
                undec.append(msg)
            continue
        outs = {repr(got(r)) for r in rows}
        if outs != {repr(want)}:
            uses_unknown = any(a in r.conds for r in rows for a in unknown)
            msg = f'for {_fmt_world({a: x for a, x in w.items() if any(a in r.conds for r in rows)})}: code gives {sorted(outs)}, reference {want!r}'
            if msg in seen:
                continue
            seen.add(msg)
            (undec if uses_unknown else mism).append(msg)
    return n, mism, undec


def _fmt_world(w: T.Dict[Atom, bool]) -> str:
    return ' & '.join(('' if v else 'not ') + repr(a) for a, v in w.items()) or 'always'
