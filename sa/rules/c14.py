"""C14 — template substitution (DESIGN §2 C14, data sheet A.15)."""
from __future__ import annotations

import ast
import re
import typing as T

from ..core import Module, Undecided, AnalysisError, norm, short, attr_chain, names_in, kwarg
from ..report import Rule, RuleCtx
from ..paths import enumerate_paths
from ..flow import Flow
from ..tables import Atom, Table, canon as tables_canon
from ..consteval import fold_expr, Regex
from .. import rx
from . import c14_taint as taint
from . import c14_rxlang as rxl
from . import c14_shape as shape
from .c14_linedep import LineDep

U = 'mesonbuild/utils/universal.py'

EXPLANATION = (
    'Decides structural clauses of C14: R1 on every path of the meson-format pipeline (do_conf_file/do_conf_str/do_replacement and '
    'everything they call) no value read from a ConfigurationData object reaches the text argument of a placeholder scan '
    '(re.sub-family call, or a module function whose parameter reaches one) - path-sensitive must-not-flow with callee summaries; '
    'R2 the meson placeholder regex (constant-folded) has exactly the three alternatives [even backslash run before @ | @name@ not '
    'after a backslash | \\@name\\@], each with the reference language (NFA equality), none can match blank or newline, and the '
    'decision table of the callback, by world enumeration over its atoms, returns [backslash * (len(match)//2) | the escaped group '
    'without its two backslashes | the value / empty text], recording the name as missing on the not-in-confdata rows only; '
    'R3 the decision tables of @VAR@, ${VAR}, #mesondefine, #cmakedefine[01] and of the generated header: for every world of the '
    'atoms (isinstance worlds with bool below int, truth of the value, presence of the name, token count) the symbolic form of the '
    'outcome (constant format string + operand roles NAME/VALUE + conversion chain) equals the documented form; R4 in the per-line '
    'loops every line is appended exactly once, unchanged or through exactly one transformer, template files are opened with '
    'newline="", the meson replacement returns the single scan of its parameter, and the text returned by a define transformer '
    'depends (data/control flow) on the terminator and on the indentation of its input line; R5 the generated header iterates '
    'sorted(keys) and emits once per key on every non-raising path; R6 every call between functions of the pipeline hands on the context parameters the '
    'caller holds (format switch at_only, data object, subproject, pattern): none omitted in favour of a default, replaced by a constant or '
    'cross-wired, and the dispatchers derive at_only as format == cmake@; R7 the tests that send a line to a define transformer cannot '
    'depend on the leading blanks of the line (dependence flow as in R4c; both sibling loops agree), a test inside a define transformer is not anchored across the gap after `#` that '
    'the dispatch test skips, and the transformer takes no fixed offset into the still indented line; R8 in the @ arm of the cmake scanner the path '
    'conditions imply that the name slice is not empty (difference bounds over `name +/- constant`); R9 a token of a directive line is indexed only '
    'under a length guard or IndexError handler; R10 after a placeholder is replaced the cmake scanner resumes behind the inserted value (symbolic '
    'effect of the loop-body row) and a row that replaces nothing never moves the scan position behind an `@` it only located; R4b also: the text opens of '
    'do_conf_file (single-purpose I/O helpers inlined) agree on the encoding. A dispatch test written as a regex call is decided from the language of its constant pattern (match / anchored search with a leading blank-star: tolerant; unanchored search: accepts a directive in the middle of a line). Module-level constants the tables read by name are folded: literals, tuples, constructor calls of plain record classes (NamedTuple / dataclass: unpacking and .field reads are projections) and leaf single-expression helpers (a text or an exception built by a tiny helper is read as the expression it abbreviates). R3 also: the nasm description comment enters the header only through one join over desc.splitlines() with every line prefixed `; `; R4b also: the template is cut into lines by the file object (readlines / list / iteration), not by str.splitlines(keepends=True), which cuts at more characters than the line terminators; R10 also: the resume position is <pos> + len(value), not beyond. NOT decided: the header forms when prefix / comment / epilogue come from a record *computed* by a multi-path helper (a function that returns a NamedTuple of per-format syntax); the cmake resume position when it is not linear in <pos> and len(<inserted value>); a description that contains the comment closer `*/` (c) ; tokens of a #cmakedefine value that are set names being replaced by str(value) (legacy behaviour, kept '
    'as is by R3); `#cmakedefineX` / `#mesondefineX` accepted by the prefix test of the dispatchers; backslash escapes in the cmake formats; the cmake scanner (index arithmetic over run-time '
    'strings); how many backslashes of a run the regex engine consumes for a concrete text (leftmost/greedy matching); whether a '
    'result that depends on the terminator/indentation reproduces it exactly (only independence is refuted); indentation of '
    '#cmakedefine lines (the code slices line[1:], which observes the indentation); output bytes for '
    'arbitrary templates; whether func_configure_file prints the undefined-names warning whenever the returned set is not empty (seed r7-2: the warning made an '
    '`elif` of the empty-configuration hint while the `confdata_useless` flag is no longer cleared - the interplay of the flag and the two warnings across '
    'universal.py / interpreter.py is not read by any rule); the name class of the cmake scanner (`character_regex`: seed r7-3 dropped `/ . +` from it - the property '
    'gives no reference language for cmake names, so no rule compares it); #cmakedefine tables when do_define_cmake hands the look-up of the name to per-directive '
    'callees (`return helper01(name, ..)` / `return helper(name, tokens, ..)`: R3 ends undecided). R1 also reads re.finditer / re.findall / re.split and '
    '<pattern>.finditer / findall as placeholder scans, follows values a generator yields and the variables a closure captures; `re.sub` written out as one pass over '
    'finditer (gap, callback(match), move; rest; joined with the empty string) is read as the re.sub it defines.')
ASSUMPTIONS = [
    're.sub copies the text outside matches and inserts what the callback returns without scanning it again',
    'ConfigurationData.get raises KeyError for an unset name and returns (value, description) otherwise (build.py, checked in R3)',
    'text files opened with newline="" are read and written without newline translation (Python io)',
    'str.split()/strip() without arguments ignore leading and trailing blanks and line terminators (used by the dependence analysis of R4c)',
]
TECHNIQUE = ('path-sensitive taint with callee summaries; regex-language equality (NFA) on the constant-folded placeholder regex; decision tables '
             'by path enumeration with reaching-definition substitution, world enumeration over canonical atoms, symbolic outcome forms '
             '(format string + operand roles); dependence (non-interference) flow for line terminator / indentation')

NAME_CLASS = '[-a-zA-Z0-9_]'


def _mod(ctx: RuleCtx) -> Module:
    """The anchored module, with type aliases in parameter / return annotations expanded (`confdata: _ConfDataLike` where
    `_ConfDataLike = T.Union[..., 'ConfigurationData']` at module level or under `if T.TYPE_CHECKING:`): the rules find parameters by
    the role their annotation gives them, however the annotation is spelled."""
    import copy
    mod = ctx.repo.module(U)
    if getattr(mod, '_c14_aliases_expanded', False):
        return mod
    for _ in range(3):
        for f in mod.funcs().values():
            slots = [(a, 'annotation') for a in f.args.posonlyargs + f.args.args + f.args.kwonlyargs] + [(f, 'returns')]
            for obj, field in slots:
                ann = getattr(obj, field)
                if isinstance(ann, ast.Constant) and isinstance(ann.value, str) and ann.value.isidentifier() and mod.has_assign(ann.value):
                    ann = ast.Name(id=ann.value, ctx=ast.Load())
                if isinstance(ann, ast.Name) and mod.has_assign(ann.id):
                    val = mod.assign_value(ann.id)
                    if isinstance(val, (ast.Subscript, ast.Attribute, ast.Name, ast.Constant)):
                        setattr(obj, field, copy.deepcopy(val))
    _declass(mod)
    _manual_sub_normal_form(mod)
    mod._c14_aliases_expanded = True  # type: ignore[attr-defined]
    return mod


def _manual_sub_normal_form(mod: Module) -> None:
    """`re.sub` written out: one left-to-right pass over `finditer(RX, TEXT)` that emits TEXT[POS:m.start()], CB(m) and moves POS to m.end(),
    then emits TEXT[POS:], the pieces joined with '' - is by definition `re.sub(RX, CB, TEXT)`.  Recognised with the pieces emitted by `yield`
    (a parameterless generator closure G, used as `''.join(G())`) or appended to a fresh list L (used as `''.join(L)`); the loop must be exactly
    the definition (any other statement, slice bound, order or separator: left as written, the readers then say Undecided)."""
    def emitted(st: ast.stmt, acc: T.Optional[str]) -> T.Optional[ast.AST]:
        if not isinstance(st, ast.Expr):
            return None
        v = st.value
        if acc is None:
            return v.value if isinstance(v, ast.Yield) else None
        if isinstance(v, ast.Call) and norm(v.func) == acc + '.append' and len(v.args) == 1 and not v.keywords:
            return v.args[0]
        return None

    def edge(e: ast.AST, m: str, which: str) -> bool:
        return (isinstance(e, ast.Call) and norm(e.func) == f'{m}.{which}' and not e.keywords and
                (not e.args or (len(e.args) == 1 and isinstance(e.args[0], ast.Constant) and e.args[0].value == 0)))

    def read(stmts: T.List[ast.stmt], acc: T.Optional[str]) -> T.Optional[ast.Call]:
        """stmts == [POS = 0, for M in finditer(RX, TEXT): emit TEXT[POS:M.start()]; emit CB(M); POS = M.end(), emit TEXT[POS:]] -> re.sub(RX, CB, TEXT)"""
        if len(stmts) != 3:
            return None
        a, loop, tail = stmts
        if not (isinstance(a, ast.Assign) and len(a.targets) == 1 and isinstance(a.targets[0], ast.Name) and isinstance(a.value, ast.Constant) and a.value.value == 0 and a.value.value is not False):
            return None
        pos = a.targets[0].id
        if not (isinstance(loop, ast.For) and not loop.orelse and isinstance(loop.target, ast.Name) and isinstance(loop.iter, ast.Call) and len(loop.body) == 3):
            return None
        m = loop.target.id
        it = loop.iter
        if it.keywords or any(isinstance(x, ast.Starred) for x in it.args):
            return None
        if attr_chain(it.func) == 're.finditer' and len(it.args) == 2:
            rx_e, text = it.args
        elif isinstance(it.func, ast.Attribute) and it.func.attr == 'finditer' and len(it.args) == 1 and not (attr_chain(it.func) or '').startswith('re.'):
            rx_e, text = it.func.value, it.args[0]
        else:
            return None
        if not isinstance(text, ast.Name) or not isinstance(rx_e, (ast.Name, ast.Attribute)):
            return None
        t = text.id
        gap, rep, move = loop.body
        g, r = emitted(gap, acc), emitted(rep, acc)
        if not (isinstance(g, ast.Subscript) and isinstance(g.value, ast.Name) and g.value.id == t and isinstance(g.slice, ast.Slice) and g.slice.step is None and
                isinstance(g.slice.lower, ast.Name) and g.slice.lower.id == pos and g.slice.upper is not None and edge(g.slice.upper, m, 'start')):
            return None
        if not (isinstance(r, ast.Call) and isinstance(r.func, ast.Name) and len(r.args) == 1 and not r.keywords and isinstance(r.args[0], ast.Name) and r.args[0].id == m):
            return None
        if not (isinstance(move, ast.Assign) and len(move.targets) == 1 and isinstance(move.targets[0], ast.Name) and move.targets[0].id == pos and edge(move.value, m, 'end')):
            return None
        rest = emitted(tail, acc)
        if not (isinstance(rest, ast.Subscript) and isinstance(rest.value, ast.Name) and rest.value.id == t and isinstance(rest.slice, ast.Slice) and rest.slice.step is None and
                isinstance(rest.slice.lower, ast.Name) and rest.slice.lower.id == pos and rest.slice.upper is None):
            return None
        if len({pos, m, t, r.func.id} | ({acc} if acc else set())) != (5 if acc else 4) or norm(rx_e) in (pos, m, acc):
            return None
        call = ast.Call(func=ast.Attribute(value=ast.Name(id='re', ctx=ast.Load()), attr='sub', ctx=ast.Load()),
                        args=[rx_e, ast.Name(id=r.func.id, ctx=ast.Load()), ast.Name(id=t, ctx=ast.Load())], keywords=[])
        return ast.fix_missing_locations(ast.copy_location(call, loop))

    def strip_doc(body: T.List[ast.stmt]) -> T.List[ast.stmt]:
        return [b for b in body if not (isinstance(b, ast.Expr) and isinstance(b.value, ast.Constant) and isinstance(b.value.value, str))]

    def is_join(c: ast.AST) -> bool:
        return (isinstance(c, ast.Call) and isinstance(c.func, ast.Attribute) and c.func.attr == 'join' and isinstance(c.func.value, ast.Constant) and
                c.func.value.value == '' and len(c.args) == 1 and not c.keywords)

    for q, fn in list(mod.funcs().items()):
        # generator closure
        for g in [b for b in fn.body if isinstance(b, ast.FunctionDef)]:
            a = g.args
            if a.args or a.posonlyargs or a.kwonlyargs or a.vararg or a.kwarg or g.decorator_list:
                continue
            sub = read(strip_doc(g.body), None)
            if sub is None:
                continue
            uses = [n for n in ast.walk(fn) if isinstance(n, ast.Name) and n.id == g.name and not any(n is x for x in ast.walk(g))]
            joins = [c for c in ast.walk(fn) if is_join(c) and isinstance(c.args[0], ast.Call) and isinstance(c.args[0].func, ast.Name) and
                     c.args[0].func.id == g.name and not c.args[0].args and not c.args[0].keywords]
            # the names the closure reads must hold at the call what they hold at the definition: straight-line function body, no rebinding
            stored = {n.id for n in ast.walk(fn) if isinstance(n, ast.Name) and isinstance(n.ctx, ast.Store) and not any(n is x for x in ast.walk(g))}
            if not joins or len(uses) != len(joins) or {norm(x) for x in sub.args} & stored:
                continue

            class J(ast.NodeTransformer):
                def visit_Call(self, n: ast.Call) -> ast.AST:
                    self.generic_visit(n)
                    return ast.copy_location(sub, n) if any(n is j for j in joins) else n
            fn.body = [b for b in fn.body if b is not g]
            J().visit(fn)
            for k in [k for k in mod.funcs() if k == f'{q}.{g.name}' or k.startswith(f'{q}.{g.name}.')]:
                del mod.funcs()[k]
        # list accumulator, in one block of the function
        for blk in [n for n in ast.walk(fn) if isinstance(getattr(n, 'body', None), list)]:
            body = blk.body
            for i, st in enumerate(body):
                if not (isinstance(st, (ast.Assign, ast.AnnAssign)) and isinstance(st.value, ast.List) and not st.value.elts):
                    continue
                tg = st.targets[0] if isinstance(st, ast.Assign) and len(st.targets) == 1 else getattr(st, 'target', None)
                if not isinstance(tg, ast.Name) or len(body) < i + 5:
                    continue
                acc = tg.id
                sub = read(body[i + 1:i + 4], acc)
                if sub is None:
                    continue
                others = [n for n in ast.walk(fn) if isinstance(n, ast.Name) and n.id == acc and not any(n is x for b in body[i:i + 4] for x in ast.walk(b))]
                joins = [c for b in body[i + 4:] for c in ast.walk(b) if is_join(c) and isinstance(c.args[0], ast.Name) and c.args[0].id == acc]
                if len(joins) != 1 or len(others) != 1:
                    continue
                j = joins[0]

                class K(ast.NodeTransformer):
                    def visit_Call(self, n: ast.Call) -> ast.AST:
                        self.generic_visit(n)
                        return ast.copy_location(sub, n) if n is j else n
                # the join must follow in the same block with nothing in between that could rebind what the loop read
                nxt = body[i + 4]
                if not any(c is j for c in ast.walk(nxt)):
                    continue
                blk.body = body[:i] + body[i + 4:]
                K().visit(nxt)
                break


def _declass(mod: Module) -> None:
    """Class-as-closure normal form: a class whose `__init__` only stores its parameters / fresh values into attributes is a closure record.
    Its methods are read as nested functions: `self` dropped, `self.x` -> `x`, `self.m(..)` -> `m(..)`; the captured names and their annotations
    are those of `__init__` (recorded in `mod._c14_captured[class name]`)."""
    import copy
    captured: T.Dict[str, T.List[ast.arg]] = {}
    for cq, cls in list(mod.classes().items()):
        if '.' in cq:
            continue
        init = next((b for b in cls.body if isinstance(b, ast.FunctionDef) and b.name == '__init__'), None)
        if init is None or not init.args.args or init.args.args[0].arg != 'self':
            continue
        attrs: T.Set[str] = set()
        ok = True
        for st in init.body:
            if isinstance(st, ast.Expr) and isinstance(st.value, ast.Constant):
                continue
            tg = st.targets[0] if isinstance(st, ast.Assign) and len(st.targets) == 1 else (st.target if isinstance(st, ast.AnnAssign) else None)
            if not (isinstance(tg, ast.Attribute) and isinstance(tg.value, ast.Name) and tg.value.id == 'self'):
                ok = False
                break
            attrs.add(tg.attr)
        if not ok:
            continue
        attrs |= {t.id for b in cls.body if isinstance(b, (ast.Assign, ast.AnnAssign)) for t in ([b.target] if isinstance(b, ast.AnnAssign) else b.targets) if isinstance(t, ast.Name)}
        meths = {b.name for b in cls.body if isinstance(b, ast.FunctionDef)}

        class R(ast.NodeTransformer):
            def visit_Attribute(self, n: ast.Attribute) -> ast.AST:
                self.generic_visit(n)
                if isinstance(n.value, ast.Name) and n.value.id == 'self' and (n.attr in attrs or n.attr in meths):
                    return ast.copy_location(ast.Name(id=n.attr, ctx=n.ctx), n)
                return n
        for b in cls.body:
            if isinstance(b, ast.FunctionDef) and b.args.args and b.args.args[0].arg == 'self' and not b.decorator_list:
                R().visit(b)
                if not any(isinstance(n, ast.Name) and n.id == 'self' for x in b.body for n in ast.walk(x)):
                    b.args.args = b.args.args[1:]
        captured[cq] = [copy.deepcopy(a) for a in init.args.args[1:]]
    mod._c14_captured = captured  # type: ignore[attr-defined]
PIPELINE_ROOTS = ['do_conf_file', 'do_conf_str', 'do_replacement']


# ---------------------------------------------------------------------------------------------
# R1  no rescanning in the meson format
# ---------------------------------------------------------------------------------------------
_R1_EXAMPLE = '''
import re
def scan(rx, text, conf: 'ConfigurationData'):
    def cb(m):
        v, _ = conf.get(m.group(1))
        return v
    return re.sub(rx, cb, text)
def twice(rx, text, conf: 'ConfigurationData'):
    once = scan(rx, text, conf)
    return scan(rx, once, conf)
def define(rx, line, conf: 'ConfigurationData'):
    name = line.split()[1]
    v, _ = conf.get(name)
    if isinstance(v, str):
        out = '#define %s %s' % (name, v)
        return scan(rx, out, conf)
    return '#define %s' % name
'''


def _r1_findings(mod: Module, roots: T.List[str]) -> T.Tuple[taint.Analysis, T.List[taint.Sink]]:
    an = taint.Analysis(mod)
    for r in roots:
        an.summary(r)
    # closures handed around as values (callbacks, per-line workers passed to a shared driver) are not reached by a call through
    # their name: summarise every function nested in a summarised one as well
    grew = True
    while grew:
        grew = False
        for q in list(mod.funcs()):
            if q not in an.summaries and '.' in q and q.rsplit('.', 1)[0] in an.summaries and '#' not in q:
                an.summary(q)
                grew = True
    sinks: T.List[taint.Sink] = []
    for q, s in an.summaries.items():
        sinks.extend(s.sinks)
    return an, sinks


def r1(ctx: RuleCtx) -> None:
    # built-in positive example: the analysis must see both kinds of rescanning
    ex = Module(ctx.repo, '<c14-builtin-example>', _R1_EXAMPLE)
    _, ex_sinks = _r1_findings(ex, ['twice', 'define'])
    hit = sorted({s.func for s in ex_sinks if 'V' in s.tags})
    if hit != ['define', 'twice']:
        raise AnalysisError(f'C14.R1 self-check: the built-in rescanning example is not recognised (flagged: {hit})')

    mod = _mod(ctx)
    for r in PIPELINE_ROOTS:
        mod.func(r)
    an, sinks = _r1_findings(mod, PIPELINE_ROOTS)
    scans = [s for s in sinks if s.what.startswith('text of ')]
    ctx.floor('placeholder scan sites (re.sub family) in the pipeline', len(scans), 1)
    ctx.floor('call sites handing a text to a scan', len(sinks), 2)
    undecided: T.List[str] = []
    for s in sinks:
        where = f'{s.func}: {short(s.call)} [{s.what}]'
        if 'V' in s.tags:
            # the construct names the callee / scan method, not the caller's locals: a known finding must survive a rename of the arguments
            callee = s.call.func
            if s.what.startswith('text of '):
                sink_role = 're.' + callee.attr if attr_chain(callee) and str(attr_chain(callee)).startswith('re.') else '<pattern>.' + getattr(callee, 'attr', '?')
            else:
                sink_role = norm(callee).split('.')[-1]
            ctx.violation(mod, s.func, f'configuration value reaches the text scanned by {sink_role}',
                          f'a value read from the configuration data reaches {s.what}, i.e. the text scanned by {s.root}: '
                          f'the substituted value is scanned for placeholders again (path: {s.path})', s.call)
        elif any(t.startswith('U:') for t in s.tags):
            undecided.append(f'{where}: text may come from unknown callee(s) {sorted(t[2:] for t in s.tags if t.startswith("U:"))} that received the configuration data')
        else:
            ctx.ok(f'{where}: text carries {sorted(s.tags) or "only constants"}, no configuration value on any path')
    n_paths = sum(s.paths for s in an.summaries.values())
    ctx.note(f'{len(an.summaries)} functions summarised, {n_paths} paths; functions analysed path-sensitively: '
             f'{sorted(q for q, s in an.summaries.items() if s.paths)}')
    if undecided:
        raise Undecided('; '.join(undecided))


# ---------------------------------------------------------------------------------------------
# shared: the placeholder regex, constant-folded out of get_variable_regex
# ---------------------------------------------------------------------------------------------
def _variable_regex(ctx: RuleCtx, mod: Module, fmt: str) -> Regex:
    fn = mod.func('get_variable_regex')
    params = [a.arg for a in fn.args.args]
    if len(params) != 1:
        raise Undecided('get_variable_regex: expected one parameter (the format)')
    tab = _table(mod, fn, handlers=False, name='get_variable_regex')
    want = Atom('cmp', ('eq', params[0], repr(fmt)))
    rows = [r for r in tab.rows if r.conds.get(want) is True]
    if len(rows) != 1 or rows[0].outcome[0] != 'return':
        raise Undecided(f'get_variable_regex: {len(rows)} rows for the format {fmt!r}')
    val = T.cast(shape.XRow, rows[0]).value
    if val is None:
        raise Undecided('get_variable_regex: nothing returned')
    r = fold_expr(ctx.repo, mod, val)
    if not isinstance(r, Regex):
        raise Undecided(f'get_variable_regex({fmt!r}) does not fold to a compiled pattern: {r!r}')
    return r


def _alternatives(pat: Regex) -> T.Tuple[T.Any, T.List[T.List[T.Any]]]:
    flags = pat.flags & ~re.UNICODE
    return rx.parse(pat.pattern, flags), rx.branch_alternatives(pat.pattern, flags)


def _classify(tree: T.Any, alts: T.List[T.List[T.Any]]) -> T.Dict[str, T.Tuple[T.List[T.Any], T.List[T.Any], T.List[T.Any]]]:
    gd = dict(tree.state.groupdict)
    out: T.Dict[str, T.Tuple[T.List[T.Any], T.List[T.Any], T.List[T.Any]]] = {}
    for items in alts:
        lead, body, trail = rxl.split_lookaround(items)
        kinds = [name for name, gid in gd.items() if rxl.find_group(body, gid) is not None]
        kind = kinds[0] if len(kinds) == 1 else ('run' if not kinds else '+'.join(sorted(kinds)))
        if kind in out:
            raise Undecided(f'two alternatives of the meson regex are of kind {kind}')
        out[kind] = (lead, body, trail)
    return out


def _assert_lang(item: T.Any) -> T.Tuple[str, int, T.List[T.Any]]:
    op, (direction, sub) = item
    return ('not' if op is rx.sre_c.ASSERT_NOT else 'yes', direction, list(sub))

def _single_def(fn: ast.FunctionDef, e: ast.AST) -> ast.AST:
    """Resolve a local name with exactly one definition in fn (not in nested defs) to its defining expression."""
    seen = 0
    while isinstance(e, ast.Name) and seen < 4:
        seen += 1
        params = {a.arg for a in fn.args.args}
        defs = Flow(fn, nested=False).defs.get(e.id, [])
        if e.id in params or len(defs) != 1:
            break
        e = defs[0]
    return e


def _scan_args(c: ast.Call) -> T.Optional[T.Dict[str, ast.AST]]:
    """Arguments of a re.sub-family call bound by signature: repl, string, count, flags (pattern for the module-level form)."""
    if attr_chain(c.func) in taint.SCAN_FUNCS:
        sig = ['pattern', 'repl', 'string', 'count', 'flags']
    else:
        sig = ['repl', 'string', 'count']
    out: T.Dict[str, ast.AST] = {}
    for i, a in enumerate(c.args):
        if isinstance(a, ast.Starred) or i >= len(sig):
            return None
        out[sig[i]] = a
    for k in c.keywords:
        if k.arg is None or k.arg not in sig:
            return None
        out[k.arg] = k.value
    return out


def _scan_call(mod: Module, qn: str) -> T.Tuple[ast.Call, str, ast.AST]:
    """The single re.sub-family call of qn: (call, callback name, text expression)."""
    fn = mod.func(qn)
    calls = [c for c in ast.walk(fn) if isinstance(c, ast.Call) and (attr_chain(c.func) in taint.SCAN_FUNCS or
             (isinstance(c.func, ast.Attribute) and c.func.attr in taint.SCAN_METHODS and not (attr_chain(c.func) or '').startswith('re.')))]
    if len(calls) != 1:
        raise Undecided(f'{qn}: expected exactly one re.sub-family call, found {len(calls)}')
    c = calls[0]
    b = _scan_args(c)
    if b is None or 'repl' not in b or 'string' not in b or not isinstance(b['repl'], ast.Name):
        raise Undecided(f'{qn}: scan call with unrecognised arguments: {short(c)}')
    return c, b['repl'].id, b['string']


# ---------------------------------------------------------------------------------------------
# decision tables with symbolic text outcomes (R2 callback, R3)
# ---------------------------------------------------------------------------------------------
def _record_fields(mod: Module, cls_name: str) -> T.Optional[T.List[T.Tuple[str, T.Optional[ast.AST]]]]:
    """Fields (name, default) of a plain record class, in declaration order: a `typing.NamedTuple` subclass or a `@dataclass` whose body only
    declares annotated fields (docstring allowed).  None for anything else."""
    if not mod.has_cls(cls_name) or '.' in cls_name:
        return None
    cls = mod.cls(cls_name)
    named = any(norm(b).split('.')[-1] == 'NamedTuple' for b in cls.bases)
    data = any(norm(d.func if isinstance(d, ast.Call) else d).split('.')[-1] == 'dataclass' for d in cls.decorator_list)
    if not (named or data) or (cls.bases and not named) or cls.keywords:
        return None
    fields: T.List[T.Tuple[str, T.Optional[ast.AST]]] = []
    for b in cls.body:
        if isinstance(b, ast.Expr) and isinstance(b.value, ast.Constant):
            continue
        if isinstance(b, ast.AnnAssign) and isinstance(b.target, ast.Name):
            fields.append((b.target.id, b.value))
        else:
            return None
    return fields or None


def _module_value(mod: Module, v: ast.AST, depth: int = 0) -> T.Optional[ast.AST]:
    """Constant-folded module-level value (policy form a): literals, lambdas that close over nothing but their parameters, tuples of those, and
    constructor calls of plain record classes (NamedTuple / dataclass), which become a tuple of the field values in declaration order that
    remembers the field names (`_c14_fields`), so that both unpacking and `.field` reads are projections of a display."""
    import copy
    if isinstance(v, ast.Constant) and isinstance(v.value, (str, int)):
        return v
    if depth > 3:
        return None
    if isinstance(v, ast.Name) and mod.has_assign(v.id):
        return _module_value(mod, mod.assign_value(v.id), depth + 1)
    if isinstance(v, ast.Lambda):
        own = {a.arg for a in v.args.posonlyargs + v.args.args + v.args.kwonlyargs}
        free = {n.id for n in ast.walk(v.body) if isinstance(n, ast.Name) and n.id not in own}
        import builtins
        if all(hasattr(builtins, x) for x in free):
            return copy.deepcopy(v)
        return None
    if isinstance(v, ast.Tuple) and v.elts and not any(isinstance(x, ast.Starred) for x in v.elts):
        elts = [_module_value(mod, x, depth + 1) for x in v.elts]
        if all(x is not None for x in elts):
            return ast.Tuple(elts=T.cast(T.List[ast.expr], elts), ctx=ast.Load())
        return None
    if isinstance(v, ast.Call) and isinstance(v.func, ast.Name):
        fields = _record_fields(mod, v.func.id)
        if fields is None or any(isinstance(a, ast.Starred) for a in v.args) or any(k.arg is None for k in v.keywords) or len(v.args) > len(fields):
            return None
        given: T.Dict[str, ast.AST] = {nm: a for (nm, _), a in zip(fields, v.args)}
        for k in v.keywords:
            if k.arg in given or k.arg not in {nm for nm, _ in fields}:
                return None
            given[T.cast(str, k.arg)] = k.value
        elts2: T.List[ast.expr] = []
        for nm, dflt in fields:
            src = given.get(nm, dflt)
            val = _module_value(mod, src, depth + 1) if src is not None else None
            if val is None:
                return None
            elts2.append(T.cast(ast.expr, val))
        rec = ast.Tuple(elts=elts2, ctx=ast.Load())
        rec._c14_fields = [nm for nm, _ in fields]  # type: ignore[attr-defined]
        return rec
    return None


def _module_consts(mod: Module, fn: ast.AST, depth: int = 0) -> T.Dict[str, ast.AST]:
    """What the function reads by name from module level, folded into its tables (policy form a): constants (string / number literals, constant
    records and tuples, see _module_value), and *single-expression helpers* - a module-level `def h(x): [a = E1;] return E2` (or `h = lambda x: E2`)
    is the lambda it abbreviates, so a call `h(arg)` inside a table is read as E2[x := arg] (extract-function / inline-function normal form:
    a message or a line built by a tiny shared helper, an exception made by a factory and raised by the caller)."""
    memo: T.Dict[T.Tuple[int, int], T.Tuple[ast.AST, T.Dict[str, ast.AST]]] = mod.__dict__.setdefault('_c14_module_consts', {})
    hit = memo.get((id(fn), depth))
    if hit is not None and hit[0] is fn:
        return dict(hit[1])
    local = {n.id for n in ast.walk(fn) if isinstance(n, ast.Name) and isinstance(n.ctx, ast.Store)} | \
        {a.arg for f_ in ast.walk(fn) if isinstance(f_, (ast.FunctionDef, ast.Lambda)) for a in f_.args.posonlyargs + f_.args.args + f_.args.kwonlyargs} | \
        {f_.name for f_ in ast.walk(fn) if isinstance(f_, ast.FunctionDef) and f_ is not fn}
    out: T.Dict[str, ast.AST] = {}
    memo[(id(fn), depth)] = (fn, out)
    for n in ast.walk(fn):
        if not (isinstance(n, ast.Name) and isinstance(n.ctx, ast.Load) and n.id not in local and n.id not in out):
            continue
        if mod.has_assign(n.id):
            v = _module_value(mod, mod.assign_value(n.id))
            if v is not None:
                out[n.id] = v
        elif mod.has_func(n.id) and depth < 2 and n.id != getattr(fn, 'name', None):
            h = mod.func(n.id)
            a = h.args
            # only *leaf* helpers: one that refers to another function / class of the module is a stage of the pipeline the rules know by name
            # (a scan, a transformer, the scanner object), not an abbreviation of a text
            leaf = not any(isinstance(x, ast.Name) and x.id != h.name and (mod.has_func(x.id) or mod.has_cls(x.id)) for b_ in h.body for x in ast.walk(b_)) and \
                not any(x.annotation is not None and 'ConfigurationData' in norm(x.annotation) for x in a.posonlyargs + a.args)
            if leaf and isinstance(h, ast.FunctionDef) and not (a.vararg or a.kwarg or a.kwonlyargs) and not any(isinstance(x, (ast.Yield, ast.YieldFrom, ast.Await)) for x in ast.walk(h)):
                lam = shape.as_lambda(h, _module_consts(mod, h, depth + 1))
                if lam is not None:
                    out[n.id] = lam
    return out


def _unroll_table_loops(mod: Module, stmts: T.List[ast.stmt]) -> T.Optional[T.List[ast.stmt]]:
    """Constant-table dispatch normal form (policy form c): `for a, b in TABLE: if test(a): S(b); break` [+ else: E] over a constant tuple / list of
    records (a display, or a module-level constant) is the chain `if test(a1): S(b1) elif test(a2): S(b2) ... else: E`.  None when nothing matched."""
    import copy
    hit = [False]

    def table_of(e: ast.AST) -> T.Optional[T.List[ast.AST]]:
        if isinstance(e, ast.Name) and mod.has_assign(e.id):
            e = mod.assign_value(e.id)
        if isinstance(e, (ast.Tuple, ast.List)) and 0 < len(e.elts) <= 8 and not any(isinstance(x, ast.Starred) for x in e.elts):
            return list(e.elts)
        return None

    class U(ast.NodeTransformer):
        def visit_For(self, n: ast.For) -> ast.AST:
            self.generic_visit(n)
            rows = table_of(n.iter)
            if rows is None or len(n.body) != 1 or not isinstance(n.body[0], ast.If) or n.body[0].orelse or not n.body[0].body \
                    or not isinstance(n.body[0].body[-1], ast.Break) or any(isinstance(x, (ast.Break, ast.Continue)) for st in n.body[0].body[:-1] for x in ast.walk(st)):
                return n
            names = [n.target] if isinstance(n.target, ast.Name) else (list(n.target.elts) if isinstance(n.target, (ast.Tuple, ast.List)) else [])
            if not names or not all(isinstance(x, ast.Name) for x in names):
                return n
            chain: T.List[ast.stmt] = list(n.orelse)
            for rec in reversed(rows):
                vals = [rec] if isinstance(n.target, ast.Name) else (list(rec.elts) if isinstance(rec, (ast.Tuple, ast.List)) and len(rec.elts) == len(names) else None)
                if vals is None:
                    return n
                env = {t_.id: v_ for t_, v_ in zip(names, vals)}  # type: ignore[attr-defined]
                sub = shape._Sub(env)
                test = sub.visit(copy.deepcopy(n.body[0].test))
                body = [sub.visit(copy.deepcopy(st)) for st in n.body[0].body[:-1]] or [ast.Pass()]
                chain = [ast.copy_location(ast.If(test=test, body=body, orelse=chain), n)]
            hit[0] = True
            return ast.fix_missing_locations(chain[0])
    out = [U().visit(copy.deepcopy(st)) for st in stmts]
    return out if hit[0] else None


def _table(mod: Module, fn: ast.AST, body: T.Optional[T.List[ast.stmt]] = None, *, base: T.Optional[T.Dict[str, ast.AST]] = None, **kw: T.Any) -> Table:
    b = dict(_module_consts(mod, fn))
    b.update(base or {})
    stmts = body if body is not None else fn.body  # type: ignore[attr-defined]
    unrolled = _unroll_table_loops(mod, stmts)
    return shape.table(fn, unrolled if unrolled is not None else body, base=b, **kw)


def _expand_pure_helpers(mod: Module, tab: Table, depth: int = 0) -> Table:
    """Pure-helper normal form: a row whose statement-call has, as an argument, a call of a module-level function that only computes
    (every path returns or raises, no statement-calls of its own) is replaced by one row per path of that function - conditions joined,
    the call replaced by the returned expression; a raising path of the helper ends the row with that exception."""
    import copy
    rows: T.List[T.Any] = []
    changed = False
    for r in T.cast(T.List[shape.XRow], tab.rows):
        site = None
        for ci, c in enumerate(r.calls):
            for a in list(c.args) + [k.value for k in c.keywords]:
                if isinstance(a, ast.Call) and isinstance(a.func, ast.Name) and mod.has_func(a.func.id) and '.' not in a.func.id:
                    site = (ci, a)
                    break
            if site:
                break
        if site is None or depth > 3:
            rows.append(r)
            continue
        ci, call = site
        g = mod.func(call.func.id)
        bound = _bind_call(call, g)
        names = [x.arg for x in g.args.posonlyargs + g.args.args]
        if bound is None or set(bound) != set(names) or g.args.vararg or g.args.kwarg or any(isinstance(n, (ast.Yield, ast.YieldFrom, ast.Global, ast.Nonlocal)) for n in ast.walk(g)):
            rows.append(r)
            continue
        htab = _table(mod, g, handlers=False, name=g.name, base=dict(bound))
        hrows = T.cast(T.List[shape.XRow], htab.rows)
        if not hrows or any(h.calls or h.outcome[0] not in ('return', 'raise') or (h.outcome[0] == 'return' and h.value is None) for h in hrows):
            rows.append(r)
            continue
        changed = True
        for h in hrows:
            conds = dict(r.conds)
            clash = False
            for a_, v_ in h.conds.items():
                if conds.get(a_, v_) != v_:
                    clash = True
                    break
                conds[a_] = v_
            if clash:
                continue
            if h.outcome[0] == 'raise':
                nr = shape.XRow(conds, h.outcome, tuple(norm(c) for c in r.calls[:ci]), r.path)
                nr.calls, nr.value = list(r.calls[:ci]), None
            else:
                class S(ast.NodeTransformer):
                    def visit_Call(self, n: ast.Call) -> ast.AST:
                        if n is tgt:
                            return copy.deepcopy(h.value)
                        return self.generic_visit(n)
                newc = copy.deepcopy(r.calls[ci])
                # find the same argument position in the copy
                tgt = None
                for a0, a1 in zip(list(r.calls[ci].args) + [k.value for k in r.calls[ci].keywords], list(newc.args) + [k.value for k in newc.keywords]):
                    if a0 is call:
                        tgt = a1
                newc = T.cast(ast.Call, S().visit(newc))
                calls = list(r.calls[:ci]) + [newc] + list(r.calls[ci + 1:])
                nr = shape.XRow(conds, r.outcome, tuple(norm(c) for c in calls), r.path)
                nr.calls, nr.value = calls, r.value
            nr.handlers, nr.in_try, nr.env = r.handlers, r.in_try, r.env
            rows.append(nr)
    out = Table(rows, tab.name)
    return _expand_pure_helpers(mod, out, depth + 1) if changed else out


def _aliases_before(fn: ast.FunctionDef, upto: ast.stmt) -> T.Dict[str, ast.AST]:
    """Single top-level bindings `x = <name / attribute / constant>` in front of a loop (bound methods, renamed objects)."""
    out: T.Dict[str, ast.AST] = {}
    counts: T.Dict[str, int] = {}
    for n in ast.walk(fn):
        if isinstance(n, ast.Name) and isinstance(n.ctx, ast.Store):
            counts[n.id] = counts.get(n.id, 0) + 1
    for st in fn.body[:fn.body.index(upto)]:
        if isinstance(st, ast.Assign) and len(st.targets) == 1 and isinstance(st.targets[0], ast.Name) and counts.get(st.targets[0].id) == 1 \
                and isinstance(st.value, (ast.Name, ast.Attribute, ast.Constant)):
            out[st.targets[0].id] = st.value
    return out


def _parse(text: str) -> ast.AST:
    try:
        return ast.parse(text, mode='eval').body
    except SyntaxError:
        raise Undecided(f'atom text does not parse: {text}')


def _as_value(e: ast.AST, confs: T.Set[str]) -> T.Optional[T.Tuple[str, int]]:
    """`<conf>.get(K)[i]` -> (normalised K, i): element 0 is the value, 1 the description."""
    if isinstance(e, ast.Subscript) and isinstance(e.slice, ast.Constant) and e.slice.value in (0, 1) and isinstance(e.value, ast.Call) \
            and isinstance(e.value.func, ast.Attribute) and e.value.func.attr == 'get' and isinstance(e.value.func.value, ast.Name) \
            and e.value.func.value.id in confs and len(e.value.args) == 1 and not e.value.keywords:
        return norm(e.value.args[0]), e.slice.value
    return None


TYPES = ('str', 'bool', 'int', 'other')
Extra = T.Callable[[Atom, bool], T.Any]


def _sems(world: T.Dict[Atom, bool], confs: T.Set[str], extra: Extra) -> T.List[T.Dict[str, T.Any]]:
    """Semantic views of one world of a table: value type (one view per type the atoms do not distinguish),
    truthiness of the value, presence of the name, relations of a token count with a constant, pack-specific dimensions."""
    sem: T.Dict[str, T.Any] = {}
    inst: T.List[T.Tuple[T.Tuple[str, ...], bool]] = []
    rel: T.Dict[T.Tuple[str, str], T.List[T.Tuple[str, bool, bool]]] = {}
    for a, v in world.items():
        if a.kind == 'isinstance':
            val = _as_value(_parse(a.args[0]), confs)
            if val is not None and val[1] == 0:
                inst.append((tuple(a.args[1]), v))
                sem['key'] = val[0]
                continue
        if a.kind == 'truth':
            val = _as_value(_parse(a.args[0]), confs)
            if val is not None:
                sem['truthy' if val[1] == 0 else 'desc'] = v
                if val[1] == 0:
                    sem['key'] = val[0]
                continue
        if a.kind == 'is' and a.args[1] == 'None':
            val = _as_value(_parse(a.args[0]), confs)
            if val is not None and val[1] == 0:
                sem['is_none'] = v
                sem['key'] = val[0]
                continue
        if a.kind == 'in' and a.args[1] in confs:
            sem['present'] = v
            sem['key'] = a.args[0]
            continue
        if a.kind == 'cmp':
            op, x, y = a.args
            cx, cy = _parse(x), _parse(y)
            if isinstance(cy, ast.Constant) and isinstance(cy.value, int) and not isinstance(cx, ast.Constant):
                rel.setdefault((x, y), []).append((op, True, v))
                continue
            if isinstance(cx, ast.Constant) and isinstance(cx.value, int) and not isinstance(cy, ast.Constant):
                rel.setdefault((y, x), []).append((op, False, v))
                continue
        r = extra(a, v)
        if r is None:
            raise Undecided(f'atom outside the vocabulary of the rendering tables: {a!r}')
        if r != 'ignore':
            sem[r[0]] = r[1]
    views: T.List[T.Dict[str, T.Any]] = [sem]
    for (expr, const), obs in rel.items():
        cands = []
        for r_ in ('lt', 'eq', 'gt'):
            ok = True
            for op, expr_first, v in obs:
                if op == 'eq':
                    holds = r_ == 'eq'
                else:  # lt(first, second)
                    holds = (r_ == 'lt') if expr_first else (r_ == 'gt')
                ok = ok and holds == v
            if ok:
                cands.append(r_)
        views = [dict(s_, **{f'rel:{expr}:{const}': c}) for s_ in views for c in cands]
    cands_t = [t for t in TYPES if all(v == any(t == x or (t == 'bool' and x == 'int') for x in types) for types, v in inst)]
    views = [dict(s_, type=t) for s_ in views for t in cands_t]
    # dimensions the code does not test are free: every value must satisfy the reference
    out: T.List[T.Dict[str, T.Any]] = []
    for s_ in views:
        if s_.get('is_none'):
            continue            # a configuration value is str, int or bool (build.ConfigurationData), never None
        for tr in ((s_['truthy'],) if 'truthy' in s_ else (True, False)):
            out.append(dict(s_, truthy=tr))
    return out


def _rel(sem: T.Dict[str, T.Any], pred: T.Callable[[str], bool], const: str) -> T.Optional[str]:
    hits = [v for k, v in sem.items() if k.startswith('rel:') and k.endswith(':' + const) and pred(k[4:-len(const) - 1])]
    return hits[0] if len(hits) == 1 else None


class Spec(T.NamedTuple):
    qn: str
    confs: T.Set[str]
    ref: T.Callable[[T.Dict[str, T.Any]], T.Optional[T.Dict[str, T.Any]]]
    extra: Extra = lambda a, v: None
    role: T.Callable[[shape.Op], T.Optional[str]] = lambda op: None
    by_handler: bool = True      # presence may be decided by a KeyError handler (EAFP) when no membership atom exists (LBYL)
    line: T.Optional[str] = None
    scans: T.Mapping[str, T.Any] = {}


def _role(spec: Spec, sem: T.Dict[str, T.Any]) -> T.Callable[[shape.Op], str]:
    def role(op: shape.Op) -> str:
        val = _as_value(op.node, spec.confs)
        if val is not None:
            return 'VALUE' if val[1] == 0 else 'DESC'
        if sem.get('key') is not None and op.expr == sem['key']:
            return 'NAME'
        r = spec.role(op)
        if r is not None:
            return r
        if spec.line is not None and spec.line in names_in(op.node) and names_in(op.node) <= {spec.line, 'len'}:
            return 'LINE'
        return '?' + op.expr
    return role


def _choose(spec: Spec, sem: T.Dict[str, T.Any]) -> T.Callable[[ast.AST], T.Optional[bool]]:
    def choose(test: ast.AST) -> T.Optional[bool]:
        neg = False
        while isinstance(test, ast.UnaryOp) and isinstance(test.op, ast.Not):
            neg, test = not neg, test.operand
        val = _as_value(test, spec.confs)
        if val is not None and val[1] == 0 and 'truthy' in sem:
            return sem['truthy'] != neg
        # any other test: classify it like a branch condition of the table and read the dimension off the semantic view
        from ..tables import canon
        a, pol = canon(test, True)
        dim: T.Optional[T.Tuple[str, bool]] = None
        if a.kind == 'in' and a.args[1] in spec.confs:
            dim = ('present', True)
        else:
            r_ = spec.extra(a, True)
            if isinstance(r_, tuple) and len(r_) == 2:
                dim = (r_[0], r_[1])
        if dim is not None and dim[0] in sem:
            res = sem[dim[0]] == dim[1]
            if not pol:
                res = not res
            return (not res) if neg else res
        return None
    return choose


_AFFIX = re.compile(r'^(?:\s|\{LINE\})+|(?:\s|\{LINE\})+$')


def _text(spec: Spec, sem: T.Dict[str, T.Any], e: ast.AST, keep_ends: bool = False) -> str:
    t = shape.render(shape.parts(e, spec.scans), _role(spec, sem), _choose(spec, sem))
    if sem.get('type') == 'int':
        t = t.replace('{VALUE|int}', '{VALUE}')      # int() of an int / %d of an int
    if not keep_ends:
        t = _AFFIX.sub('', t)                          # indentation / terminator are R4c's business
    return t


def _added_elems(c: ast.Call) -> T.List[ast.AST]:
    """elements a call adds to a set: s.add(x) / s.update([x, ..]) / s.update({x, ..})"""
    if isinstance(c.func, ast.Attribute) and len(c.args) == 1 and not c.keywords:
        if c.func.attr == 'add':
            return [c.args[0]]
        if c.func.attr == 'update' and isinstance(c.args[0], (ast.List, ast.Set, ast.Tuple)):
            return list(c.args[0].elts)
    return []


def _outcome(spec: Spec, sem: T.Dict[str, T.Any], r: shape.XRow, keep_ends: bool = False) -> T.Dict[str, T.Any]:
    got: T.Dict[str, T.Any] = {'kind': r.outcome[0]}
    if r.outcome[0] == 'raise':
        got['exc'] = r.outcome[1]
    elif r.outcome[0] == 'return' and r.value is not None:
        got['text'] = _text(spec, sem, r.value, keep_ends)
    got['adds'] = [_text(spec, sem, x) for c in r.calls for x in _added_elems(c)]
    got['deprecation'] = len([c for c in r.calls if norm(c.func) == 'mlog.deprecation'])
    got['writes'] = [_text(spec, sem, c.args[0], True) for c in r.calls if isinstance(c.func, ast.Attribute) and c.func.attr == 'write' and len(c.args) == 1]
    return got


def _agree(got: T.Dict[str, T.Any], want: T.Dict[str, T.Any]) -> bool:
    for k, w in want.items():
        g = got.get(k)
        if k == 'text':
            if g not in (w if isinstance(w, (set, frozenset, list, tuple)) else {w}):
                return False
        elif g != w:
            return False
    return True


def _fmt(d: T.Dict[str, T.Any]) -> str:
    items = []
    for k in ('kind', 'exc', 'text', 'adds', 'deprecation', 'writes'):
        if k in d and d[k] not in ([], 0, None):
            v = d[k]
            items.append(f'{k}={sorted(v) if isinstance(v, (set, frozenset)) else v!r}')
    return ', '.join(items)


def _sem_txt(sem: T.Dict[str, T.Any]) -> str:
    return ', '.join(f'{k.split(":")[0] if k.startswith("rel:") else k}={v}' for k, v in sorted(sem.items()) if k != 'key')


def _guard_ok(fn: ast.AST, confs: T.Set[str]) -> None:
    """Presence by exception: the handler must catch KeyError and the try body must hold the `<conf>.get(..)`."""
    for t in ast.walk(fn):
        if isinstance(t, ast.Try) and t.handlers:
            has_get = any(isinstance(c, ast.Call) and isinstance(c.func, ast.Attribute) and c.func.attr == 'get' and
                          isinstance(c.func.value, ast.Name) and c.func.value.id in confs for s in t.body for c in ast.walk(s))
            if not has_get:
                continue
            for h in t.handlers:
                names = {norm(x).split('.')[-1] for x in (h.type.elts if isinstance(h.type, ast.Tuple) else [h.type])} if h.type is not None else {'<bare>'}
                if not names & {'KeyError', 'LookupError', 'Exception', '<bare>'}:
                    raise Undecided(f'handler for {sorted(names)} around the configuration lookup: presence test not understood')


def _check_table(ctx: RuleCtx, mod: Module, spec: Spec, tab: Table, what: str, only: T.Optional[T.Callable[[T.Dict[str, T.Any]], bool]] = None,
                 outcome: T.Optional[T.Callable[[Spec, T.Dict[str, T.Any], shape.XRow], T.Dict[str, T.Any]]] = None) -> int:
    n = 0
    bad: T.Dict[str, T.Tuple[T.Any, ...]] = {}
    for w in tab.worlds():
        fired = T.cast(T.List[shape.XRow], tab.fire(w))
        for sem0 in _sems(w, spec.confs, spec.extra):
            by_handler = spec.by_handler and 'present' not in sem0 and any(r.handlers for r in T.cast(T.List[shape.XRow], tab.rows))
            for pres in ((True, False) if by_handler else (None,)):
                sem = dict(sem0) if pres is None else dict(sem0, present=pres)
                if only is not None and not only(sem):
                    continue
                want = spec.ref(sem)
                if want is None:
                    continue
                rows = fired
                if by_handler:
                    early = [r for r in fired if not r.handlers and not r.in_try]
                    rows = early or [r for r in fired if bool(r.handlers) == (not pres)]
                if len(rows) != 1:
                    raise Undecided(f'{spec.qn}: {len(rows)} rows fire for [{_sem_txt(sem)}]')
                r = rows[0]
                got = (outcome or _outcome)(spec, sem, r)
                n += 1
                if not _agree(got, want):
                    k = f'{what}: {_sem_txt(sem)}'
                    bad.setdefault(k, (r, got, want))
    blind = sorted({m_ for _, (r, got, want) in bad.items() for t_ in [got.get('text', '')] + list(got.get('writes', [])) + list(got.get('adds', []))
                    for m_ in re.findall(r'\{\?([^{}]*)', t_ or '')})
    if blind:
        raise Undecided(f'{spec.qn}: {what}: operand(s) {blind} of the rendered text have no known role (helper the tables do not look into?)')
    # closed world: a row that also calls something the tables cannot classify (a local callable, a helper) is not judged
    opaque_calls = sorted({norm(c.func) for _, (r, got, want) in bad.items() for c in r.calls
                           if not (isinstance(c.func, ast.Attribute) and (c.func.attr in ('write', 'add', 'update', 'deprecation', 'single_use', 'warning', 'debug', 'log')))})
    if opaque_calls:
        raise Undecided(f'{spec.qn}: {what}: a row that disagrees also calls {opaque_calls}, which the tables do not look into')
    for k, (r, got, want) in bad.items():
        node = r.path.events[-1].node if r.path.events else None
        ctx.violation(mod, spec.qn, f'rendering: {k}', f'{k}: the code gives [{_fmt(got)}] (row `{r!r}`); documented: [{_fmt(want)}]'[:900], node or mod.func(spec.qn))
    if not bad:
        ctx.ok(f'{spec.qn}: {what}: {len(tab.rows)} rows agree with the documented forms on {n} (world, value-type) combinations')
    return n


def _confs(mod: Module, qn: str) -> T.Set[str]:
    c = taint.Analysis(mod).conf_params(qn)
    cap = getattr(mod, '_c14_captured', {}).get(qn.split('.')[0], []) if '.' in qn else []
    c = c | getattr(mod, '_c14_extra_confs', {}).get(qn, set())
    c = c | {a.arg for a in cap if a.annotation is not None and 'ConfigurationData' in norm(a.annotation)}
    if not c:
        raise Undecided(f'{qn}: no ConfigurationData parameter in scope')
    return c


RAISE = {'kind': 'raise', 'exc': 'MesonException'}


def _ret(*texts: str, **kw: T.Any) -> T.Dict[str, T.Any]:
    return dict({'kind': 'return', 'text': set(texts)}, **kw)


# -- the callback of the meson scan -------------------------------------------------------------------
def _callback_fn(mod: Module) -> T.Tuple[str, ast.FunctionDef, T.Dict[str, ast.AST]]:
    """The replacement callback of the meson scan: a closure of do_replacement_meson, or `functools.partial(F, a, b, ..)` of a module-level
    function F - then F with its leading parameters bound to a, b, .. (partial application is a closure over those values)."""
    _, cbname, _ = _scan_call(mod, 'do_replacement_meson')
    qn = f'do_replacement_meson.{cbname}'
    if mod.has_func(qn):
        return qn, mod.func(qn), {}
    outer = mod.func('do_replacement_meson')
    d = _single_def(outer, ast.Name(id=cbname, ctx=ast.Load()))
    if isinstance(d, ast.Call) and norm(d.func) in ('partial', 'functools.partial') and d.args and isinstance(d.args[0], ast.Name) and mod.has_func(d.args[0].id):
        f = mod.func(d.args[0].id)
        names = [a.arg for a in f.args.posonlyargs + f.args.args]
        bound: T.Dict[str, ast.AST] = {}
        for nm, a in zip(names, d.args[1:]):
            bound[nm] = a
        for k in d.keywords:
            if k.arg is None or k.arg not in names:
                raise Undecided(f'do_replacement_meson: cannot bind `{short(d)}`')
            bound[k.arg] = k.value
        extra = getattr(mod, '_c14_extra_confs', {})
        extra[d.args[0].id] = _confs(mod, 'do_replacement_meson')
        mod._c14_extra_confs = extra  # type: ignore[attr-defined]
        return d.args[0].id, f, bound
    raise Undecided(f'do_replacement_meson: replacement `{cbname}` is neither a nested function nor a partial application of a module function')


def _callback_table(mod: Module) -> T.Tuple[str, ast.FunctionDef, Table, str]:
    qn, fn, bound = _callback_fn(mod)
    free = [a.arg for a in fn.args.posonlyargs + fn.args.args if a.arg not in bound]
    if len(free) != 1:
        raise Undecided(f'{qn}: expected one free parameter (the match)')
    outer = mod.func('do_replacement_meson')
    base = shape.PathEnv()
    for st in outer.body:
        if isinstance(st, (ast.Assign, ast.AnnAssign)) and not isinstance(getattr(st, 'value', None), ast.Call):
            base.stmt(st)       # aliases such as `cfg = confdata`
    env = dict(base.env)
    env.update({k: base.close(v) for k, v in bound.items()})
    return qn, fn, _table(mod, fn, handlers=True, name=qn, base=env), free[0]


def _group_ref(e: ast.AST, m: str) -> T.Optional[T.Any]:
    """`m.group(G)` / `m[G]` / `m.groupdict().get(G)` / `m.groupdict()[G]` -> G (0 for the whole match)."""
    if isinstance(e, ast.Call) and isinstance(e.func, ast.Attribute) and isinstance(e.func.value, ast.Name) and e.func.value.id == m and e.func.attr == 'group':
        if not e.args:
            return 0
        if len(e.args) == 1 and isinstance(e.args[0], ast.Constant):
            return e.args[0].value
    if isinstance(e, ast.Subscript) and isinstance(e.value, ast.Name) and e.value.id == m and isinstance(e.slice, ast.Constant):
        return e.slice.value
    gd = None
    if isinstance(e, ast.Call) and isinstance(e.func, ast.Attribute) and e.func.attr == 'get' and len(e.args) == 1 and isinstance(e.args[0], ast.Constant):
        gd, g = e.func.value, e.args[0].value
    elif isinstance(e, ast.Subscript) and isinstance(e.slice, ast.Constant):
        gd, g = e.value, e.slice.value
    if gd is not None and isinstance(gd, ast.Call) and isinstance(gd.func, ast.Attribute) and gd.func.attr == 'groupdict' and \
            isinstance(gd.func.value, ast.Name) and gd.func.value.id == m and not gd.args:
        return g
    return None


def _callback_extra(m: str) -> Extra:
    def extra(a: Atom, v: bool) -> T.Any:
        if a.kind == 'truth':
            e = _parse(a.args[0])
            if isinstance(e, ast.Call) and isinstance(e.func, ast.Attribute) and e.func.attr == 'endswith' and len(e.args) == 1 and \
                    isinstance(e.args[0], ast.Constant) and e.args[0].value == '\\' and _group_ref(e.func.value, m) == 0:
                return ('ends_backslash', v)
        if a.kind == 'is' and a.args[1] == 'None':
            g = _group_ref(_parse(a.args[0]), m)
            if isinstance(g, str):
                return (f'group:{g}', not v)
        return None
    return extra


def _alt_of(sem: T.Dict[str, T.Any]) -> T.Optional[str]:
    """Which alternative matched, by regex-language facts: every word of the run alternative ends with a backslash and no word
    of the other two does (checked in R2); the named groups belong to different alternatives."""
    run = sem.get('ends_backslash')
    esc = sem.get('group:escaped')
    if run is None or esc is None:
        raise Undecided('callback does not discriminate by `group(0).endswith(backslash)` and the `escaped` group')
    if run and esc:
        return None          # impossible: the escaped alternative ends with @
    return 'run' if run else ('escaped' if esc else 'variable')


# ---------------------------------------------------------------------------------------------
# R2  placeholder grammar
# ---------------------------------------------------------------------------------------------
def _half_run(e: ast.AST, m: str) -> T.Optional[bool]:
    """Is `e` "half as many backslashes as the match is long"?  True / False (recognisably something else) / None (unknown shape)."""
    def is_len(x: ast.AST) -> bool:
        if isinstance(x, ast.Call) and isinstance(x.func, ast.Name) and x.func.id == 'len' and len(x.args) == 1 and _group_ref(x.args[0], m) == 0:
            return True
        if isinstance(x, ast.BinOp) and isinstance(x.op, ast.Sub):
            def pos(c: ast.AST, which: str) -> bool:
                return isinstance(c, ast.Call) and isinstance(c.func, ast.Attribute) and c.func.attr == which and isinstance(c.func.value, ast.Name) \
                    and c.func.value.id == m and (not c.args or (len(c.args) == 1 and isinstance(c.args[0], ast.Constant) and c.args[0].value == 0))
            return pos(x.left, 'end') and pos(x.right, 'start')
        return False

    def is_half(x: ast.AST) -> bool:
        return isinstance(x, ast.BinOp) and isinstance(x.op, ast.FloorDiv) and is_len(x.left) and isinstance(x.right, ast.Constant) and x.right.value == 2

    if isinstance(e, ast.BinOp) and isinstance(e.op, ast.Mult):
        for a, b in ((e.left, e.right), (e.right, e.left)):
            if isinstance(a, ast.Constant) and a.value == '\\':
                return is_half(b)
        return None
    if isinstance(e, ast.Subscript) and isinstance(e.slice, ast.Slice) and _group_ref(e.value, m) == 0 and e.slice.step is None:
        s = e.slice
        if s.lower is None and s.upper is not None:
            return is_half(s.upper)
        return False
    return None


def _unescape_text(e: ast.AST, m: str, group: str, prefix: str, suffix: str) -> T.Optional[str]:
    """Template of the text built from the escaped group, whose every word is prefix + NAME + suffix (regex fact):
    constant slices of the group are resolved against the constant prefix / suffix."""
    out = ''
    for p in shape.flatten(shape.parts(e)):
        if isinstance(p, shape.Lit):
            out += p.text
            continue
        if not isinstance(p, shape.Op) or p.conv:
            return None
        n = p.node
        if _group_ref(n, m) == group:
            out += prefix + '{NAME}' + suffix
            continue
        if isinstance(n, ast.Subscript) and isinstance(n.slice, ast.Slice) and n.slice.step is None and _group_ref(n.value, m) == group:
            lo, hi = n.slice.lower, n.slice.upper

            def const(x: T.Optional[ast.AST]) -> T.Optional[int]:
                if x is None:
                    return None
                if isinstance(x, ast.Constant) and isinstance(x.value, int):
                    return x.value
                if isinstance(x, ast.UnaryOp) and isinstance(x.op, ast.USub) and isinstance(x.operand, ast.Constant) and isinstance(x.operand.value, int):
                    return -x.operand.value
                raise Undecided(f'computed slice bound in {short(n)}')
            a, b = const(lo), const(hi)
            a = 0 if a is None else a
            b = 0 if b is None else b
            if not (0 <= a <= len(prefix) and -len(suffix) <= b <= 0):
                return None
            out += prefix[a:] + '{NAME}' + suffix[:len(suffix) + b]
            continue
        if isinstance(n, ast.Subscript) and isinstance(n.slice, (ast.Constant, ast.UnaryOp)) and _group_ref(n.value, m) == group:
            i = n.slice.value if isinstance(n.slice, ast.Constant) else -n.slice.operand.value  # type: ignore[attr-defined]
            if isinstance(i, int) and 0 <= i < len(prefix):
                out += prefix[i]
                continue
            if isinstance(i, int) and -len(suffix) <= i < 0:
                out += suffix[i]
                continue
        return None
    return out


def _fixed_ends(items: T.List[T.Any]) -> T.Tuple[str, str]:
    """Constant prefix and suffix (literal characters) of every word of a regex item list."""
    lits = [chr(av) if op is rx.sre_c.LITERAL else None for op, av in items]
    pre = ''
    for c in lits:
        if c is None:
            break
        pre += c
    suf = ''
    for c in reversed(lits):
        if c is None:
            break
        suf = c + suf
    if len(pre) == len(lits):
        suf = ''
    return pre, suf


def _r2_callback(ctx: RuleCtx, mod: Module, kinds: T.Dict[str, T.Any], gd: T.Dict[str, int]) -> None:
    qn, fn, tab, m = _callback_table(mod)
    confs = _confs(mod, qn)
    # the discriminators the callback uses are exact, by the languages of the alternatives
    for kind, (lead, body, trail) in kinds.items():
        ends = rxl.can_end_with(body, '\\')
        only = rxl.difference(body, r'(?:\\\\)+') is None if kind == 'run' else None
        if kind == 'run':
            ctx.require(bool(only), 'run alternative: every match ends with a backslash', mod, 'get_variable_regex', 'meson placeholder regex: run: last character',
                        'matches of the backslash-run alternative must consist of backslashes (the callback recognises them by their last character)', mod.func('get_variable_regex'))
        else:
            ctx.require(not ends, f'{kind} alternative: no match ends with a backslash', mod, 'get_variable_regex', f'meson placeholder regex: {kind}: last character',
                        f'a match of the {kind} alternative can end with a backslash: the callback would treat it as a backslash run', mod.func('get_variable_regex'))
    esc_items = rxl.find_group(kinds['escaped'][1], gd['escaped']) if 'escaped' in kinds else None
    if esc_items is None:
        raise Undecided('no `escaped` group: the un-escape row cannot be checked')
    pre, suf = _fixed_ends(list(esc_items))

    def outcome(spec: Spec, sem: T.Dict[str, T.Any], r: shape.XRow) -> T.Dict[str, T.Any]:
        alt = _alt_of(sem)
        got = _outcome(spec, sem, r)
        if r.outcome[0] == 'return' and r.value is not None:
            if alt == 'run':
                h = _half_run(r.value, m)
                if h is None:
                    raise Undecided(f'{qn}: run row returns `{short(r.value)}`: shape not understood')
                got['text'] = 'backslash * (len(match) // 2)' if h else norm(r.value)
            elif alt == 'escaped':
                t = _unescape_text(r.value, m, 'escaped', pre, suf)
                if t is None:
                    raise Undecided(f'{qn}: escaped row returns `{short(r.value)}`: shape not understood')
                got['text'] = t
        return got

    def ref(sem: T.Dict[str, T.Any]) -> T.Optional[T.Dict[str, T.Any]]:
        alt = _alt_of(sem)
        if alt is None:
            return None
        if alt == 'run':
            return _ret('backslash * (len(match) // 2)', adds=[], deprecation=0)
        if alt == 'escaped':
            return _ret('@{NAME}@', adds=[], deprecation=0)
        if 'present' not in sem:
            raise Undecided(f'{qn}: the variable rows do not test membership of the name in the configuration data')
        if not sem['present']:
            return _ret('', adds=['{NAME}'])
        return {'adds': []}            # forms per value type: R3

    spec = Spec(qn, confs, ref, _callback_extra(m))
    n = _check_table(ctx, mod, spec, tab, 'callback of the meson scan', outcome=outcome)
    ctx.floor('callback: (world, type) combinations compared', n, 3)
    # the name looked up is the `variable` group
    names: T.Set[T.Any] = set()
    for a in tab.atoms():
        if a.kind == 'in' and a.args[1] in confs:
            names.add(_group_ref(_parse(a.args[0]), m))
    ctx.require(names == {'variable'}, 'callback looks up the text of the group `variable`', mod, qn, 'name looked up by the callback',
                f'the name tested against the configuration data is taken from {sorted(map(str, names))}, not from the group `variable`', fn)



def r2(ctx: RuleCtx) -> None:
    mod = _mod(ctx)
    pat = _variable_regex(ctx, mod, 'meson')
    tree, alts = _alternatives(pat)
    gfn = mod.func('get_variable_regex')
    ctx.floor('alternatives of the meson placeholder regex', len(alts), 3)
    ctx.require(len(alts) == 3, 'meson regex has three alternatives', mod, 'get_variable_regex', 'meson placeholder regex: alternatives',
                f'the meson placeholder regex has {len(alts)} top-level alternatives; the grammar is [backslash run | @name@ | \\@name\\@]', gfn)
    kinds = _classify(tree, alts)
    gd = dict(tree.state.groupdict)

    def lang(kind: str, what: str, items: T.List[T.Any], ref: str) -> None:
        d = rxl.difference(items, ref)
        ctx.require(d is None, f'{kind} alternative: {what} has the language {ref}', mod, 'get_variable_regex', f'meson placeholder regex: {kind}: {what}',
                    f'{what} of the {kind} alternative differs from the reference language {ref}: ' +
                    (f'{d[0]!r} is matched {"by the code only" if d[1] == "only-code" else "by the reference only"}' if d else ''), gfn)

    # @name@, not right after a backslash
    if 'variable' in kinds:
        lead, body, trail = kinds['variable']
        lang('variable', 'body', body, f'@{NAME_CLASS}+@')
        lang('variable', 'group `variable`', rxl.find_group(body, gd['variable']), f'{NAME_CLASS}+')
        la = [_assert_lang(x) for x in lead]
        ok = len(la) == 1 and la[0][0] == 'not' and la[0][1] < 0 and rxl.difference(la[0][2], r'\\') is None and not trail
        ctx.require(ok, 'variable alternative: guarded by a negative look-behind for one backslash, no look-ahead', mod, 'get_variable_regex',
                    'meson placeholder regex: variable: look-around', 'the @name@ alternative must be guarded by (?<!\\\\) only (an escaped \\@name@ is not a placeholder)', gfn)
    else:
        ctx.violation(mod, 'get_variable_regex', 'meson placeholder regex: variable', f'no alternative captures the group `variable` (kinds: {sorted(kinds)})', gfn)
    # \@name\@
    if 'escaped' in kinds:
        lead, body, trail = kinds['escaped']
        lang('escaped', 'body', body, rf'\\@{NAME_CLASS}+\\@')
        lang('escaped', 'group `escaped`', rxl.find_group(body, gd['escaped']), rf'\\@{NAME_CLASS}+\\@')
        ctx.require(not lead and not trail, 'escaped alternative: no look-around', mod, 'get_variable_regex', 'meson placeholder regex: escaped: look-around',
                    'the \\@name\\@ alternative must not be conditioned by look-around', gfn)
    else:
        ctx.violation(mod, 'get_variable_regex', 'meson placeholder regex: escaped', f'no alternative captures the group `escaped` (kinds: {sorted(kinds)})', gfn)
    # even run of backslashes in front of @ or \@
    if 'run' in kinds:
        lead, body, trail = kinds['run']
        lang('run', 'body', body, r'(?:\\\\)+')
        ta = [_assert_lang(x) for x in trail]
        ok = not lead and len(ta) == 1 and ta[0][0] == 'yes' and ta[0][1] > 0 and rxl.difference(ta[0][2], r'\\?@') is None
        ctx.require(ok, 'run alternative: look-ahead for @ or \\@, no look-behind', mod, 'get_variable_regex', 'meson placeholder regex: run: look-around',
                    'the backslash-run alternative must be followed (look-ahead) by an optional backslash and @', gfn)
    else:
        ctx.violation(mod, 'get_variable_regex', 'meson placeholder regex: run', f'no alternative without a named group (kinds: {sorted(kinds)})', gfn)
    extra = sorted(set(kinds) - {'variable', 'escaped', 'run'})
    if extra:
        raise Undecided(f'meson regex: alternatives of unknown kind {extra}')
    # no alternative can consume blanks or line terminators (R4 relies on it)
    for kind, (lead, body, trail) in kinds.items():
        bad = [c for c in ' \t\r\n' if rxl.can_contain(body, c)]
        ctx.require(not bad, f'{kind} alternative cannot match blank / CR / LF', mod, 'get_variable_regex', f'meson placeholder regex: {kind}: whitespace',
                    f'the {kind} alternative can match {bad!r}: indentation or the line terminator could be consumed by a placeholder', gfn)

    # the scan: one re.sub with the callback, no count limit, result and the set of missing names returned
    call, cbname, text = _scan_call(mod, 'do_replacement_meson')
    fn = mod.func('do_replacement_meson')
    sa_ = _scan_args(call) or {}
    cnt = sa_.get('count')
    if cnt is not None and not isinstance(cnt, ast.Constant):
        raise Undecided(f'do_replacement_meson: computed count in `{short(call)}`')
    if sa_.get('flags') is not None and not (isinstance(sa_['flags'], ast.Constant) and sa_['flags'].value == 0):
        raise Undecided(f'do_replacement_meson: flags in `{short(call)}`')
    ctx.require(cnt is None or cnt.value == 0, 'do_replacement_meson: the scan replaces every match (no count limit)', mod, 'do_replacement_meson', call,
                f'`{short(call)}` limits the number of replacements to {norm(cnt)}: later placeholders of the line are left in the output', call)
    cb_qn, cb, cb_bound = _callback_fn(mod)
    # decision table of the callback
    _r2_callback(ctx, mod, kinds, gd)
    # the set the callback fills is the one returned
    rets = [s for s in fn.body if isinstance(s, ast.Return)]
    ok = len(rets) == 1 and isinstance(rets[0].value, ast.Tuple) and len(rets[0].value.elts) == 2 and _single_def(fn, rets[0].value.elts[0]) is call
    miss = norm(rets[0].value.elts[1]) if ok else '?'
    recv = {norm(cb_bound.get(norm(c.func.value), c.func.value)) for c in ast.walk(cb) if isinstance(c, ast.Call) and _added_elems(c)}  # type: ignore[attr-defined]
    if not ok or len(recv) != 1:
        raise Undecided('do_replacement_meson: expected a single `return <scan result>, <set of missing names>` and one set the callback adds to')
    second = _single_def(fn, rets[0].value.elts[1])       # type: ignore[union-attr]
    fresh = isinstance(second, (ast.Call, ast.Set, ast.Constant)) and norm(rets[0].value.elts[1]) not in recv   # type: ignore[union-attr]
    if recv == {miss}:
        ctx.ok('do_replacement_meson returns (scan result, the set the callback records into)')
    elif fresh or isinstance(rets[0].value.elts[1], ast.Name):   # type: ignore[union-attr]
        ctx.violation(mod, 'do_replacement_meson', rets[0], f'the callback records missing names into {sorted(recv)} but the function returns `{miss}` as the set of missing names', rets[0])
    else:
        raise Undecided(f'do_replacement_meson: second returned element `{miss}`')



# ---------------------------------------------------------------------------------------------
# R3  rendering tables
# ---------------------------------------------------------------------------------------------
def _scalar_ref(bool_forms: T.Set[str], qn: str, with_unset: bool = True) -> T.Callable[[T.Dict[str, T.Any]], T.Optional[T.Dict[str, T.Any]]]:
    def ref(sem: T.Dict[str, T.Any]) -> T.Optional[T.Dict[str, T.Any]]:
        if 'present' not in sem:
            raise Undecided(f'{qn}: no membership test of the name in the configuration data')
        if not sem['present']:
            return _ret('', adds=['{NAME}']) if with_unset else None
        t = sem['type']
        if t == 'other':
            return RAISE
        if t == 'bool':
            forms = set(bool_forms)
            if '1/0' in forms:
                forms.discard('1/0')
                if 'truthy' in sem:
                    forms.add('1' if sem['truthy'] else '0')
            return _ret(*forms, adds=[])
        return _ret('{VALUE}', adds=[])
    return ref


def r3(ctx: RuleCtx) -> None:
    mod = _mod(ctx)
    total = 0
    # @VAR@ (meson): str -> value, int -> str(value), bool -> str(value) + deprecation notice, other -> error
    qn, fn, tab, m = _callback_table(mod)
    base_ref = _scalar_ref({'{VALUE}'}, qn, with_unset=False)

    def ref_at(sem: T.Dict[str, T.Any]) -> T.Optional[T.Dict[str, T.Any]]:
        if _alt_of(sem) != 'variable':
            return None
        w = base_ref(sem)
        if w is not None and w.get('kind') == 'return':
            w['deprecation'] = 1 if sem['type'] == 'bool' else 0
        return w
    total += _check_table(ctx, mod, Spec(qn, _confs(mod, qn), ref_at, _callback_extra(m)), tab, '@VAR@ per value type')

    # ${VAR} / @VAR@ (cmake): bool -> 1 / 0
    qn = _cmake_lookup(mod)
    fn = mod.func(qn)
    _guard_ok(fn, _confs(mod, qn))
    tab = _table(mod, fn, handlers=True, name=qn)
    total += _check_table(ctx, mod, Spec(qn, _confs(mod, qn), _scalar_ref({'{VALUE|int}', '1/0'}, qn)), tab, '${VAR} per value type')

    # #mesondefine
    qn = 'do_define_meson'
    fn = mod.func(qn)
    confs = _confs(mod, qn)
    _guard_ok(fn, confs)
    line = [a.arg for a in fn.args.args if a.annotation is not None and norm(a.annotation) == 'str']
    if len(line) != 1:
        raise Undecided(f'{qn}: cannot identify the line parameter')
    ln = line[0]
    scans: T.Dict[str, T.Tuple[int, str]] = {}
    for f_ in ('do_replacement_meson', 'do_replacement_cmake'):
        a = mod.func(f_).args.args
        txt = [(i, x.arg) for i, x in enumerate(a) if x.annotation is not None and norm(x.annotation) == 'str']
        if len(txt) != 1:
            raise Undecided(f'{f_}: cannot identify the text parameter')
        scans[f_] = txt[0]

    def tokens(expr: str) -> bool:
        e = _parse(expr)
        return isinstance(e, ast.Call) and isinstance(e.func, ast.Name) and e.func.id == 'len' and len(e.args) == 1 and f'{ln}.split()' == norm(e.args[0])

    def ref_md(sem: T.Dict[str, T.Any]) -> T.Optional[T.Dict[str, T.Any]]:
        nt = _rel(sem, tokens, '2')
        if nt is None:
            raise Undecided('do_define_meson: no test of the token count against 2')
        if nt != 'eq':
            return RAISE
        if not sem['present']:
            return _ret('/* #undef {NAME} */')
        t = sem['type']
        if t == 'other':
            return RAISE
        if t == 'bool':
            if 'truthy' not in sem:
                raise Undecided('do_define_meson: boolean rows do not test the value')
            return _ret('#define {NAME}' if sem['truthy'] else '#undef {NAME}')
        return _ret('#define {NAME} {VALUE}')
    tab = _table(mod, fn, handlers=True, name=qn)
    total += _check_table(ctx, mod, Spec(qn, confs, ref_md, by_handler=True, line=ln, scans=scans), tab, '#mesondefine per value type')

    # #cmakedefine / #cmakedefine01
    qn = 'do_define_cmake'
    fn = mod.func(qn)
    confs = _confs(mod, qn)
    _guard_ok(fn, confs)
    line = [a.arg for a in fn.args.args if a.annotation is not None and norm(a.annotation) == 'str']
    if len(line) != 1:
        raise Undecided(f'{qn}: cannot identify the line parameter')
    ln = line[0]
    rhs_calls: T.Dict[str, ast.Call] = {}       # resolved helper -> one (closed) call of it inside a returned text

    def extra_cm(a: Atom, v: bool) -> T.Any:
        if a.kind == 'in' and a.args[1] == ln:
            e = _parse(a.args[0])
            if isinstance(e, ast.Constant) and e.value == 'cmakedefine01':
                return ('bool01', v)
        if a.kind == 'is' and a.args[1] == 'None' and isinstance(_parse(a.args[0]), ast.Name):
            return 'ignore'         # `subproject is None`: only gates a FeatureNew notice
        if a.kind == 'truth':
            e = _parse(a.args[0])
            if isinstance(e, ast.Call) and isinstance(e.func, ast.Attribute) and e.func.attr == 'startswith' and len(e.args) == 1 and isinstance(e.args[0], ast.Constant) \
                    and isinstance(e.args[0].value, str) and e.args[0].value.endswith('cmakedefine01') and ln in names_in(e.func.value):
                return ('bool01', v)        # whether the anchoring agrees with the dispatcher is R7's business
        return None

    def role_cm(op: shape.Op) -> T.Optional[str]:
        n = op.node
        if isinstance(n, ast.Call) and isinstance(n.func, ast.Name):
            q = mod.has_func(f'{qn}.{n.func.id}') and f'{qn}.{n.func.id}' or (mod.has_func(n.func.id) and n.func.id) or None
            # the helper that renders the right-hand side: a function of this module that is given the line
            if q and q not in scans and any(ln in names_in(a) for a in n.args):
                rhs_calls.setdefault(q, n)
                return 'RHS'
        return None

    def tokens_cm(expr: str) -> bool:
        e = _parse(expr)
        return isinstance(e, ast.Call) and isinstance(e.func, ast.Name) and e.func.id == 'len' and len(e.args) == 1 and isinstance(e.args[0], ast.Call) \
            and isinstance(e.args[0].func, ast.Attribute) and e.args[0].func.attr == 'split' and ln in names_in(e.args[0])

    def ref_cd(sem: T.Dict[str, T.Any]) -> T.Optional[T.Dict[str, T.Any]]:
        if _rel(sem, tokens_cm, '2') == 'lt':
            return None             # a directive without a name: whether it is rejected cleanly is R9's business
        if 'bool01' not in sem:
            raise Undecided('do_define_cmake: no test for `cmakedefine01`')
        if 'present' not in sem:
            # e.g. `if <01>: return helper01(name, ..)` / `return helper(name, tokens, ..)`: the look-up of the name happens in callees the table does not read
            raise Undecided('do_define_cmake: no row decides whether the name is set (the look-up is made by a callee this table does not read)')
        if not sem['present']:
            return _ret('#define {NAME} 0' if sem['bool01'] else '/* #undef {NAME} */')
        if 'truthy' not in sem:
            raise Undecided('do_define_cmake: the value is not tested for truth')
        if not sem['bool01'] and not sem['truthy']:
            return _ret('/* #undef {NAME} */')
        return _ret('#define {NAME} {RHS}')
    tab = _table(mod, fn, handlers=True, name=qn)
    total += _check_table(ctx, mod, Spec(qn, confs, ref_cd, extra_cm, role_cm, by_handler=True, line=ln, scans=scans), tab, '#cmakedefine[01] per value')
    calls = [c for c in ast.walk(fn) if isinstance(c, ast.Call) and norm(c.func) == 'FeatureNew.single_use']
    ctx.note(f'do_define_cmake: {len(calls)} FeatureNew notice(s) ignored')
    # the right-hand side: 01 -> 1/0 by truth; otherwise the remaining tokens, each replaced by its value when set, joined by one blank
    ctx.floor('do_define_cmake: helper rendering the right-hand side', len(rhs_calls), 1)
    for q2 in sorted(rhs_calls):
        total += _cmake_rhs(ctx, mod, q2, qn, ln, rhs_calls[q2])

    # generated header
    total += _header_forms(ctx, mod)
    ctx.floor('rendering: (world, value-type) combinations compared', total, 10)
    # ConfigurationData.get contract the tables rely on
    b = ctx.repo.module('mesonbuild/build.py')
    g = b.func('ConfigurationData.get')
    ok = len(g.body) == 1 and isinstance(g.body[0], ast.Return) and norm(g.body[0].value) == f'self.values[{g.args.args[1].arg}]'
    if not ok:
        rets_g = [s_ for s_ in ast.walk(g) if isinstance(s_, ast.Return)]
        ok = len(rets_g) == 1 and norm(rets_g[0].value) == f'self.values[{g.args.args[1].arg}]' and not any(isinstance(s_, (ast.Try, ast.If)) for s_ in ast.walk(g))
    if not ok:
        raise Undecided('ConfigurationData.get is not `return self.values[name]`: the presence-by-KeyError reading of the tables is not justified')
    ctx.ok('ConfigurationData.get(name) is self.values[name]: (value, description), KeyError when unset')


def _cmake_rhs(ctx: RuleCtx, mod: Module, qn: str, outer: str, ln: str, call: ast.Call) -> int:
    fn = mod.func(qn)
    confs = _confs(mod, qn) | _confs(mod, outer)
    ofn = mod.func(outer)
    env: T.Dict[str, ast.AST] = {}
    if qn.startswith(outer + '.'):
        # a closure: its free variables are the straight-line bindings of the enclosing function
        base = shape.PathEnv()
        for st in ofn.body:
            if isinstance(st, (ast.Assign, ast.AnnAssign)):
                base.stmt(st)
            elif isinstance(st, (ast.FunctionDef,)):
                break
        env.update(base.env)
    # parameters are replaced by the (closed) arguments of the call in the define transformer
    names = [a.arg for a in fn.args.posonlyargs + fn.args.args]
    for nm in names:
        env.pop(nm, None)
    if len(call.args) > len(names) or any(isinstance(a, ast.Starred) for a in call.args) or any(k.arg is None or k.arg not in names for k in call.keywords):
        raise Undecided(f'{qn}: cannot bind the arguments of `{short(call)}`')
    for nm, a in zip(names, call.args):
        env[nm] = a
    for k in call.keywords:
        env[T.cast(str, k.arg)] = k.value
    tab = _table(mod, fn, handlers=True, unroll=1, name=qn, base=env)
    n = 0
    seen01 = False
    loop_rows = 0
    token_roles: T.Set[bool] = set()
    for r in T.cast(T.List[shape.XRow], tab.rows):
        def is01(a: Atom) -> bool:
            if a.kind == 'in':
                e_ = _parse(a.args[0])
                return isinstance(e_, ast.Constant) and e_.value == 'cmakedefine01'
            if a.kind == 'truth':
                e_ = _parse(a.args[0])
                return isinstance(e_, ast.Call) and isinstance(e_.func, ast.Attribute) and e_.func.attr == 'startswith' and len(e_.args) == 1 and \
                    isinstance(e_.args[0], ast.Constant) and isinstance(e_.args[0].value, str) and e_.args[0].value.endswith('cmakedefine01')
            return False
        b01 = [v for a, v in r.conds.items() if is01(a)]
        if len(b01) != 1:
            raise Undecided(f'{qn}: row without the cmakedefine01 test: {r!r}')
        if r.outcome[0] != 'return' or r.value is None:
            raise Undecided(f'{qn}: row does not return: {r!r}')
        n += 1
        if b01[0]:
            seen01 = True
            spec = Spec(qn, confs, lambda s: None)
            forms = set()
            for truthy in (True, False):
                forms.add(_text(spec, {'truthy': truthy, 'type': 'other'}, r.value))
            ok = forms == {'{VALUE|bool|int}'} or forms == {'1', '0'}
            key_ok = all(isinstance(p, shape.Lit) or _as_value(p.node, confs) is not None for p in shape.flatten(shape.parts(r.value)) if isinstance(p, (shape.Lit, shape.Op)))
            ctx.require(ok and key_ok, f'{qn}: #cmakedefine01 renders 1/0 by the truth of the value', mod, qn, 'rendering: cmakedefine01 right-hand side',
                        f'for #cmakedefine01 the right-hand side is `{short(r.value)}` (forms {sorted(forms)}); documented: 1 when the value is true, 0 otherwise', r.path.events[-1].node)
            continue
        # ' '.join(tokens)
        v = r.value
        if not (isinstance(v, ast.Call) and isinstance(v.func, ast.Attribute) and v.func.attr == 'join' and len(v.args) == 1):
            spec = Spec(qn, confs, lambda s: None)
            forms = {_text(spec, {'truthy': t_, 'type': 'other'}, v) for t_ in (True, False)}
            if forms == {'{VALUE|bool|int}'} or forms == {'1', '0'}:
                ctx.violation(mod, qn, 'rendering: cmakedefine right-hand side is the 0/1 form', f'for a plain #cmakedefine (not 01) the right-hand side is `{short(v)}`: '
                              'the 0/1 form of #cmakedefine01; documented: the remaining tokens of the line', r.path.events[-1].node)
                continue
            raise Undecided(f'{qn}: non-01 row returns `{short(v)}`, not a join')
        ctx.require(isinstance(v.func.value, ast.Constant) and v.func.value.value == ' ', f'{qn}: tokens joined by one blank', mod, qn, v.func.value,
                    f'the tokens of the right-hand side are joined by {norm(v.func.value)}', r.path.events[-1].node)
        elems: T.List[ast.AST] = []
        comp = v.args[0]
        if isinstance(comp, (ast.GeneratorExp, ast.ListComp)) and len(comp.generators) == 1 and not comp.generators[0].ifs and isinstance(comp.generators[0].target, ast.Name):
            # ' '.join(<value if set else token> for token in tokens[2:])
            g = comp.generators[0]
            tv = g.target.id
            elem = ast.Call(func=ast.Name(id='__element__', ctx=ast.Load()), args=[g.iter], keywords=[])
            spec = Spec(qn, confs, lambda s_: None)
            body = shape._Sub({tv: elem}).visit(shape.copy.deepcopy(comp.elt))
            ps = [p_ for p_ in shape.parts(body)]
            ok_c = False
            if len(ps) == 1 and isinstance(ps[0], shape.Cond):
                a_, pol = tables_canon(ps[0].test, True)
                if a_.kind == 'in' and a_.args[1] in confs and a_.args[0] == norm(elem):
                    setp, unsetp = (ps[0].then, ps[0].other) if pol else (ps[0].other, ps[0].then)
                    s_ok = len(setp) == 1 and isinstance(setp[0], shape.Op) and not setp[0].conv and (_as_value(setp[0].node, confs) or ('', 1)) == (norm(elem), 0)
                    u_ok = len(unsetp) == 1 and isinstance(unsetp[0], shape.Op) and not unsetp[0].conv and norm(unsetp[0].node) == norm(elem)
                    ok_c = True
                    token_roles.update({True, False})
                    loop_rows += 2
                    ctx.require(s_ok and u_ok, f'{qn}: every token of `{norm(g.iter)}` -> its value when set, else the token', mod, qn, 'rendering: cmakedefine tokens (comprehension)',
                                f'a token of the right-hand side is rendered as `{short(comp.elt)}`; documented: the value when the token is a set name, else the token itself', r.path.events[-1].node)
            if not ok_c and isinstance(body, ast.Call) and isinstance(body.func, ast.Name) and len(body.args) == 1 and not body.keywords and norm(body.args[0]) == norm(elem):
                # the element is rendered by a one-parameter helper (closure or module function): read the helper's own table
                hq = next((c_ for c_ in (f'{qn}.{body.func.id}', f'{outer}.{body.func.id}', body.func.id) if mod.has_func(c_)), None)
                if hq is not None and len(mod.func(hq).args.args) == 1:
                    hf = mod.func(hq)
                    htab = _table(mod, hf, handlers=True, name=hq, base=dict(env, **{hf.args.args[0].arg: elem}))
                    hconfs = confs | _confs(mod, outer)
                    _guard_ok(hf, hconfs)
                    good_all = bool(htab.rows)
                    for hr in T.cast(T.List[shape.XRow], htab.rows):
                        if hr.outcome[0] != 'return' or hr.value is None:
                            raise Undecided(f'{hq}: a row does not return: {hr!r}')
                        member = [v_ for a_, v_ in hr.conds.items() if a_.kind == 'in' and a_.args[0] == norm(elem) and a_.args[1] in hconfs]
                        unset = bool(hr.handlers) or (bool(member) and not member[-1])
                        token_roles.add(unset)
                        loop_rows += 1
                        hps = [p_ for p_ in shape.flatten(shape.parts(hr.value)) if not (isinstance(p_, shape.Lit) and p_.text == '')]
                        if len(hps) == 1 and isinstance(hps[0], shape.Op) and not hps[0].conv:
                            if unset:
                                good = norm(hps[0].node) == norm(elem)
                            else:
                                good = (_as_value(hps[0].node, hconfs) or ('', 1)) == (norm(elem), 0)
                        else:
                            good = False
                        good_all = good_all and good
                    ok_c = True
                    ctx.require(good_all, f'{qn}: every token of `{norm(g.iter)}` -> {hq}: its value when set, else the token', mod, hq, 'rendering: cmakedefine tokens (helper)',
                                f'{hq} renders a token of the right-hand side differently from: the value when the token is a set name, else the token itself', hf)
            if not ok_c:
                raise Undecided(f'{qn}: token list `{short(comp)}`: comprehension shape not understood')
            continue

        def flat(x: ast.AST) -> bool:
            if isinstance(x, ast.BinOp) and isinstance(x.op, ast.Add):
                return flat(x.left) and flat(x.right)
            if isinstance(x, ast.List):
                elems.extend(x.elts)
                return True
            if isinstance(x, ast.Call) and isinstance(x.func, ast.Name) and x.func.id == '__maybe__':
                return True
            if isinstance(x, ast.Call) and isinstance(x.func, ast.Name) and x.func.id == '__mutated__' and len(x.args) == 2:
                # x.append(e) / x.extend([..]) recorded along the path
                m_ = x.args[1]
                if not flat(x.args[0]) or not (isinstance(m_, ast.Call) and isinstance(m_.func, ast.Attribute) and len(m_.args) == 1 and not m_.keywords):
                    return False
                if m_.func.attr == 'append':
                    elems.append(m_.args[0])
                    return True
                if m_.func.attr == 'extend' and isinstance(m_.args[0], (ast.List, ast.Tuple)):
                    elems.extend(m_.args[0].elts)
                    return True
                return False
            if isinstance(x, ast.Call) and isinstance(x.func, ast.Name) and x.func.id == 'list' and not x.args:
                return True
            return False
        if not flat(v.args[0]):
            raise Undecided(f'{qn}: token list `{short(v.args[0])}` is not built by += [..]')
        iters = [e for e in r.path.events if e.kind == 'iter' and e.val == 'iter']
        if len(elems) != len(iters):
            raise Undecided(f'{qn}: {len(iters)} iteration(s) but {len(elems)} element(s) appended')
        for el, it in zip(elems, iters):
            loop_rows += 1
            # is the token a set name on this row?  EAFP: the KeyError handler was entered; LBYL: the membership atom
            member = [v_ for a_, v_ in r.conds.items() if a_.kind == 'in' and a_.args[0].startswith('__element__(') and a_.args[1] in confs]
            unset = bool(r.handlers) or (bool(member) and not member[-1])
            token_roles.add(unset)
            src = norm(it.node.iter)  # type: ignore[attr-defined]
            tok = f'__element__({norm(shape.PathEnv(r.env).close(it.node.iter))})'  # type: ignore[attr-defined]
            ps = [p for p in shape.flatten(shape.parts(el)) if not (isinstance(p, shape.Lit) and p.text == '')]
            good = False
            if len(ps) == 1 and isinstance(ps[0], shape.Op) and not ps[0].conv:
                val = _as_value(ps[0].node, confs)
                if unset:
                    good = norm(ps[0].node).startswith('__element__(')
                else:
                    good = val is not None and val[1] == 0 and val[0].startswith('__element__(')
            ctx.require(good, f'{qn}: token of `{src}` -> ' + ('kept (unset)' if unset else 'its value (set)'), mod, qn,
                        'rendering: cmakedefine token ' + ('unset' if unset else 'set'),
                        f'a token of the right-hand side is rendered as `{short(el)}`; documented: the value when the token is a set name, else the token itself ({tok})',
                        r.path.events[-1].node)
    ctx.require(seen01, f'{qn}: a row for #cmakedefine01 exists', mod, qn, 'rendering: cmakedefine01 row', 'no row handles #cmakedefine01')
    ctx.floor(f'{qn}: token kinds (set name / other token) rendered', len(token_roles), 2)
    return n


def _header_fn(mod: Module) -> ast.FunctionDef:
    """`_dump_c_header`, or - when it only drains a generator of the module (`for chunk in chunks(..): ofile.write(chunk)`) - that generator
    with every `yield E` read as `ofile.write(E)` (same statements, same order; the text reaches the file either way)."""
    import copy
    cached = getattr(mod, '_c14_header_fn', None)
    if cached is not None:
        return cached
    fn = _header_fn_raw(mod)
    mod._c14_header_fn = fn  # type: ignore[attr-defined]
    return fn


def _header_fn_raw(mod: Module) -> ast.FunctionDef:
    import copy
    fn = mod.func('_dump_c_header')
    body = [b for b in fn.body if not (isinstance(b, ast.Expr) and isinstance(b.value, ast.Constant))]
    outp = [a.arg for a in fn.args.args if a.annotation is not None and 'TextIO' in norm(a.annotation)]
    if len(body) == 1 and isinstance(body[0], ast.For) and isinstance(body[0].target, ast.Name) and len(outp) == 1 and \
            isinstance(body[0].iter, ast.Call) and isinstance(body[0].iter.func, ast.Name) and mod.has_func(body[0].iter.func.id) and \
            len(body[0].body) == 1 and norm(body[0].body[0]) == f'{outp[0]}.write({body[0].target.id})' and not body[0].orelse:
        gen = mod.func(body[0].iter.func.id)
        bound = _bind_call(body[0].iter, gen)
        if bound is None or any(not (isinstance(v, ast.Name) and v.id == k) for k, v in bound.items()) or \
                any(isinstance(n, ast.YieldFrom) for n in ast.walk(gen)):
            raise Undecided(f'_dump_c_header drains `{short(body[0].iter)}`: arguments are not passed through under their own names')
        g2 = copy.deepcopy(gen)

        class Y(ast.NodeTransformer):
            def visit_Expr(self, n: ast.Expr) -> ast.AST:
                if isinstance(n.value, ast.Yield) and n.value.value is not None:
                    call = ast.Call(func=ast.Attribute(value=ast.Name(id=outp[0], ctx=ast.Load()), attr='write', ctx=ast.Load()), args=[n.value.value], keywords=[])
                    return ast.copy_location(ast.Expr(value=ast.copy_location(call, n)), n)
                return n

            def visit_FunctionDef(self, n: ast.FunctionDef) -> ast.AST:
                return self.generic_visit(n) if n is g2 else n
        g2 = T.cast(ast.FunctionDef, ast.fix_missing_locations(Y().visit(g2)))
        if any(isinstance(n, ast.Yield) for n in ast.walk(g2)):
            raise Undecided(f'{gen.name}: a yield that is not a statement of its own')
        g2.args.args = [copy.deepcopy(a) for a in fn.args.args if a.arg == outp[0]] + g2.args.args
        return _items_loop_as_key_loop(g2)
    return _items_loop_as_key_loop(copy.deepcopy(fn))


def _items_loop_as_key_loop(fn: ast.FunctionDef) -> ast.FunctionDef:
    """`for k, rec in sorted(D.values.items()[, key=<first element>])` is `for k in sorted(D.keys()): rec = D.get(k)` (keys are unique, so ordering
    the items by their first element is ordering the keys; D.get(k) is D.values[k], checked in R3)."""
    conf = [a.arg for a in fn.args.args if a.annotation is not None and 'ConfigurationData' in norm(a.annotation)]
    for i, st in enumerate(fn.body):
        if not (isinstance(st, ast.For) and isinstance(st.target, ast.Tuple) and len(st.target.elts) == 2 and isinstance(st.target.elts[0], ast.Name)):
            continue
        it = st.iter
        if not (isinstance(it, ast.Call) and norm(it.func) == 'sorted' and len(it.args) == 1 and len(conf) == 1 and norm(it.args[0]) == f'{conf[0]}.values.items()'):
            continue
        keyf = kwarg(it, 'key')
        first = keyf is None or norm(keyf) in ('operator.itemgetter(0)', 'itemgetter(0)') or \
            (isinstance(keyf, ast.Lambda) and len(keyf.args.args) == 1 and norm(keyf.body) == f'{keyf.args.args[0].arg}[0]')
        if not first or any(k_.arg not in ('key', 'reverse') for k_ in it.keywords):
            continue
        k = st.target.elts[0]
        new_iter = ast.Call(func=ast.Name(id='sorted', ctx=ast.Load()), args=[ast.Call(func=ast.Attribute(value=ast.Name(id=conf[0], ctx=ast.Load()), attr='keys', ctx=ast.Load()),
                                                                                     args=[], keywords=[])],
                            keywords=[k_ for k_ in it.keywords if k_.arg == 'reverse'])
        bind = ast.Assign(targets=[st.target.elts[1]], value=ast.Call(func=ast.Attribute(value=ast.Name(id=conf[0], ctx=ast.Load()), attr='get', ctx=ast.Load()),
                                                                      args=[ast.Name(id=k.id, ctx=ast.Load())], keywords=[]))
        new = ast.For(target=ast.Name(id=k.id, ctx=ast.Store()), iter=new_iter, body=[bind] + st.body, orelse=st.orelse)
        for n_ in (new, bind, new_iter):
            ast.copy_location(n_, st)
        fn.body[i] = ast.fix_missing_locations(new)
    return fn


def _line_comment_form(lam: ast.Lambda) -> T.Any:
    """Shape of a per-line comment renderer `lambda desc: TEXT`: (prefix of the first line, text between two lines, text after the last line) when the
    description enters TEXT only through one join over its lines - `A + SEP.join(desc.splitlines()) + B` gives (A, SEP, B);
    `A + SEP.join(P + l + Q for l in desc.splitlines()) + B` gives (A + P, Q + SEP + P, Q + B) - or 'RAW' when the description itself (not split into
    lines) is an operand of the text.  Anything else: Undecided."""
    if len(lam.args.args) != 1:
        raise Undecided(f'description renderer with {len(lam.args.args)} parameters')
    arg = lam.args.args[0].arg

    def lines_of(e: ast.AST) -> bool:
        return isinstance(e, ast.Call) and isinstance(e.func, ast.Attribute) and e.func.attr == 'splitlines' and not e.args and not e.keywords \
            and isinstance(e.func.value, ast.Name) and e.func.value.id == arg

    def lit(ps: T.Iterable[T.Any]) -> T.Optional[str]:
        out = ''
        for p_ in ps:
            if not isinstance(p_, shape.Lit):
                return None
            out += p_.text
        return out
    ps = list(shape.parts(lam.body))
    if any(isinstance(p_, shape.Op) and not p_.conv and p_.expr == arg for p_ in shape.flatten(ps)):
        return 'RAW'
    joins = [i for i, p_ in enumerate(ps) if isinstance(p_, shape.Op)]
    if len(joins) != 1 or any(not isinstance(p_, (shape.Lit, shape.Op)) for p_ in ps):
        raise Undecided(f'description renderer `{short(lam.body, 80)}`: not a text around one join over the lines of the description')
    j = T.cast(shape.Op, ps[joins[0]]).node
    a, b = lit(ps[:joins[0]]), lit(ps[joins[0] + 1:])
    if not (isinstance(j, ast.Call) and isinstance(j.func, ast.Attribute) and j.func.attr == 'join' and isinstance(j.func.value, ast.Constant)
            and isinstance(j.func.value.value, str) and len(j.args) == 1 and not j.keywords) or a is None or b is None:
        raise Undecided(f'description renderer `{short(lam.body, 80)}`: operand `{short(j, 60)}` is not SEP.join(<lines of the description>)')
    sep, it = j.func.value.value, j.args[0]
    if lines_of(it):
        return (a, sep, b)
    if isinstance(it, (ast.GeneratorExp, ast.ListComp)) and len(it.generators) == 1 and not it.generators[0].ifs and isinstance(it.generators[0].target, ast.Name) \
            and lines_of(it.generators[0].iter):
        v = it.generators[0].target.id
        eps = list(shape.parts(it.elt))
        hit = [i for i, p_ in enumerate(eps) if isinstance(p_, shape.Op) and not p_.conv and p_.expr == v]
        if len(hit) == 1:
            p, q = lit(eps[:hit[0]]), lit(eps[hit[0] + 1:])
            if p is not None and q is not None:
                return (a + p, q + sep + p, q + b)
    raise Undecided(f'description renderer `{short(lam.body, 80)}`: the joined sequence `{short(it, 60)}` is not the lines of the description')


def _header_forms(ctx: RuleCtx, mod: Module) -> int:
    qn = '_dump_c_header'
    fn = _header_fn(mod)
    confs = _confs(mod, qn)
    loops = [s for s in fn.body if isinstance(s, ast.For)]
    if len(loops) != 1 or not isinstance(loops[0].target, ast.Name):
        raise Undecided(f'{qn}: expected one top-level loop over the keys')
    loop = loops[0]
    k = loop.target.id
    i = fn.body.index(loop)
    # prefix table: '#' for c, '%' for nasm (Configuration.md / configure_file output_format)
    pre = _table(mod, fn, body=fn.body[:i], handlers=False, name=qn + ':prelude')
    fmt_p = [a.arg for a in fn.args.args if 'Literal' in norm(a.annotation or ast.Constant(value=''))]
    if len(fmt_p) != 1:
        raise Undecided(f'{qn}: cannot identify the output format parameter')
    n = 0
    pref_names: T.Set[str] = set()
    desc_fn: T.Dict[bool, ast.AST] = {}
    loop_reads = {x.id for x in ast.walk(loop) if isinstance(x, ast.Name) and isinstance(x.ctx, ast.Load)}
    for r in T.cast(T.List[shape.XRow], pre.rows):
        isc = [v for a, v in r.conds.items() if a.kind == 'cmp' and a.args[0] == 'eq' and a.args[1] == fmt_p[0] and a.args[2] == "'c'"]
        if len(isc) != 1:
            raise Undecided(f'{qn}: prelude row without a test of the format against "c": {r!r}')
        # the directive prefix, by role: a local bound to a string literal here that the entry loop reads
        lits = {nm: v.value for nm, v in r.env.items() if isinstance(v, ast.Constant) and isinstance(v.value, str) and nm in loop_reads}
        if not lits:
            raise Undecided(f'{qn}: no local read by the entry loop is bound to a literal directive prefix on the row {r!r}')
        n += 1
        want = '#' if isc[0] else '%'
        ctx.require(set(lits.values()) == {want}, f'{qn}: directive prefix for {"c" if isc[0] else "nasm"} is {want!r}', mod, qn, f'directive prefix ({"c" if isc[0] else "nasm"})',
                    f'for the {"c" if isc[0] else "nasm"} format the directive prefix is {sorted(lits.values())}; documented: {want!r}', r.path.events[-1].node if r.path.events else fn)
        pref_names |= set(lits)
        for nm, v in r.env.items():
            if isinstance(v, ast.Lambda):
                desc_fn[isc[0]] = v
    if True in desc_fn:
        lam = T.cast(ast.Lambda, desc_fn[True])
        arg = lam.args.args[0].arg if lam.args.args else ''
        t = shape.render(shape.parts(lam.body), lambda op: 'DESC' if op.expr == arg else '?' + op.expr, lambda t_: None)
        ctx.require(t == '/* {DESC} */\n', f'{qn}: c description comment is /* DESC */', mod, qn, 'description comment (c)', f'the description is rendered as {t!r}; documented: /* DESC */', lam)
    if False in desc_fn:
        # nasm has line comments only: every line of the description must be commented out, or the second and later lines of a multi-line
        # description are written into the header as assembler text (the header then holds more than the defines of the data's keys)
        lam = T.cast(ast.Lambda, desc_fn[False])
        form = _line_comment_form(lam)
        what = f'{qn}: nasm description comment: every line of the description is prefixed with `; `'
        if form == 'RAW':
            ctx.violation(mod, qn, 'description comment (nasm): description not split into lines',
                          f'the nasm description comment is rendered as `{short(lam.body, 80)}`: the description is inserted as one piece, so only its first line '
                          'is commented out - a description with a newline puts its remaining lines into the header as raw assembler text; '
                          'documented: every line of the description prefixed with `; `', lam)
        elif form != ('; ', '\n; ', '\n'):
            ctx.violation(mod, qn, 'description comment (nasm): line prefix',
                          f'the nasm description comment is rendered as `{short(lam.body, 80)}`: first line prefixed with {form[0]!r}, following lines separated by '
                          f'{form[1]!r}, ended by {form[2]!r}; documented: every line prefixed with `; ` and ended by a newline', lam)
        else:
            ctx.ok(what)
        n += 1

    def role(op: shape.Op) -> T.Optional[str]:
        if op.expr in pref_names:
            return 'P'
        if op.expr == k:
            return 'NAME'
        nd = op.node
        if isinstance(nd, ast.Call) and isinstance(nd.func, ast.Name) and len(nd.args) == 1 and (_as_value(nd.args[0], confs) or ('', 0))[1] == 1:
            return 'COMMENT'
        return None

    def ref(sem: T.Dict[str, T.Any]) -> T.Optional[T.Dict[str, T.Any]]:
        if 'desc' not in sem:
            raise Undecided(f'{qn}: the description is not tested')
        head = ['{COMMENT}'] if sem['desc'] else []
        t = sem['type']
        if t == 'other':
            return RAISE
        if t == 'bool':
            if 'truthy' not in sem:
                raise Undecided(f'{qn}: boolean rows do not test the value')
            return {'kind': 'fall', 'writes': head + ['{P}define {NAME}\n\n' if sem['truthy'] else '{P}undef {NAME}\n\n']}
        return {'kind': 'fall', 'writes': head + ['{P}define {NAME} {VALUE}\n\n']}
    tab = _expand_pure_helpers(mod, _table(mod, fn, body=loop.body, handlers=False, name=qn + ':entry', base=_aliases_before(fn, loop)))
    sp = Spec(qn, confs, ref, role=role)
    # inside the loop body the key is the loop variable
    n += _check_table(ctx, mod, sp, tab, 'header entry per value type')
    # closing #endif: only for c with a guard macro
    post = _table(mod, fn, body=fn.body[i + 1:], handlers=False, name=qn + ':tail')
    for w in post.worlds():
        rows = T.cast(T.List[shape.XRow], post.fire(w))
        if len(rows) != 1:
            raise Undecided(f'{qn}: tail: {len(rows)} rows fire')
        isc = [v for a, v in w.items() if a.kind == 'cmp' and a.args[0] == 'eq' and a.args[1] == fmt_p[0] and a.args[2] == "'c'"]
        mac = [v for a, v in w.items() if a.kind == 'truth' and isinstance(_parse(a.args[0]), ast.Name) and a.args[0] != fmt_p[0]]
        if len(isc) > 1 or len(mac) > 1 or len(w) != len(isc) + len(mac):
            raise Undecided(f'{qn}: tail tests {list(w)}; expected the format and the guard macro')
        got = _outcome(sp, {}, rows[0])['writes']
        for c_ in (isc or [True, False]):
            for m_ in (mac or [True, False]):
                want = ['#endif\n'] if c_ and m_ else []
                n += 1
                ctx.require(got == want, f'{qn}: tail for c={c_}, guard macro={m_}: writes {want}', mod, qn, f'tail: c={c_} macro={m_}',
                            f'after the entries the code writes {got} when format-is-c={c_} and guard-macro={m_}; documented: {want}',
                            rows[0].path.events[-1].node if rows[0].path.events else fn)
    return n


# ---------------------------------------------------------------------------------------------
# R4  bytes outside placeholders are copied
# ---------------------------------------------------------------------------------------------
LINE_LOOPS = {'do_conf_str_meson': {'do_define_meson', 'do_replacement_meson'}, 'do_conf_str_cmake': {'do_define_cmake', 'do_replacement_cmake'}}


def _loop_site(mod: Module, qn: str) -> T.Tuple[str, T.Dict[str, T.Any]]:
    """Where the per-line loop of qn lives: in qn itself, or in a shared driver that qn ends with (`return driver(data, .., f, g, h)`);
    then the driver's callable parameters are bound to the functions / closures / lambdas passed at that call."""
    fn = mod.func(qn)
    if any(isinstance(s_, ast.For) for s_ in fn.body):
        return qn, {}
    rets = [s_ for s_ in fn.body if isinstance(s_, ast.Return)]
    if len(rets) == 1 and isinstance(rets[0].value, ast.Call) and isinstance(rets[0].value.func, ast.Name) and mod.has_func(rets[0].value.func.id):
        host = rets[0].value.func.id
        g = mod.func(host)
        if any(isinstance(s_, ast.For) for s_ in g.body):
            bound = _bind_call(rets[0].value, g)
            if bound is None:
                raise Undecided(f'{qn}: cannot bind the arguments of `{short(rets[0].value)}`')
            callables: T.Dict[str, T.Any] = {}
            for p_, a_ in bound.items():
                if isinstance(a_, ast.Lambda):
                    callables[p_] = a_
                elif isinstance(a_, ast.Name) and mod.has_func(f'{qn}.{a_.id}'):
                    callables[p_] = f'{qn}.{a_.id}'
                elif isinstance(a_, ast.Name) and mod.has_func(a_.id):
                    callables[p_] = a_.id
                elif isinstance(a_, ast.Name) and a_.id in {x.arg for x in fn.args.args}:
                    callables[p_] = ('param', a_.id)
            return host, callables
    raise Undecided(f'{qn}: no per-line loop here and no shared driver called at the end')


def _callable_transformer(mod: Module, target: T.Any) -> T.Optional[str]:
    """The module-level transformer a callable hands its argument to: every return is `T(.., <own parameter>, ..)` for one T."""
    if isinstance(target, tuple):
        return None
    if isinstance(target, ast.Lambda):
        rets_v: T.List[T.Optional[ast.AST]] = [target.body]
        own = {a.arg for a in target.args.args}
    else:
        f_ = mod.func(target)
        own = {a.arg for a in f_.args.args}
        if '.' not in target and own:
            # a module-level function passed directly is the transformer itself
            return target
        rets_v = [n.value for n in ast.walk(f_) if isinstance(n, ast.Return)]
    names = set()
    for v_ in rets_v:
        if not (isinstance(v_, ast.Call) and isinstance(v_.func, ast.Name) and mod.has_func(v_.func.id) and
                any(isinstance(a_, ast.Name) and a_.id in own for a_ in list(v_.args) + [k.value for k in v_.keywords])):
            return None
        names.add(v_.func.id)
    return names.pop() if len(names) == 1 else None


def _line_loop(ctx: RuleCtx, mod: Module, qn: str) -> T.Set[str]:
    outer_qn = qn
    qn, callables = _loop_site(mod, outer_qn)
    via = {p_: _callable_transformer(mod, t_) for p_, t_ in callables.items()}

    def callee_of(name: str) -> T.Optional[str]:
        if name in via:
            return via[name]
        return name if mod.has_func(name) else None
    fn = mod.func(qn)
    params = [a.arg for a in fn.args.args]
    rets = [s for s in ast.walk(fn) if isinstance(s, ast.Return)]
    if len(rets) != 1 or rets[0] not in fn.body or not isinstance(rets[0].value, ast.Tuple) or not all(isinstance(e, ast.Name) for e in rets[0].value.elts[:2]):
        raise Undecided(f'{qn}: expected a single `return lines, missing, ...` at the end')
    res_name, miss_name = rets[0].value.elts[0].id, rets[0].value.elts[1].id  # type: ignore[attr-defined]
    def added(st: ast.AST) -> T.Optional[T.List[ast.AST]]:
        """elements one statement adds to the result list: append(x) / extend([x, ..]) / += [x, ..]"""
        if isinstance(st, ast.Expr) and isinstance(st.value, ast.Call) and isinstance(st.value.func, ast.Attribute) and norm(st.value.func.value) == res_name \
                and not st.value.keywords and len(st.value.args) == 1:
            if st.value.func.attr == 'append':
                return [st.value.args[0]]
            if st.value.func.attr == 'extend' and isinstance(st.value.args[0], (ast.List, ast.Tuple)):
                return list(st.value.args[0].elts)
        if isinstance(st, ast.AugAssign) and isinstance(st.op, ast.Add) and norm(st.target) == res_name and isinstance(st.value, (ast.List, ast.Tuple)):
            return list(st.value.elts)
        return None
    adders = [st for st in ast.walk(fn) if added(st) is not None]
    stores = [n for n in ast.walk(fn) if isinstance(n, ast.Name) and n.id == res_name and isinstance(n.ctx, ast.Store)
              and not any(isinstance(a, ast.AugAssign) and a.target is n for a in adders)]
    muts = [c for c in ast.walk(fn) if isinstance(c, ast.Call) and isinstance(c.func, ast.Attribute) and norm(c.func.value) == res_name
            and not any(isinstance(a, ast.Expr) and a.value is c for a in adders)]
    if len(stores) != 1 or muts:
        raise Undecided(f'{qn}: the result list `{res_name}` is rebound or changed by something else than append / extend([..]) / += [..]')
    loops = [s for s in fn.body if isinstance(s, ast.For) and any(a in adders for a in ast.walk(s))]
    if len(loops) != 1 or len([a for a in adders if any(a is x for x in ast.walk(loops[0]))]) != len(adders):
        raise Undecided(f'{qn}: expected exactly one top-level loop appending to `{res_name}`')
    loop = loops[0]
    it = _single_def(fn, loop.iter)
    while isinstance(it, ast.Call) and isinstance(it.func, ast.Name) and it.func.id in ('list', 'tuple', 'iter') and len(it.args) == 1 and not it.keywords:
        it = _single_def(fn, it.args[0])          # order- and content-preserving wrappers
    lossy = (isinstance(it, ast.Subscript) and isinstance(it.slice, ast.Slice) and isinstance(it.value, ast.Name) and it.value.id in params) or \
        (isinstance(it, ast.Call) and isinstance(it.func, ast.Name) and it.func.id in ('filter', 'sorted', 'reversed', 'set', 'frozenset')
         and any(isinstance(a, ast.Name) and a.id in params for a in it.args))
    if isinstance(it, ast.Name) and it.id in params and isinstance(loop.target, ast.Name):
        ctx.ok(f'{qn}: the loop visits every element of the parameter `{it.id}`')
    elif lossy:
        ctx.violation(mod, qn, loop.iter, f'the per-line loop iterates `{norm(loop.iter)}`, not the list of input lines itself: lines are skipped or reordered', loop)
    else:
        raise Undecided(f'{qn}: the per-line loop iterates `{norm(loop.iter)}`; cannot tell whether that is every input line in order')
    if not isinstance(loop.target, ast.Name):
        raise Undecided(f'{qn}: loop target is not a name')
    var = loop.target.id
    used: T.Set[str] = set()
    paths = enumerate_paths(loop.body, unroll=1)
    n = 0
    for p in paths:
        if p.outcome == 'raise':
            continue
        n += 1
        where = p.describe()[:160]
        last = p.events[-1].node if p.events else loop
        if p.outcome in ('break', 'return'):
            ctx.violation(mod, qn, last or loop, f'the per-line loop can be left early ({p.outcome}) on the path [{where}]: the remaining lines are dropped', last)
            continue
        chain: T.Dict[str, T.List[str]] = {var: []}
        appended: T.List[T.Tuple[str, T.List[str]]] = []
        aux: T.Dict[str, str] = {}
        updated: T.List[str] = []
        escapes: T.Set[str] = set()
        for ev in p.events:
            st = ev.node
            if ev.kind != 'stmt' or st is None:
                continue
            if isinstance(st, ast.Assign) and len(st.targets) == 1:
                tg = st.targets[0]
                first = tg.elts[0] if isinstance(tg, ast.Tuple) and tg.elts else tg
                val = st.value
                if isinstance(val, ast.Call) and isinstance(val.func, ast.Name) and (mod.has_func(val.func.id) or val.func.id in via):
                    arg_tracked = [a for a in list(val.args) + [k.value for k in val.keywords] if isinstance(a, ast.Name) and a.id in chain]
                    if arg_tracked and isinstance(first, ast.Name):
                        if len(arg_tracked) != 1:
                            raise Undecided(f'{qn}: {short(st)} receives the line twice')
                        tname = callee_of(val.func.id)
                        if tname is None:
                            raise Undecided(f'{qn}: `{short(st)}` calls `{val.func.id}`, a callable whose transformer cannot be identified')
                        chain[first.id] = chain[arg_tracked[0].id] + [tname]
                        used.add(tname)
                        if isinstance(tg, ast.Tuple):
                            for e in tg.elts[1:]:
                                if isinstance(e, ast.Name):
                                    aux[e.id] = tname
                        continue
                for nm in ([first.id] if isinstance(first, ast.Name) else []):
                    if nm in chain:
                        raise Undecided(f'{qn}: the line variable `{nm}` is rebound by `{short(st)}` (not a call of a module-level transformer)')
            elif added(st) is not None:
                for a0 in T.cast(T.List[ast.AST], added(st)):
                    if isinstance(a0, ast.Name) and a0.id in chain:
                        appended.append((a0.id, chain[a0.id]))
                        continue
                    targs = [x for x in list(a0.args) + [k.value for k in a0.keywords] if isinstance(x, ast.Name) and x.id in chain] if isinstance(a0, ast.Call) else []
                    tname = callee_of(a0.func.id) if isinstance(a0, ast.Call) and isinstance(a0.func, ast.Name) else None
                    if tname is not None and len(targs) == 1:
                        # append(transformer(line, ..)): the transformer's result is appended directly
                        src_nm = targs[0].id  # type: ignore[attr-defined]
                        if mod.func(tname).returns is not None and norm(mod.func(tname).returns) != 'str':
                            raise Undecided(f'{qn}: `{short(st)}` appends the result of {tname}, which is not annotated to return a str')
                        used.add(tname)
                        appended.append((src_nm, chain[src_nm] + [tname]))
                    else:
                        raise Undecided(f'{qn}: `{short(st)}` appends something that is not the line variable')
            elif isinstance(st, ast.Expr) and isinstance(st.value, ast.Call) and isinstance(st.value.func, ast.Attribute) and norm(st.value.func.value) == miss_name \
                    and st.value.func.attr == 'update' and len(st.value.args) == 1 and isinstance(st.value.args[0], ast.Name):
                updated.append(st.value.args[0].id)
            elif isinstance(st, ast.AugAssign) and isinstance(st.op, ast.BitOr) and norm(st.target) == miss_name and isinstance(st.value, ast.Name):
                updated.append(st.value.id)
            if isinstance(st, ast.stmt):
                for c in ast.walk(st):
                    if isinstance(c, ast.Call):
                        for a_ in list(c.args) + [k.value for k in c.keywords]:
                            if isinstance(a_, ast.Name) and a_.id in (res_name, miss_name):
                                escapes.add(a_.id)     # handed to a helper that may append / accumulate
                    if isinstance(c, ast.Assign) and isinstance(c.value, ast.BinOp) and norm(c.targets[0]) == miss_name:
                        escapes.add(miss_name)
        if len(appended) == 0 and res_name in escapes:
            raise Undecided(f'{qn}: on the path [{where}] `{res_name}` is handed to a helper; cannot see whether the line is appended there')
        if len(appended) != 1:
            ctx.violation(mod, qn, f'append to {res_name}: {len(appended)} on a path', f'on the path [{where}] the line is appended {len(appended)} times (must be exactly once)', last)
            continue
        nm, ch = appended[0]
        if len(ch) > 1:
            ctx.violation(mod, qn, f'line through {" -> ".join(ch)}', f'on the path [{where}] the line passes through {len(ch)} transformers ({" -> ".join(ch)}) before it is appended', last)
            continue
        # names missing from a replacement transformer must be accumulated
        need = [a for a, f in aux.items() if f in ch]
        # a path that has tested the reported set and found it empty has nothing to accumulate
        known_empty = set()
        for txt_, val_ in p.conds():
            e_ = _parse(txt_)
            neg_ = False
            while isinstance(e_, ast.UnaryOp) and isinstance(e_.op, ast.Not):
                neg_, e_ = not neg_, e_.operand
            if isinstance(e_, ast.Compare) and len(e_.ops) == 1 and isinstance(e_.comparators[0], ast.Constant) and isinstance(e_.left, ast.Call) \
                    and isinstance(e_.left.func, ast.Name) and e_.left.func.id == 'len' and len(e_.left.args) == 1:
                op_, c_ = e_.ops[0], e_.comparators[0].value
                if (isinstance(op_, ast.Gt) and c_ == 0) or (isinstance(op_, ast.NotEq) and c_ == 0) or (isinstance(op_, ast.GtE) and c_ == 1):
                    e_ = e_.left.args[0]                 # len(x) > 0  ==  x is not empty
                elif isinstance(op_, ast.Eq) and c_ == 0:
                    neg_, e_ = not neg_, e_.left.args[0]  # len(x) == 0  ==  not x
            if isinstance(e_, ast.Call) and isinstance(e_.func, ast.Name) and e_.func.id in ('len', 'bool') and len(e_.args) == 1:
                e_ = e_.args[0]
            if isinstance(e_, ast.Name) and (bool(val_) == neg_):
                known_empty.add(e_.id)
        lost = [a for a in need if a not in updated and a not in known_empty]
        if lost and miss_name in escapes:
            raise Undecided(f'{qn}: on the path [{where}] `{miss_name}` is handed to a helper or rebuilt; cannot see whether {lost} is accumulated')
        if lost:
            ctx.violation(mod, qn, f'missing names of {ch[0]} not accumulated', f'on the path [{where}] the names reported missing by {ch[0]} ({lost}) are not added to `{miss_name}`', last)
            continue
        ctx.ok(f'{qn}: path [{where}]: line appended once, ' + (f'through {ch[0]}' if ch else 'unchanged') + ('' if not need else f', missing names accumulated into {miss_name}'))
    ctx.floor(f'{qn}: non-raising paths through the per-line loop', n, 1)
    return used


def r4a(ctx: RuleCtx) -> None:
    mod = _mod(ctx)
    for qn, known in LINE_LOOPS.items():
        used = _line_loop(ctx, mod, qn)
        if not used <= known:
            raise Undecided(f'{qn}: unknown per-line transformer(s) {sorted(used - known)} (R4c has no model for them)')
        ctx.require(used == known, f'{qn}: transformers used are {sorted(known)}', mod, qn, f'transformers of {qn}',
                    f'the loop uses {sorted(used)}; the define transformer and the replacement transformer are both required ({sorted(known)})')
    # the dispatcher hands lines and result through unchanged
    d = mod.func('do_conf_str')
    for c in [c for c in ast.walk(d) if isinstance(c, ast.Call) and isinstance(c.func, ast.Name) and c.func.id in LINE_LOOPS]:
        ret_direct = any(isinstance(s, ast.Return) and s.value is c for s in ast.walk(d))
        data_arg = c.args[1] if len(c.args) > 1 else kwarg(c, 'data')
        ok = ret_direct and isinstance(data_arg, ast.Name) and data_arg.id == d.args.args[1].arg
        ctx.require(ok, f'do_conf_str -> {c.func.id}: lines passed and result returned unchanged', mod, 'do_conf_str', c,  # type: ignore[attr-defined]
                    'the dispatcher must pass its list of lines and return the callee result unchanged', c)


def _open_calls(fn: ast.AST) -> T.List[T.Tuple[ast.With, ast.Call, str]]:
    out = []
    for w in ast.walk(fn):
        if isinstance(w, ast.With):
            for it in w.items:
                c = it.context_expr
                if isinstance(c, ast.Call) and attr_chain(c.func) == 'open' and isinstance(it.optional_vars, ast.Name):
                    out.append((w, c, it.optional_vars.id))
    return out


def _inline_io_helpers(mod: Module, fn: ast.FunctionDef) -> ast.FunctionDef:
    """Single-purpose I/O helpers inlined (inverse of "extract function"): a top-level `x = H(a, ..)` / `H(a, ..)` where H is a module-level function that
    opens a file and whose every `return` is in tail position is replaced by H's body, parameters bound to the arguments and `return E` read as `x = E`."""
    import copy

    def tail_ok(stmts: T.List[ast.stmt]) -> bool:
        """every Return in stmts ends the function: it is the last statement of its block and that block is last in its parent"""
        for i, st in enumerate(stmts):
            last = i == len(stmts) - 1
            if isinstance(st, ast.Return):
                if not last:
                    return False
                continue
            has_ret = any(isinstance(n, ast.Return) for n in ast.walk(st) if not isinstance(n, (ast.FunctionDef, ast.Lambda)))
            if not has_ret:
                continue
            if not last:
                return False
            if isinstance(st, (ast.With, ast.If)):
                if not tail_ok(st.body) or not tail_ok(getattr(st, 'orelse', []) or []):
                    return False
            elif isinstance(st, ast.Try):
                if st.finalbody or not tail_ok(st.body) or not tail_ok(st.orelse) or not all(tail_ok(h.body) for h in st.handlers):
                    return False
            else:
                return False
        return True

    out = copy.deepcopy(fn)
    new_body: T.List[ast.stmt] = []
    for st in out.body:
        call = st.value if isinstance(st, (ast.Assign, ast.Expr)) and isinstance(st.value, ast.Call) else None
        tgt = st.targets[0] if isinstance(st, ast.Assign) and len(st.targets) == 1 else None
        if call is None or not isinstance(call.func, ast.Name) or not mod.has_func(call.func.id) or '.' in call.func.id or (isinstance(st, ast.Assign) and tgt is None):
            new_body.append(st)
            continue
        h = mod.func(call.func.id)
        opens_file = any(isinstance(n, ast.Call) and attr_chain(n.func) == 'open' for n in ast.walk(h))
        bound = _bind_call(call, h)
        names = [a.arg for a in h.args.posonlyargs + h.args.args]
        if not opens_file or bound is None or set(bound) != set(names) or h.args.vararg or h.args.kwarg or h.decorator_list or not tail_ok(h.body) \
                or any(isinstance(n, (ast.Yield, ast.YieldFrom)) for n in ast.walk(h)):
            new_body.append(st)
            continue
        body = copy.deepcopy([b for b in h.body if not (isinstance(b, ast.Expr) and isinstance(b.value, ast.Constant))])
        pre = [ast.copy_location(ast.Assign(targets=[ast.Name(id=p_, ctx=ast.Store())], value=a_), st) for p_, a_ in bound.items()
               if not (isinstance(a_, ast.Name) and a_.id == p_)]

        class R(ast.NodeTransformer):
            def visit_FunctionDef(self, n: ast.FunctionDef) -> ast.AST:
                return n

            def visit_Return(self, n: ast.Return) -> ast.AST:
                if tgt is not None and n.value is not None:
                    return ast.copy_location(ast.Assign(targets=[copy.deepcopy(tgt)], value=n.value), n)
                return ast.copy_location(ast.Expr(value=n.value) if n.value is not None else ast.Pass(), n)
        new_body.extend(pre + [R().visit(b) for b in body])
    out.body = [ast.fix_missing_locations(b) for b in new_body]
    return out


def r4b(ctx: RuleCtx) -> None:
    mod = _mod(ctx)
    fn = _inline_io_helpers(mod, mod.func('do_conf_file'))
    fl = Flow(fn)
    opens = _open_calls(fn)
    reads, writes = [], []
    OPEN_SIG = ['file', 'mode', 'buffering', 'encoding', 'errors', 'newline', 'closefd', 'opener']

    def open_arg(c: ast.Call, name: str) -> T.Optional[ast.AST]:
        if any(isinstance(a, ast.Starred) for a in c.args) or any(k.arg is None for k in c.keywords):
            raise Undecided(f'do_conf_file: `{short(c)}` passes */** arguments')
        i = OPEN_SIG.index(name)
        return c.args[i] if i < len(c.args) else kwarg(c, name)

    def const_of(e: T.Optional[ast.AST]) -> T.Any:
        """value of a literal / single-definition local / module constant; Undecided otherwise"""
        if e is None:
            return None
        e = _single_def(fn, e)
        if isinstance(e, ast.Constant):
            return e.value
        try:
            return fold_expr(ctx.repo, mod, e)
        except Undecided:
            raise Undecided(f'do_conf_file: `{short(e)}` is not a constant')
    for w, c, f in opens:
        mode = open_arg(c, 'mode')
        m = 'r' if mode is None else const_of(mode)
        if not isinstance(m, str):
            raise Undecided(f'do_conf_file: open mode is not a string constant: {short(c)}')
        if 'b' in m:
            continue        # a binary-mode open (e.g. the comparison in replace_if_different) never translates line terminators and carries no template text here
        (writes if any(x in m for x in 'wax+') else reads).append((w, c, f, m))
    ctx.floor('do_conf_file: open() for reading / writing', min(len(reads), len(writes)), 1)
    for w, c, f, m in reads + writes:
        nl_e = open_arg(c, 'newline')
        nl = const_of(nl_e) if nl_e is not None else None      # absent -> the default None (universal newlines): the call is fully visible
        ok = nl == '' and isinstance(nl, str)
        ctx.require(ok and 'b' not in m, f'do_conf_file: {short(c)}: text mode with newline=""', mod, 'do_conf_file', c,
                    f'`{short(c)}` opens the file with newline={nl!r}, not "": Python translates line terminators ' +
                    ('on input (\\r\\n and \\r become \\n)' if (w, c, f, m) in reads else 'on output (\\n becomes os.linesep)') +
                    ', so line endings of the template are not copied', c)
    # the template is decoded and the result encoded with the same codec: the text opens agree on `encoding` (sibling agreement; a constant or
    # default on one side re-encodes every non-ASCII byte of a template given in another encoding)
    encs = {}
    for w, c, f, m in reads + writes:
        e_ = open_arg(c, 'encoding')
        encs[norm(_single_def(fn, e_)) if e_ is not None else '<locale default>'] = c
    if len(encs) == 1:
        ctx.ok(f'do_conf_file: template and output are opened with the same encoding ({next(iter(encs))})')
    else:
        held = {a.arg for a in fn.args.args}
        odd = [(k_, c_) for k_, c_ in encs.items() if not (names_in(_parse(k_)) & held if k_ != '<locale default>' else False)]
        if odd and len(odd) < len(encs):
            for k_, c_ in odd:
                ctx.violation(mod, 'do_conf_file', c_, f'`{short(c_)}` uses the encoding {k_} while the other side of the copy uses '
                              f'{sorted(x for x in encs if x != k_)}: template text outside placeholders is re-encoded instead of copied', c_)
        else:
            raise Undecided(f'do_conf_file: the text opens use different encodings {sorted(encs)}; cannot tell which one is the caller\'s')
    # template lines: f.readlines() of the src file reach the `data` argument of do_conf_str
    calls = [c for c in ast.walk(fn) if isinstance(c, ast.Call) and isinstance(c.func, ast.Name) and c.func.id == 'do_conf_str']
    if len(calls) != 1:
        raise Undecided('do_conf_file: expected one call of do_conf_str')
    data = calls[0].args[1] if len(calls[0].args) > 1 else kwarg(calls[0], 'data')
    src_p, dst_p = fn.args.args[0].arg, fn.args.args[1].arg
    o = fl.origins(data) if data is not None else set()
    dv = _single_def(fn, data) if data is not None else None
    # how the text of the file becomes a list of lines - closed set of idioms over a handle F opened for reading:
    #   F.readlines() | list(F) | tuple(F) | [*F] | [x for x in F]      the file's own lines: cut behind \n, \r\n, \r only, terminators kept   (exact)
    #   F.read().splitlines(True)                                        terminators kept, but cut at every str.splitlines boundary            (extra cuts)
    #   F.read().splitlines() | F.read().split(..)                       terminators dropped                                                    (lossy)
    handles = {f for _, _, f, _ in reads}

    def is_handle(e: ast.AST) -> T.Optional[str]:
        for _ in range(3):
            if isinstance(e, ast.Name) and e.id in handles:
                return e.id
            nxt = _single_def(fn, e) if isinstance(e, ast.Name) else e
            if nxt is e or not isinstance(nxt, ast.Name):
                return None
            e = nxt
        return None

    def whole_text(e: ast.AST) -> T.Optional[str]:
        e = _single_def(fn, e)
        if isinstance(e, ast.Call) and isinstance(e.func, ast.Attribute) and e.func.attr == 'read' and not e.args and not e.keywords:
            return is_handle(e.func.value)
        return None
    how: T.Optional[T.Tuple[str, str]] = None        # (kind, handle)
    if isinstance(dv, ast.Call) and isinstance(dv.func, ast.Attribute) and dv.func.attr == 'readlines' and not dv.args and not dv.keywords and is_handle(dv.func.value):
        how = ('exact', T.cast(str, is_handle(dv.func.value)))
    elif isinstance(dv, ast.Call) and isinstance(dv.func, ast.Name) and dv.func.id in ('list', 'tuple') and len(dv.args) == 1 and not dv.keywords and is_handle(dv.args[0]):
        how = ('exact', T.cast(str, is_handle(dv.args[0])))
    elif isinstance(dv, (ast.List, ast.Tuple)) and len(dv.elts) == 1 and isinstance(dv.elts[0], ast.Starred) and is_handle(dv.elts[0].value):
        how = ('exact', T.cast(str, is_handle(dv.elts[0].value)))
    elif isinstance(dv, ast.ListComp) and len(dv.generators) == 1 and not dv.generators[0].ifs and isinstance(dv.generators[0].target, ast.Name) \
            and isinstance(dv.elt, ast.Name) and dv.elt.id == dv.generators[0].target.id and is_handle(dv.generators[0].iter):
        how = ('exact', T.cast(str, is_handle(dv.generators[0].iter)))
    elif isinstance(dv, ast.Call) and isinstance(dv.func, ast.Attribute) and dv.func.attr in ('splitlines', 'split') and whole_text(dv.func.value):
        keep_e = dv.args[0] if dv.args else kwarg(dv, 'keepends')
        keep = dv.func.attr == 'splitlines' and keep_e is not None and isinstance(keep_e, ast.Constant) and bool(keep_e.value)
        if dv.func.attr == 'splitlines' and keep_e is not None and not isinstance(keep_e, ast.Constant):
            raise Undecided(f'do_conf_file: `{short(dv)}`: keepends is not a constant')
        how = ('extra' if keep else 'lossy', T.cast(str, whole_text(dv.func.value)))
    rd = [(w, c, f, m) for (w, c, f, m) in reads if how is not None and f == how[1]]
    allowed_r = {f'call:{f}.readlines' for _, _, f, _ in rd} | {'call:open', 'const', 'call:list', 'call:tuple'} | {f'param:{a.arg}' for a in fn.args.args} | \
        {x for x in o if x.startswith('name:') and mod.has_assign(x[5:])}          # module-level constants (e.g. the newline mode)
    for _w, c_, _f, _m in reads + writes:
        allowed_r |= fl.origins(c_.args[0]) if c_.args else set()                  # how a file *name* was obtained says nothing about the lines read
    lossy = how is not None and how[0] == 'lossy' or (isinstance(dv, ast.Call) and isinstance(dv.func, ast.Attribute) and (
        (dv.func.attr == 'splitlines' and not (dv.args and isinstance(dv.args[0], ast.Constant) and dv.args[0].value) and
         not (kwarg(dv, 'keepends') is not None and isinstance(kwarg(dv, 'keepends'), ast.Constant) and kwarg(dv, 'keepends').value))  # type: ignore[union-attr]
        or dv.func.attr == 'split'))
    ok = how is not None and how[0] == 'exact' and len(rd) == 1 and o <= allowed_r and f'param:{src_p}' in fl.origins(rd[0][1].args[0])
    if ok:
        ctx.ok(f'do_conf_file: the lines given to do_conf_str are the lines of the source file as the file object cuts them (`{short(dv)}`)')
    elif lossy:
        ctx.violation(mod, 'do_conf_file', 'template lines: line terminators dropped', f'the template lines are obtained by `{short(dv)}`, which drops the line terminators; they must be kept '
                      '(readlines() of a file opened with newline="")', calls[0])
    elif how is not None and how[0] == 'extra' and len(rd) == 1:
        ctx.violation(mod, 'do_conf_file', 'template lines: cut at every str.splitlines boundary', f'the template lines are obtained by `{short(dv)}`: str.splitlines also cuts behind '
                      '\\x0b \\x0c \\x1c \\x1d \\x1e \\x85 \\u2028 \\u2029, which are not line terminators of the template (a file opened with newline="" ends lines at '
                      '\\n, \\r\\n, \\r only): the text behind such a character is taken for the start of a template line, so a `#mesondefine` / `#cmakedefine` '
                      'in the middle of a real line is rewritten instead of copied', calls[0])
    else:
        raise Undecided(f'do_conf_file: the `data` argument of do_conf_str has origins {sorted(o)}; cannot tell whether these are the unmodified lines of the source file')
    # result lines: written with writelines / write(''.join(..)) to the file that is then moved to dst
    wcalls = []
    for w, c, f, m in writes:
        for x in ast.walk(w):
            if isinstance(x, ast.Call) and isinstance(x.func, ast.Attribute) and norm(x.func.value) == f and x.func.attr in ('writelines', 'write'):
                wcalls.append((x, c))
    if len(wcalls) != 1:
        raise Undecided(f'do_conf_file: expected exactly one write of the result, found {len(wcalls)}')
    wc, oc = wcalls[0]
    arg = wc.args[0]
    if wc.func.attr == 'write':  # type: ignore[attr-defined]
        if not (isinstance(arg, ast.Call) and isinstance(arg.func, ast.Attribute) and arg.func.attr == 'join' and isinstance(arg.func.value, ast.Constant)
                and isinstance(arg.func.value.value, str) and len(arg.args) == 1):
            raise Undecided(f'do_conf_file: result written by {short(wc)}')
        sep = arg.func.value.value
        ctx.require(sep == '', 'do_conf_file: lines are concatenated without a separator', mod, 'do_conf_file', wc,
                    f'the result lines are joined with {sep!r}: bytes that are not in the template are inserted between the lines', wc)
        arg = arg.args[0]
    o2 = fl.origins(arg)
    name_o: T.Set[str] = set()
    for _w, c_, _f, _m in reads + writes:
        name_o |= fl.origins(c_.args[0]) if c_.args else set()      # how a file name was obtained (temp-name helper, context manager) is not text
    ok = 'call:do_conf_str' in o2 and not any(x.startswith('call:') and x not in name_o and
                                              x not in ('call:do_conf_str', f'call:{rd[0][2]}.readlines' if rd else '', 'call:open') and
                                              not (how is not None and dv is not None and x in fl.origins(dv)) for x in o2)     # the read side was judged above
    if not ok:
        raise Undecided(f'do_conf_file: the text written has origins {sorted(o2)}; cannot tell whether it is the unmodified list returned by do_conf_str')
    ctx.ok('do_conf_file: the lines written are the result of do_conf_str, unmodified')
    ctx.require(f'param:{dst_p}' in fl.origins(oc.args[0]), 'do_conf_file: output file name derives from dst', mod, 'do_conf_file', oc,
                'the file written is not derived from the dst parameter', oc)


INDENT, EOL = ' \t', '\r\n'

# ---------------------------------------------------------------------------------------------
# R4c  per-line transformers reproduce indentation and terminator
# ---------------------------------------------------------------------------------------------
def _r4c_define(ctx: RuleCtx, mod: Module, qn: str) -> None:
    fn = mod.func(qn)
    line = [a.arg for a in fn.args.args if a.annotation is not None and norm(a.annotation) == 'str']
    if len(line) != 1:
        raise Undecided(f'{qn}: cannot identify the line parameter')
    ld = LineDep(mod, qn, line[0])
    if not ld.returns:
        raise Undecided(f'{qn}: no return statement')
    claims: T.List[str] = []
    scope: T.List[str] = []
    counts: T.List[str] = []
    shown: T.List[str] = []
    node: T.Optional[ast.AST] = None
    for tag, aspect in (('T', 'line terminator'), ('I', 'indentation')):
        if ld.observed_by_control(tag):
            ctx.note(f'{qn}: a branch condition depends on the {aspect} of `{line[0]}` in a way the analysis cannot discount: dependence of the result on the {aspect} is not decided')
            continue
        ind = ld.independent(tag)
        if not ind:
            ctx.ok(f'{qn}: every one of the {len(ld.returns)} returned texts depends on the {aspect} of `{line[0]}` (data flow from the parameter)')
            continue
        claims.append(aspect)
        scope.append('every' if len(ind) == len(ld.returns) else 'some')
        counts.append(f'{aspect}: {len(ind)} of {len(ld.returns)} returns')
        node = node or ind[0]
        for st in ind[:2]:
            tail = [p for p in shape.flatten(shape.parts(st.value))] if st.value is not None else []
            lit = f', it ends with the constant {tail[-1].text!r}' if tag == 'T' and tail and isinstance(tail[-1], shape.Lit) else ''
            shown.append(f'`{short(st, 70)}` cannot depend on the {aspect}{lit}')
    if claims:
        # the key names the aspects and whether every returned text or only some are affected - not how the returns are spelled or counted
        how = 'every returned text' if set(scope) == {'every'} else 'some returned text'
        ctx.violation(mod, qn, f'{how} independent of the input line: ' + '; '.join(claims),
                      f'{qn}: no data or control flow leads from the {" / ".join(claims)} of `{line[0]}` to the returned text '
                      f'[{"; ".join(counts)}]: two template lines that differ only there give the same output, so it is not copied; e.g. ' + '; '.join(shown), node)


def r4c(ctx: RuleCtx) -> None:
    mod = _mod(ctx)
    # replacement transformer (meson): single scan of the parameter, and no alternative can match blank/CR/LF
    call, cbname, text = _scan_call(mod, 'do_replacement_meson')
    fn = mod.func('do_replacement_meson')
    params = [a.arg for a in fn.args.args]
    text = _single_def(fn, text)
    rets = [s for s in ast.walk(fn) if isinstance(s, ast.Return) and not any(s in ast.walk(f) for f in ast.walk(fn) if isinstance(f, ast.FunctionDef) and f is not fn)]
    if len(rets) != 1 or not isinstance(rets[0].value, ast.Tuple) or not rets[0].value.elts:
        raise Undecided('do_replacement_meson: expected a single `return <text>, <missing>`')
    out_e = _single_def(fn, rets[0].value.elts[0])
    stores = [n for n in ast.walk(fn) if isinstance(n, ast.Name) and isinstance(n.ctx, ast.Store) and isinstance(text, ast.Name) and n.id == text.id]
    pre_changed = not isinstance(text, ast.Name) and any(isinstance(n, ast.Name) and n.id in params for n in ast.walk(text))
    post_changed = out_e is not call and any(n is call for n in ast.walk(out_e))
    if isinstance(text, ast.Name) and text.id in params and not stores and out_e is call:
        ctx.ok('do_replacement_meson: returns the scan of its own line parameter, untouched before and after')
    elif pre_changed or post_changed:
        ctx.violation(mod, 'do_replacement_meson', call, f'the text scanned is `{norm(text)}` and the text returned is `{short(out_e)}`: the line is changed ' +
                      ('before' if pre_changed else 'after') + ' the scan, so it is no longer copied unchanged outside placeholders', call)
    else:
        raise Undecided(f'do_replacement_meson: scans `{norm(text)}` and returns `{short(out_e)}`; cannot relate them to the line parameter')
    pat = _variable_regex(ctx, mod, 'meson')
    tree, alts = _alternatives(pat)
    for i, items in enumerate(alts):
        lead, body, trail = rxl.split_lookaround(items)
        bad = [c for c in ' \t\r\n' if rxl.can_contain(body, c)]
        ctx.require(not bad, f'meson regex alternative {i + 1} cannot consume blank / CR / LF', mod, 'get_variable_regex', f'meson placeholder regex: alternative {i + 1}: whitespace',
                    f'alternative {i + 1} can match {bad!r}: a placeholder match could swallow indentation or the line terminator', mod.func('get_variable_regex'))
    # define transformers: the result must depend on the indentation and on the terminator of the input line
    _r4c_define(ctx, mod, 'do_define_meson')
    _r4c_define(ctx, mod, 'do_define_cmake')
    ctx.note('do_replacement_cmake (hand-written index scanner) is not decided')


# ---------------------------------------------------------------------------------------------
# R5  generated header
# ---------------------------------------------------------------------------------------------
def r5(ctx: RuleCtx) -> None:
    mod = _mod(ctx)
    fn = _header_fn(mod)
    conf = [a.arg for a in fn.args.args if a.annotation is not None and 'ConfigurationData' in norm(a.annotation)]
    outp = [a.arg for a in fn.args.args if a.annotation is not None and 'TextIO' in norm(a.annotation)]
    if len(conf) != 1 or len(outp) != 1:
        raise Undecided('_dump_c_header: cannot identify the data and the output parameter')
    cd, of = conf[0], outp[0]
    loops = [s for s in ast.walk(fn) if isinstance(s, (ast.For, ast.While))]
    if len(loops) != 1 or loops[0] not in fn.body or not isinstance(loops[0], ast.For):
        raise Undecided('_dump_c_header: expected exactly one top-level for loop')
    loop = loops[0]
    it: ast.AST = loop.iter
    fl = Flow(fn)
    if isinstance(it, ast.Name) and len(fl.defs.get(it.id, [])) == 1:
        it = fl.defs[it.id][0]
    keysrc = {f'{cd}.keys()', f'{cd}.values', f'{cd}.values.keys()', f'list({cd}.keys())', f'{cd}.values.items()'}
    if isinstance(it, ast.Call) and norm(it.func) == 'sorted':
        rev = kwarg(it, 'reverse')
        keyf = kwarg(it, 'key')
        if keyf is not None:
            kn = norm(keyf)
            ident = kn in ('None', 'str') or (isinstance(keyf, ast.Lambda) and len(keyf.args.args) == 1 and norm(keyf.body) == keyf.args.args[0].arg)
            if not ident and kn in ('str.lower', 'str.upper', 'str.casefold', 'str.swapcase', 'len'):
                # a key function that identifies / reorders distinct names: `B` < `a` in plain order, `a` < `B` under str.lower
                ctx.violation(mod, '_dump_c_header', loop.iter, f'the keys are iterated through `{short(it)}`: ordered by {kn}, not by the names themselves '
                              '(e.g. the names `B` and `a` come out in the other order)', loop)
            elif not ident:
                raise Undecided(f'_dump_c_header: {short(it)}: sorted() with a key function')
        if any(k.arg not in ('reverse', 'key') for k in it.keywords) or len(it.args) != 1 or (rev is not None and not isinstance(rev, ast.Constant)):
            raise Undecided(f'_dump_c_header: {short(it)}: sorted() with a computed reverse argument')
        if rev is not None and rev.value:
            ctx.violation(mod, '_dump_c_header', loop.iter, f'the keys are iterated through `{short(it)}`: descending, the header must list them in ascending order', loop)
        inner = norm(it.args[0])
        if inner not in keysrc - {f'{cd}.values.items()'}:
            raise Undecided(f'_dump_c_header: sorted() over `{inner}`, not over the keys of {cd}')
        ctx.ok(f'_dump_c_header: keys are iterated through {short(it)}')
    elif norm(it) in keysrc:
        ctx.violation(mod, '_dump_c_header', loop.iter, f'the entries are iterated as `{norm(it)}` (insertion order); the generated header must define the keys in sorted order', loop)
    else:
        raise Undecided(f'_dump_c_header: loop over `{short(it)}`')
    if not isinstance(loop.target, ast.Name):
        raise Undecided('_dump_c_header: loop target is not a single name')
    k = loop.target.id
    n = 0
    kinds_seen: T.Set[T.FrozenSet[str]] = set()
    etab = _expand_pure_helpers(mod, _table(mod, fn, body=loop.body, handlers=False, name='_dump_c_header:entry', base=_aliases_before(fn, loop)))
    for r in T.cast(T.List[shape.XRow], etab.rows):
        p = r.path
        where = ' & '.join(('' if v_ else 'not ') + repr(a_) for a_, v_ in r.conds.items())[:140] or 'always'
        if r.outcome[0] == 'raise':
            continue
        last = p.events[-1].node if p.events else loop
        if r.outcome[0] != 'fall':
            ctx.violation(mod, '_dump_c_header', last or loop, f'the loop body ends with `{r.outcome[0]}` on the path [{where}]: a key is skipped', last)
            continue
        # a write whose text has the key itself as an operand (reaching definitions substituted) is the emission for that key
        ws = [c for c in r.calls if isinstance(c.func, ast.Attribute) and norm(c.func.value) == of and c.func.attr == 'write' and len(c.args) == 1
              and any(isinstance(x, shape.Op) and x.expr == k for x in shape.flatten(shape.parts(c.args[0])))]
        handed = [c for c in r.calls if not (isinstance(c.func, ast.Attribute) and norm(c.func.value) == of)
                  and any(isinstance(a_, ast.Name) and a_.id == of for a_ in list(c.args) + [kw.value for kw in c.keywords])]
        n += 1
        arm = frozenset(t for a_, val in r.conds.items() if val and a_.kind == 'isinstance' for t in a_.args[1])
        if len(ws) == 1 and arm:
            kinds_seen.add(arm)
        if len(ws) == 1:
            ctx.ok(f'_dump_c_header: path [{where}]: one emission for the key: {short(ws[0])}')
        elif len(ws) == 0 and handed:
            raise Undecided(f'_dump_c_header: on the path [{where}] the output file is handed to {short(handed[0])}; cannot see the emission')
        else:
            ctx.violation(mod, '_dump_c_header', f'{len(ws)} emissions for a key: {where}', f'on the path [{where}] the key is emitted {len(ws)} times (must be exactly once)', last)
    ctx.floor('_dump_c_header: value kinds (isinstance arms) with exactly one emission', len(kinds_seen), 2)
    # the caller: one emitter per path; json sorted
    dfn = mod.func('dump_conf_header')
    emitters: T.Set[str] = set()
    np_ = 0
    for p in enumerate_paths(dfn.body, unroll=1):
        if p.outcome == 'raise':
            continue
        calls = p.calls()
        hdr = [c for c in calls if isinstance(c.func, ast.Name) and c.func.id == '_dump_c_header']
        js = [c for c in calls if attr_chain(c.func) == 'json.dump']
        np_ += 1
        where = p.describe()[:120]
        cdp0 = {x.arg for x in dfn.args.args if x.annotation is not None and 'ConfigurationData' in norm(x.annotation)}
        others = [c for c in calls if attr_chain(c.func) not in ('open', 'replace_if_different') and
                  any(isinstance(a_, ast.Name) and a_.id in cdp0 for a_ in list(c.args) + [kw.value for kw in c.keywords])]
        if len(hdr) + len(js) == 0 and others:
            raise Undecided(f'dump_conf_header: path [{where}]: the data is handed to {short(others[0])}, an emitter this rule does not know')
        for c_ in hdr:
            emitters.add('header')
        for c_ in js:
            emitters.add('json')
        if len(hdr) + len(js) != 1:
            ctx.violation(mod, 'dump_conf_header', f'{len(hdr)} header / {len(js)} json emissions: {where}', f'path [{where}] emits the data {len(hdr) + len(js)} times', dfn)
            continue
        if js:
            sk = kwarg(js[0], 'sort_keys')
            data = js[0].args[0] if js[0].args else None
            dfl = Flow(dfn)
            src = data
            if isinstance(src, ast.Name) and len(dfl.defs.get(src.id, [])) == 1:
                src = dfl.defs[src.id][0]
            cdp = [a.arg for a in dfn.args.args if a.annotation is not None and 'ConfigurationData' in norm(a.annotation)]
            whole = isinstance(src, ast.DictComp) and len(src.generators) == 1 and not src.generators[0].ifs and cdp and \
                norm(src.generators[0].iter) == f'{cdp[0]}.values.items()' and isinstance(src.generators[0].target, ast.Tuple) and \
                norm(src.key) == norm(src.generators[0].target.elts[0])
            if not whole:
                raise Undecided(f'dump_conf_header: json data `{short(src)}` is not a comprehension over all items')
            ctx.require(isinstance(sk, ast.Constant) and sk.value is True, 'dump_conf_header[json]: json.dump(..., sort_keys=True) over all items', mod, 'dump_conf_header', js[0],
                        'the json form must be written with sort_keys=True', js[0])
        else:
            a = hdr[0].args
            cdp = [x.arg for x in dfn.args.args if x.annotation is not None and 'ConfigurationData' in norm(x.annotation)]
            ctx.require(len(a) >= 2 and cdp and norm(a[1]) == cdp[0], f'dump_conf_header: path [{where}] hands the whole data object to _dump_c_header', mod, 'dump_conf_header', hdr[0],
                        'the data object is not passed unchanged to _dump_c_header', hdr[0])
    ctx.floor('dump_conf_header: emitters reached (header, json)', len(emitters), 2)


# ---------------------------------------------------------------------------------------------
# R6  context parameters are threaded through the pipeline (call-site agreement, K8)
# ---------------------------------------------------------------------------------------------
TEXT_ANN = {'str', 'T.List[str]', 'List[str]', 'T.Sequence[str]'}
HEADER_ROOTS = ['dump_conf_header']


def _pipeline(mod: Module, roots: T.List[str]) -> T.List[str]:
    """Functions of the module reachable from the roots by calls through plain names (nested defs included)."""
    seen: T.List[str] = []

    def resolve(scope: str, name: str) -> T.Optional[str]:
        parts = scope.split('.')
        for i in range(len(parts), -1, -1):
            q = '.'.join(parts[:i] + [name])
            if mod.has_func(q):
                return q
        return None

    def rec(q: str) -> None:
        if q in seen:
            return
        seen.append(q)
        for c in ast.walk(mod.func(q)):
            if isinstance(c, ast.Call) and isinstance(c.func, ast.Name):
                r = resolve(q, c.func.id)
                if r is not None:
                    rec(r)
    for r in roots:
        mod.func(r)
        rec(r)
    return seen


def _ctx_params(fn: ast.FunctionDef) -> T.Dict[str, ast.arg]:
    """Parameters that carry context (format switch, data object, subproject, pattern ...), i.e. everything but the text being transformed."""
    out: T.Dict[str, ast.arg] = {}
    for a in fn.args.posonlyargs + fn.args.args + fn.args.kwonlyargs:
        ann = norm(a.annotation) if a.annotation is not None else ''
        if ann in TEXT_ANN or a.arg in ('self', 'cls'):
            continue
        out[a.arg] = a
    return out


def _bind_call(call: ast.Call, fn: ast.FunctionDef) -> T.Optional[T.Dict[str, ast.AST]]:
    names = [a.arg for a in fn.args.posonlyargs + fn.args.args]
    konly = [a.arg for a in fn.args.kwonlyargs]
    out: T.Dict[str, ast.AST] = {}
    for i, a in enumerate(call.args):
        if isinstance(a, ast.Starred) or i >= len(names):
            return None
        out[names[i]] = a
    for k in call.keywords:
        if k.arg is None or k.arg not in names + konly:
            return None
        out[k.arg] = k.value
    return out


def r6(ctx: RuleCtx) -> None:
    mod = _mod(ctx)
    fns = _pipeline(mod, PIPELINE_ROOTS + HEADER_ROOTS)
    n = 0
    handed: T.Set[str] = set()
    for q in fns:
        f = mod.func(q)
        # context a function holds: its own parameters and those of the functions it is nested in
        held: T.Dict[str, ast.arg] = {}
        parts = q.split('.')
        for i in range(1, len(parts) + 1):
            qq = '.'.join(parts[:i])
            if mod.has_func(qq):
                held.update(_ctx_params(mod.func(qq)))
        if not held:
            continue
        fl = Flow(f, nested=False)
        for c in [c for c in ast.walk(f) if isinstance(c, ast.Call) and isinstance(c.func, ast.Name)]:
            if mod.enclosing_func(c) != q:
                continue
            gq = None
            for i in range(len(parts), -1, -1):
                cand = '.'.join(parts[:i] + [c.func.id])
                if mod.has_func(cand):
                    gq = cand
                    break
            if gq is None or gq not in fns:
                continue
            g = mod.func(gq)
            shared = sorted(p for p in _ctx_params(g) if p in held)
            if not shared:
                continue
            bound = _bind_call(c, g)
            if bound is None:
                raise Undecided(f'{q}: cannot bind the arguments of `{short(c)}`')
            for p in shared:
                n += 1
                handed.add(p)
                what = f'{q} -> {gq}: context parameter `{p}` is handed on'
                if p not in bound:
                    defaults = {a.arg for a, d in zip(reversed(g.args.posonlyargs + g.args.args), reversed(g.args.defaults))} | \
                               {a.arg for a, d in zip(g.args.kwonlyargs, g.args.kw_defaults) if d is not None}
                    if p in defaults:
                        ctx.violation(mod, q, c, f'`{short(c)}` does not pass `{p}` although {q} holds it: {gq} falls back to the default of `{p}` '
                                      f'instead of the value the caller was given (format / context lost on this path)', c)
                    else:
                        raise Undecided(f'{q}: `{short(c)}` leaves the required parameter `{p}` unbound')
                    continue
                arg = bound[p]
                o = fl.origins(arg)
                names_ = names_in(arg)
                if p in names_ or f'param:{p}' in o or f'name:{p}' in o:
                    ctx.ok(what + f' (`{short(arg, 40)}`)')
                elif isinstance(arg, ast.Constant):
                    ctx.violation(mod, q, c, f'`{short(c)}` passes the constant {norm(arg)} for `{p}` although {q} holds `{p}`: the context given to the caller is ignored', c)
                else:
                    others = sorted(x for x in held if x != p and (x in names_ or f'param:{x}' in o))
                    if others and not any(x.startswith(('call:', 'attr:')) for x in o):
                        ctx.violation(mod, q, c, f'`{short(c)}` binds `{p}` of {gq} to `{short(arg, 40)}`, which derives from {others} and not from the `{p}` that {q} holds '
                                      '(arguments cross-wired)', c)
                    else:
                        raise Undecided(f'{q}: `{short(c)}` binds `{p}` to `{short(arg, 40)}`; cannot tell whether it carries {q}\'s `{p}`')
    ctx.floor('distinct context parameters handed on in the pipeline', len(handed), 3)
    # the two dispatchers derive the cmake switch from the format: only 'cmake@' restricts substitution to @VAR@.
    # The switch, by role: the bool parameter(s) of the cmake scanner, and every parameter of a pipeline function that is handed on as one.
    scanner = mod.func('do_replacement_cmake')
    switches: T.Set[T.Tuple[str, str]] = {('do_replacement_cmake', a.arg) for a in scanner.args.posonlyargs + scanner.args.args + scanner.args.kwonlyargs
                                          if a.annotation is not None and norm(a.annotation) == 'bool'}
    if not switches:
        raise Undecided('do_replacement_cmake has no bool parameter: the @-only switch is not found')
    for _ in range(4):
        for q in fns:
            if '.' in q:
                continue
            f = mod.func(q)
            for c in [c for c in ast.walk(f) if isinstance(c, ast.Call) and isinstance(c.func, ast.Name) and mod.has_func(c.func.id)]:
                bound = _bind_call(c, mod.func(c.func.id))
                if bound is None:
                    continue
                for pn, arg in bound.items():
                    if (c.func.id, pn) in switches and isinstance(arg, ast.Name) and arg.id in _ctx_params(f):
                        switches.add((q, arg.id))
    for q in ('do_conf_str', 'do_replacement'):
        f = mod.func(q)
        fmt = [a.arg for a in f.args.args if a.annotation is not None and 'Literal' in norm(a.annotation)]
        if len(fmt) != 1:
            raise Undecided(f'{q}: cannot identify the format parameter')
        hits = 0
        for c in [c for c in ast.walk(f) if isinstance(c, ast.Call) and isinstance(c.func, ast.Name) and mod.has_func(c.func.id)]:
            g = mod.func(c.func.id)
            sw = [a.arg for a in g.args.posonlyargs + g.args.args + g.args.kwonlyargs if (c.func.id, a.arg) in switches and a.arg not in _ctx_params(f)]
            if not sw:
                continue
            bound = _bind_call(c, g)
            if bound is None:
                raise Undecided(f'{q}: cannot bind the arguments of `{short(c)}`')
            for p in sw:
                hits += 1
                if p not in bound:
                    ctx.violation(mod, q, c, f'`{short(c)}` does not pass the switch `{p}`: the callee cannot know whether the format is cmake@', c)
                    continue
                a = bound[p]
                ok = isinstance(a, ast.Compare) and len(a.ops) == 1 and isinstance(a.ops[0], ast.Eq) and \
                    {norm(a.left), norm(a.comparators[0])} == {fmt[0], "'cmake@'"}
                if ok:
                    ctx.ok(f'{q} -> {c.func.id}: `{p}` is `{short(a)}`')
                elif isinstance(a, (ast.Constant, ast.Compare)):
                    ctx.violation(mod, q, c, f'`{short(c)}` sets `{p}` to `{short(a)}`; documented: only the format \'cmake@\' restricts substitution to @VAR@ ({fmt[0]} == \'cmake@\')', c)
                else:
                    raise Undecided(f'{q}: `{p}` is bound to `{short(a)}`')
        ctx.floor(f'{q}: calls deriving the cmake@ switch from the format', hits, 1)


# ---------------------------------------------------------------------------------------------
# R7  the dispatch test of the per-line loops does not look at the indentation (dispatcher / transformer agreement, K8)
# ---------------------------------------------------------------------------------------------
def _indent_sense(e: ast.AST, var: str, mod: Module, qn: str) -> str:
    """'blind' (the truth of e cannot depend on the leading blanks of `var`), 'sensitive' (a test anchored at the first character of the
    unstripped line), or 'unknown'."""
    # a regex test on the whole line: decided from the language of the (constant) pattern
    def const_str(x: ast.AST) -> T.Optional[str]:
        if isinstance(x, ast.Constant) and isinstance(x.value, str):
            return x.value
        if isinstance(x, ast.BinOp) and isinstance(x.op, ast.Add):
            a_, b_ = const_str(x.left), const_str(x.right)
            return a_ + b_ if a_ is not None and b_ is not None else None
        return None
    rcalls = [c for c in ast.walk(e) if isinstance(c, ast.Call) and attr_chain(c.func) in ('re.search', 're.match', 're.fullmatch') and len(c.args) >= 2
              and isinstance(c.args[1], ast.Name) and c.args[1].id == var]
    if rcalls:
        verdicts_ = set()
        for c in rcalls:
            pat = const_str(c.args[0])
            if pat is None or len(c.args) > 2 or c.keywords:
                return 'unknown'
            items = list(rx.parse(pat))
            anchored = attr_chain(c.func) != 're.search'
            while items and items[0][0] is rx.sre_c.AT:
                if str(items[0][1]) in ('AT_BEGINNING', 'AT_BEGINNING_STRING'):
                    anchored = True
                items.pop(0)
            if not anchored:
                verdicts_.add('unanchored')
                continue
            if not items:
                return 'unknown'
            op, av = items[0]
            if op is rx.sre_c.MAX_REPEAT and av[0] == 0 and av[1] is rx.sre_c.MAXREPEAT and len(av[2]) == 1 and av[2][0][0] is rx.sre_c.IN \
                    and rx._in_match(av[2][0][1], ' ', False) and rx._in_match(av[2][0][1], '\t', False):
                verdicts_.add('blind')
            elif op is rx.sre_c.LITERAL and not chr(av).isspace():
                verdicts_.add('sensitive')
            else:
                return 'unknown'
        for v_ in ('unanchored', 'sensitive', 'blind'):
            if v_ in verdicts_:
                return v_
    ld = LineDep.__new__(LineDep)
    ld.mod, ld.qn, ld.fn, ld.depth = mod, qn, mod.func(qn), 3
    ld.env, ld.ctrl, ld.returns = {var: frozenset({'T', 'I'})}, frozenset(), []
    t = ld.tags(e)
    if not any(x.rstrip('*') == 'I' for x in t):
        return 'blind'

    def anchored(x: ast.AST) -> bool:
        """text whose first character is the first character of the line"""
        return 'I' in ld.tags(x)
    for n in ast.walk(e):
        if isinstance(n, ast.Call) and isinstance(n.func, ast.Attribute) and n.func.attr == 'startswith' and len(n.args) == 1 and \
                isinstance(n.args[0], ast.Constant) and isinstance(n.args[0].value, str) and n.args[0].value[:1].strip() and anchored(n.func.value):
            return 'sensitive'
        if isinstance(n, ast.Compare) and len(n.ops) == 1 and isinstance(n.ops[0], (ast.Eq, ast.NotEq)):
            for a, b in ((n.left, n.comparators[0]), (n.comparators[0], n.left)):
                if isinstance(b, ast.Constant) and isinstance(b.value, str) and b.value[:1].strip() and isinstance(a, ast.Subscript) and anchored(a.value):
                    s_ = a.slice
                    if (isinstance(s_, ast.Constant) and s_.value == 0) or (isinstance(s_, ast.Slice) and s_.lower is None and s_.step is None):
                        return 'sensitive'
    return 'unknown'


def _gap_anchored(e: ast.AST, line: str) -> T.Optional[ast.AST]:
    """A `startswith(<constant>)` test that requires the characters right after the first character of the left-stripped line:
    `line.lstrip().startswith('#x..')` or `line.lstrip()[1:].startswith('x..')` (x not blank)."""
    def stripped(x: ast.AST) -> bool:
        return isinstance(x, ast.Call) and isinstance(x.func, ast.Attribute) and x.func.attr in ('lstrip', 'strip') and not x.args and \
            isinstance(x.func.value, ast.Name) and x.func.value.id == line
    for c in ast.walk(e):
        if isinstance(c, ast.Call) and isinstance(c.func, ast.Attribute) and c.func.attr == 'startswith' and len(c.args) == 1 and \
                isinstance(c.args[0], ast.Constant) and isinstance(c.args[0].value, str):
            k = c.args[0].value
            recv = c.func.value
            if stripped(recv) and len(k) > 1 and not k[0].isspace() and not k[1].isspace():
                return c
            if isinstance(recv, ast.Subscript) and isinstance(recv.slice, ast.Slice) and isinstance(recv.slice.lower, ast.Constant) and recv.slice.lower.value == 1 \
                    and recv.slice.upper is None and stripped(recv.value) and k and not k[0].isspace():
                return c
    return None


def r7(ctx: RuleCtx) -> None:
    mod = _mod(ctx)
    verdicts: T.Dict[str, str] = {}
    tolerant: T.Dict[str, str] = {}
    for outer_qn, known in LINE_LOOPS.items():
        qn, callables = _loop_site(mod, outer_qn)
        fn = mod.func(qn)
        loops = [s for s in fn.body if isinstance(s, ast.For) and isinstance(s.target, ast.Name)]
        if len(loops) != 1:
            raise Undecided(f'{qn}: expected one per-line loop')
        loop = loops[0]
        var = loop.target.id  # type: ignore[attr-defined]
        define = sorted(k for k in known if 'define' in k)
        define_names = set(define) | {p_ for p_, t_ in callables.items() if _callable_transformer(mod, t_) in define}

        def consts(f_: ast.FunctionDef, upto: T.Optional[ast.stmt]) -> T.Dict[str, ast.AST]:
            pe = shape.PathEnv()
            for st in f_.body[:f_.body.index(upto)] if upto is not None else f_.body:
                if isinstance(st, (ast.Assign, ast.AnnAssign)):
                    pe.stmt(st)            # constants such as the directive token
            return {k: v for k, v in pe.env.items() if isinstance(v, ast.Constant)}
        base: T.Dict[str, ast.AST] = consts(fn, loop)
        if callables:
            # predicates passed into a shared driver: closures / lambdas of the calling function, inlined where they are one expression
            ofn = mod.func(outer_qn)
            oc = consts(ofn, None)
            for p_, t_ in callables.items():
                lam = t_ if isinstance(t_, ast.Lambda) else (shape.as_lambda(mod.func(t_), oc) if isinstance(t_, str) else None)
                if lam is not None:
                    base[p_] = shape.PathEnv(oc).close(lam) if isinstance(t_, ast.Lambda) else lam
        tab = _table(mod, fn, body=loop.body, handlers=False, name=qn + ':loop', base=base)
        rows = [r for r in T.cast(T.List[shape.XRow], tab.rows)
                if any(isinstance(c, ast.Call) and isinstance(c.func, ast.Name) and c.func.id in define_names for ev in r.path.events if ev.node is not None and ev.kind == 'stmt'
                       for c in ast.walk(ev.node))]
        if not rows:
            raise Undecided(f'{qn}: no path of the loop calls {define}')
        atoms: T.Dict[str, ast.AST] = {}
        for r in rows:
            for a in r.conds:
                txt = a.args[0] if a.kind == 'truth' else None
                e = _parse(repr(a)) if a.kind != 'truth' else _parse(T.cast(str, txt))
                if var in names_in(e):
                    atoms[repr(a)] = e
        ctx.floor(f'{qn}: dispatch tests on the line', len(atoms), 1)
        worst = 'blind'
        unknown: T.List[str] = []
        for txt, e in atoms.items():
            sense = _indent_sense(e, var, mod, qn)
            if sense == 'sensitive':
                worst = 'sensitive'
                ctx.violation(mod, qn, e, f'the test `{txt}` that sends a line to {define[0]} is anchored at the first character of the unstripped line: an indented '
                              f'directive is not recognised and is copied out as ordinary text, although the define transformers tokenise with split() and the sibling '
                              f'loop tolerates leading blanks', loop)
            elif sense == 'unanchored':
                worst = 'unanchored'
                ctx.violation(mod, qn, e, f'the test `{txt}` that sends a line to {define[0]} searches the directive anywhere in the line: a line with other text in front of it '
                              f'(`int x; #cmakedefine Y`) is handed to {define[0]}, which takes the second blank-separated token of the whole line for the name; the sibling loop '
                              'and the transformer only know directives at the start of a line (after blanks)', loop)
            elif sense == 'unknown':
                unknown.append(txt)
            else:
                ctx.ok(f'{qn}: dispatch test `{txt}` cannot depend on the leading blanks of the line')
        if unknown and worst not in ('sensitive', 'unanchored'):
            raise Undecided(f'{qn}: cannot tell whether the dispatch test(s) {unknown} depend on the indentation of the line')
        verdicts[outer_qn] = worst
        for txt, e in atoms.items():
            for c_ in ast.walk(e):
                if isinstance(c_, ast.Call) and isinstance(c_.func, ast.Attribute) and c_.func.attr == 'startswith' and isinstance(c_.func.value, ast.Call) and \
                        isinstance(c_.func.value.func, ast.Attribute) and c_.func.value.func.attr in ('lstrip', 'strip') and not c_.func.value.args and \
                        isinstance(c_.func.value.func.value, ast.Subscript) and isinstance(c_.func.value.func.value.slice, ast.Slice) and \
                        isinstance(c_.func.value.func.value.slice.lower, ast.Constant) and c_.func.value.func.value.slice.lower.value == 1:
                    tolerant[outer_qn] = short(c_, 80)
    # dispatcher / transformer agreement on the gap after '#': where the dispatch test skips blanks after the first character
    # (`stripped[1:].lstrip().startswith(tok)`), a test inside the define transformer must not be anchored across that gap
    for outer_qn, known in LINE_LOOPS.items():
        tol = tolerant.get(outer_qn)
        if not tol:
            continue
        for tq in sorted(k for k in known if 'define' in k):
            tf = mod.func(tq)
            lp = [a.arg for a in tf.args.args if a.annotation is not None and norm(a.annotation) == 'str']
            if len(lp) != 1:
                continue
            ttab = _table(mod, tf, handlers=True, name=tq)
            seen_a: T.Set[str] = set()
            for r in ttab.rows:
                for a in r.conds:
                    if a.kind != 'truth' or a.args[0] in seen_a:
                        continue
                    seen_a.add(a.args[0])
                    bad = _gap_anchored(_parse(a.args[0]), lp[0])
                    if bad is not None:
                        ctx.violation(mod, tq, bad, f'`{short(bad)}` in {tq} is anchored across the first character of the stripped line, but the dispatch test `{tol}` '
                                      f'skips blanks after it: a directive written with a gap (`#  cmakedefine01 X`) is sent to {tq} and then not recognised by this test', tf)
                    elif lp[0] in names_in(_parse(a.args[0])):
                        ctx.ok(f'{tq}: test `{short(a.args[0], 60)}` is not anchored across the gap the dispatcher tolerates')
    # a dispatcher that tolerates leading blanks hands indented lines to the define transformer: there, a fixed-offset index / slice into the
    # text that still starts with the indentation reads a blank where it expects the directive
    for outer_qn, known in LINE_LOOPS.items():
        if verdicts.get(outer_qn) != 'blind':
            continue
        for tq in sorted(k for k in known if 'define' in k):
            for q2 in [tq] + sorted(q for q in mod.funcs() if q.startswith(tq + '.')):
                f2 = mod.func(q2)
                lp2 = [a.arg for a in f2.args.args if a.annotation is not None and norm(a.annotation) == 'str']
                if len(lp2) != 1:
                    continue
                ld = LineDep(mod, q2, lp2[0])
                seen_s: T.Set[str] = set()
                for sub in [x for x in ast.walk(f2) if isinstance(x, ast.Subscript) and mod.enclosing_func(x) == q2]:
                    sl = sub.slice
                    fixed = (isinstance(sl, ast.Constant) and isinstance(sl.value, int)) or \
                        (isinstance(sl, ast.Slice) and isinstance(sl.lower, ast.Constant) and isinstance(sl.lower.value, int) and sl.lower.value >= 1 and sl.step is None)
                    if not fixed or norm(sub) in seen_s:
                        continue
                    if 'I' in ld.tags(sub.value):
                        seen_s.add(norm(sub))
                        ctx.violation(mod, q2, f'{norm(sub)} on the unstripped line', f'`{short(sub)}` in {q2} takes a fixed offset into `{short(sub.value, 40)}`, which still '
                                      f'begins with the leading blanks of the line, while the dispatch test of {outer_qn} strips them first: for an indented directive the offset '
                                      'hits a blank instead of the `#` (with a gap after `#`, `  # cmakedefine A`, the directive word is then taken for the variable name)', sub)
                    elif lp2[0] in names_in(sub.value):
                        seen_s.add(norm(sub))
                        ctx.ok(f'{q2}: `{short(sub)}` does not index into the indentation')
    ctx.require(len(set(verdicts.values())) == 1, f'sibling loops agree on tolerating leading blanks: {verdicts}', mod, 'do_conf_str', 'sibling dispatch tests',
                f'the two per-line loops disagree on indented directives: {verdicts}')


# ---------------------------------------------------------------------------------------------
# R8  cmake formats: an @name@ placeholder has a non-empty name (decision table of the @ arm of the scanner)
# ---------------------------------------------------------------------------------------------
def _lin(e: ast.AST) -> T.Optional[T.Tuple[str, int]]:
    """`x`, `x + 2`, `x - 1`, `3` as (base text, constant)."""
    if isinstance(e, ast.Constant) and isinstance(e.value, int) and not isinstance(e.value, bool):
        return ('', e.value)
    if isinstance(e, ast.BinOp) and isinstance(e.op, (ast.Add, ast.Sub)):
        l, r = _lin(e.left), _lin(e.right)
        if l is not None and r is not None:
            if r[0] == '':
                return (l[0], l[1] + (r[1] if isinstance(e.op, ast.Add) else -r[1]))
            if l[0] == '' and isinstance(e.op, ast.Add):
                return (r[0], l[1] + r[1])
        return None
    if isinstance(e, (ast.Name, ast.Attribute, ast.Call, ast.Subscript)):
        return (norm(e), 0)
    return None


def _linform(e: ast.AST) -> T.Optional[T.Tuple[T.Dict[str, int], int]]:
    """Integer-linear normal form of an index expression: ({opaque term text: coefficient}, constant).  `i + len(v) - 1 + 1` ->
    ({'i': 1, 'len(v)': 1}, 0).  Terms are names / calls / subscripts / attributes taken as opaque texts; anything else -> None."""
    if isinstance(e, ast.Constant) and isinstance(e.value, int) and not isinstance(e.value, bool):
        return ({}, e.value)
    if isinstance(e, ast.UnaryOp) and isinstance(e.op, (ast.USub, ast.UAdd)):
        x = _linform(e.operand)
        if x is None:
            return None
        sg = -1 if isinstance(e.op, ast.USub) else 1
        return ({t: sg * v for t, v in x[0].items()}, sg * x[1])
    if isinstance(e, ast.BinOp) and isinstance(e.op, (ast.Add, ast.Sub)):
        l, r = _linform(e.left), _linform(e.right)
        if l is None or r is None:
            return None
        sg = 1 if isinstance(e.op, ast.Add) else -1
        out = dict(l[0])
        for t, v in r[0].items():
            out[t] = out.get(t, 0) + sg * v
        return (out, l[1] + sg * r[1])
    if isinstance(e, ast.BinOp) and isinstance(e.op, ast.Mult):
        l, r = _linform(e.left), _linform(e.right)
        if l is None or r is None:
            return None
        if not l[0]:
            return ({t: l[1] * v for t, v in r[0].items()}, l[1] * r[1])
        if not r[0]:
            return ({t: r[1] * v for t, v in l[0].items()}, r[1] * l[1])
        return None
    if isinstance(e, (ast.Name, ast.Attribute, ast.Call, ast.Subscript)):
        return ({norm(e): 1}, 0)
    return None


def _cmake_family(mod: Module) -> T.List[str]:
    """The cmake scanner and everything it is made of: the function, its closures, and the methods of a record class it instantiates."""
    host = 'do_replacement_cmake'
    hf = mod.func(host)
    classes = {c.func.id for c in ast.walk(hf) if isinstance(c, ast.Call) and isinstance(c.func, ast.Name) and mod.has_cls(c.func.id)}
    return [q for q in mod.funcs() if q == host or q.startswith(host + '.') or q.split('.')[0] in classes]


def _family_name(q: str) -> str:
    """Finding keys name a member of the scanner by its role (`do_replacement_cmake.<member>`), whether it is a closure or a method of a record class."""
    host = 'do_replacement_cmake'
    return q if q == host or q.startswith(host + '.') else f'{host}.{q.split(".")[-1]}'


def _cmake_lookup(mod: Module) -> str:
    """The helper of the cmake scanner that looks a name up, by role: it calls <configuration data>.get(<its own parameter>)."""
    hits = []
    for q in _cmake_family(mod):
        f = mod.func(q)
        own = {a.arg for a in f.args.args}
        try:
            confs = _confs(mod, q)
        except Undecided:
            continue
        if any(isinstance(c, ast.Call) and isinstance(c.func, ast.Attribute) and c.func.attr == 'get' and isinstance(c.func.value, ast.Name) and c.func.value.id in confs
               and len(c.args) == 1 and isinstance(c.args[0], ast.Name) and c.args[0].id in own and mod.enclosing_func(c) == q for c in ast.walk(f)):
            hits.append(q)
    if len(hits) != 1:
        raise Undecided(f'cmake scanner: {len(hits)} helpers look a name up in the configuration data {hits}')
    return hits[0]


def r8(ctx: RuleCtx) -> None:
    mod = _mod(ctx)
    host = 'do_replacement_cmake'
    mod.func(host)
    family = _cmake_family(mod)
    confs = _confs(mod, host)
    # the lookup helper, by role: a function in the scanner that calls <conf>.get(<own parameter>)
    lookups = set()
    for q, f in mod.funcs().items():
        if q in family:
            own = {a.arg for a in f.args.args}
            for c in ast.walk(f):
                if isinstance(c, ast.Call) and isinstance(c.func, ast.Attribute) and c.func.attr == 'get' and isinstance(c.func.value, ast.Name) and \
                        c.func.value.id in confs and len(c.args) == 1 and isinstance(c.args[0], ast.Name) and c.args[0].id in own and mod.enclosing_func(c) == q:
                    lookups.add(q.split('.')[-1])
    if not lookups:
        raise Undecided(f'{host}: no helper that looks a name up in the configuration data')
    n = 0
    for q, f in mod.funcs().items():
        if q not in family:
            continue
        text_p = {a.arg for a in f.args.args if a.annotation is not None and norm(a.annotation) == 'str'}
        for node in ast.walk(f):
            if not isinstance(node, ast.If) or mod.enclosing_func(node) != q:
                continue
            at = [c for c in ast.walk(node.test) if isinstance(c, ast.Compare) and len(c.ops) == 1 and isinstance(c.ops[0], ast.Eq) and
                  any(isinstance(x, ast.Constant) and x.value == '@' for x in (c.left, c.comparators[0])) and
                  any(isinstance(x, ast.Subscript) and isinstance(x.value, ast.Name) and x.value.id in text_p and not isinstance(x.slice, ast.Slice) for x in (c.left, c.comparators[0]))]
            at += [c for c in ast.walk(node.test) if isinstance(c, ast.Call) and isinstance(c.func, ast.Attribute) and c.func.attr == 'startswith' and len(c.args) == 2
                   and isinstance(c.args[0], ast.Constant) and c.args[0].value == '@' and isinstance(c.func.value, ast.Name) and c.func.value.id in text_p]
            if not at or isinstance(node.test, ast.BoolOp) and isinstance(node.test.op, ast.Or):
                continue
            tab = _table(mod, f, body=node.body, handlers=False, unroll=1, name=q + ':@-arm')
            for r in T.cast(T.List[shape.XRow], tab.rows):
                exprs = list(r.env.values()) + list(r.calls) + ([r.value] if r.value is not None else [])
                names = {norm(c.args[0]): c.args[0] for e_ in exprs for c in ast.walk(e_)
                         if isinstance(c, ast.Call) and isinstance(c.func, ast.Name) and c.func.id in lookups and len(c.args) == 1}
                for txt, arg in names.items():
                    if not (isinstance(arg, ast.Subscript) and isinstance(arg.slice, ast.Slice) and arg.slice.step is None and isinstance(arg.value, ast.Name)
                            and arg.slice.lower is not None and arg.slice.upper is not None):
                        raise Undecided(f'{q}: the name looked up in the @ arm is `{txt}`, not a slice of the scanned text')
                    lo, hi = _lin(arg.slice.lower), _lin(arg.slice.upper)
                    if lo is None or hi is None or lo[0] == hi[0]:
                        raise Undecided(f'{q}: slice bounds of `{txt}` are not of the form name +/- constant')
                    need = 1 + lo[1] - hi[1]            # hi.base - lo.base >= need  <=>  the slice is non-empty
                    best: T.Optional[int] = None
                    direct = False
                    for a, v in r.conds.items():
                        if a.kind == 'truth' and a.args[0] == txt and v:
                            direct = True
                        if a.kind != 'cmp':
                            continue
                        x, y = _lin(_parse(a.args[1])), _lin(_parse(a.args[2]))
                        if x is None or y is None:
                            continue
                        facts: T.List[T.Tuple[T.Tuple[str, int], T.Tuple[str, int], int]] = []   # (p, q, d): q - p >= d
                        if a.args[0] == 'lt':
                            facts.append((x, y, 1) if v else (y, x, 0))
                        elif a.args[0] == 'eq' and v:
                            facts += [(x, y, 0), (y, x, 0)]
                        for p_, q_, d in facts:
                            if (q_[0], p_[0]) == (hi[0], lo[0]):
                                b = d + p_[1] - q_[1]
                                best = b if best is None else max(best, b)
                    n += 1
                    what = f'{q}: @ arm: the name `{txt}` is not empty on the path [{r.path.describe()[:90]}]'
                    if direct or (best is not None and best >= need):
                        ctx.ok(what)
                    elif best is not None:
                        ctx.violation(mod, _family_name(q), f'name slice {txt} may be empty', f'in the @ arm the name `{txt}` is looked up although the path conditions only give '
                                      f'{hi[0]} - {lo[0]} >= {best} (needed: >= {need}): for {hi[0]} == {lo[0]} + {best} the name is empty, i.e. `@@` is taken for a placeholder '
                                      'and replaced by nothing (and "" is reported as a missing variable)', r.path.events[-1].node if r.path.events else node)
                    else:
                        raise Undecided(f'{q}: no path condition relates the bounds of `{txt}`')
    ctx.floor('cmake scanner: name look-ups in the @ arm', n, 1)


# ---------------------------------------------------------------------------------------------
# R9  tokens of a directive line are only indexed under a length guard (exception escape, K9; sibling agreement with #mesondefine)
# ---------------------------------------------------------------------------------------------
def r9(ctx: RuleCtx) -> None:
    mod = _mod(ctx)
    n = 0
    unguarded: T.Dict[T.Tuple[str, str], T.Tuple[ast.Subscript, str, T.List[str]]] = {}
    for tq in sorted({k for known in LINE_LOOPS.values() for k in known if 'define' in k}):
        fn = mod.func(tq)
        lp = [a.arg for a in fn.args.args if a.annotation is not None and norm(a.annotation) == 'str']
        if len(lp) != 1:
            raise Undecided(f'{tq}: cannot identify the line parameter')
        tab = _table(mod, fn, handlers=True, name=tq)
        for r in T.cast(T.List[shape.XRow], tab.rows):
            pe = shape.PathEnv()
            # walk the path again: at every statement, the token accesses it makes and the length facts known so far
            facts: T.Dict[str, int] = {}      # closed token expression -> proven lower bound of its length
            guarded_try = False
            for ev in r.path.events:
                if ev.node is None:
                    continue
                if ev.kind == 'cond':
                    a, v = tables_canon(pe.close(ev.node), bool(ev.val))
                    if a.kind == 'cmp':
                        for x, y, first in ((a.args[1], a.args[2], True), (a.args[2], a.args[1], False)):
                            ex, ey = _parse(x), _parse(y)
                            if isinstance(ex, ast.Call) and isinstance(ex.func, ast.Name) and ex.func.id == 'len' and len(ex.args) == 1 and \
                                    isinstance(ey, ast.Constant) and isinstance(ey.value, int):
                                tok, c = norm(ex.args[0]), ey.value
                                lb: T.Optional[int] = None
                                if a.args[0] == 'eq' and v:
                                    lb = c
                                elif a.args[0] == 'lt':
                                    # first: len < c ; not first: c < len
                                    if first and not v:
                                        lb = c
                                    elif not first and v:
                                        lb = c + 1
                                if lb is not None:
                                    facts[tok] = max(facts.get(tok, 0), lb)
                    continue
                if ev.kind != 'stmt':
                    continue
                st = ev.node
                for sub in ast.walk(st):
                    if isinstance(sub, ast.Subscript) and isinstance(sub.slice, ast.Constant) and isinstance(sub.slice.value, int) and sub.slice.value >= 0 \
                            and not isinstance(getattr(sub, 'ctx', None), ast.Store):
                        base = pe.close(sub.value)
                        if not (isinstance(base, ast.Call) and isinstance(base.func, ast.Attribute) and base.func.attr == 'split' and lp[0] in names_in(base)):
                            continue
                        tok = norm(base)
                        n += 1
                        in_try = any(isinstance(t_, ast.Try) and any(sub is x for b in t_.body for x in ast.walk(b)) and
                                     any(h.type is None or {norm(z).split('.')[-1] for z in (h.type.elts if isinstance(h.type, ast.Tuple) else [h.type])} &
                                         {'IndexError', 'LookupError', 'Exception'} for h in t_.handlers) for t_ in ast.walk(fn))
                        if facts.get(tok, 0) > sub.slice.value or in_try:
                            ctx.ok(f'{tq}: `{short(sub)}` is reached only with len({short(tok, 40)}) >= {facts.get(tok, 0)} on the path [{r.path.describe()[:70]}]')
                        else:
                            unguarded.setdefault((tq, norm(sub)), (sub, tok, []))[2].append(r.path.describe()[:100])
                if not isinstance(st, (ast.Return, ast.Raise, ast.Expr)):
                    pe.stmt(st)
    for (tq, acc), (sub, tok, paths_) in unguarded.items():
        ctx.violation(mod, tq, f'{acc} without a length guard', f'`{acc}` (token {sub.slice.value} of `{short(tok, 50)}`) is evaluated on {len(paths_)} path(s), e.g. '
                      f'[{paths_[0]}], where nothing ensures that the line has more than {sub.slice.value} token(s): a directive line without a name raises '
                      f'IndexError (a Python traceback) instead of a MesonException; the #mesondefine sibling checks the token count first', sub)
    ctx.floor('token accesses in the define transformers', n, 2)
    ctx.note('closures of the define transformers are not judged separately (they are only called after the enclosing function indexed the same tokens)')


# ---------------------------------------------------------------------------------------------
# R10  cmake scanner: after a placeholder is replaced, scanning resumes behind the inserted value (decision table of the loop body)
# ---------------------------------------------------------------------------------------------
def r10(ctx: RuleCtx) -> None:
    mod = _mod(ctx)
    host = 'do_replacement_cmake'
    mod.func(host)
    family = _cmake_family(mod)
    n = 0
    scan_sites: T.List[T.Tuple[str, ast.FunctionDef, ast.While, str, str]] = []
    for q, f in mod.funcs().items():
        if q not in family:
            continue
        text_p = [a.arg for a in f.args.args if a.annotation is not None and norm(a.annotation) == 'str']
        for w in [x for x in f.body if isinstance(x, ast.While)]:
            tab = _table(mod, f, body=w.body, handlers=False, unroll=1, name=q + ':scan')
            for r in T.cast(T.List[shape.XRow], tab.rows):
                for tp in text_p:
                    ln = r.env.get(tp)
                    if not (isinstance(ln, ast.BinOp) and isinstance(ln.op, ast.Add)):
                        continue
                    # flatten  text[:i] + V + text[j:]
                    terms: T.List[ast.AST] = []

                    def flat(x: ast.AST) -> None:
                        if isinstance(x, ast.BinOp) and isinstance(x.op, ast.Add):
                            flat(x.left)
                            flat(x.right)
                        else:
                            terms.append(x)
                    flat(ln)
                    if len(terms) != 3 or not (isinstance(terms[0], ast.Subscript) and isinstance(terms[0].slice, ast.Slice) and terms[0].slice.lower is None
                                               and norm(terms[0].value) == tp and terms[0].slice.upper is not None):
                        raise Undecided(f'{q}: the scanned text is rebuilt as `{short(ln)}`, not as text[:i] + value + text[j:]')
                    pos = norm(terms[0].slice.upper)
                    if (q, f, w, tp, pos) not in scan_sites:
                        scan_sites.append((q, f, w, tp, pos))
                    val = norm(terms[1])
                    idx = r.env.get(pos)
                    n += 1
                    if r.path.outcome not in ('fall', 'continue'):
                        raise Undecided(f'{q}: splice row ends with {r.path.outcome}')
                    if idx is None:
                        ctx.ok(f'{q}: after inserting `{short(val, 50)}` at `{pos}` the position is unchanged (the inserted text is scanned next)')
                        continue
                    # idx - pos as a linear form over opaque terms: k * len(<inserted value>) + c
                    lf = _linform(idx)
                    if lf is None:
                        raise Undecided(f'{q}: scan position after a replacement is `{norm(idx)}`')
                    coef, c = lf
                    coef[pos] = coef.get(pos, 0) - 1
                    k = coef.pop(f'len({val})', 0)
                    rest = {t_: v_ for t_, v_ in coef.items() if v_}
                    if rest or k not in (0, 1) or c < 0:
                        raise Undecided(f'{q}: scan position after a replacement is `{norm(idx)}`')
                    last = r.path.events[-1].node if r.path.events else w
                    if (k, c) == (0, 0):
                        ctx.ok(f'{q}: after inserting `{short(val, 50)}` at `{pos}` the position is unchanged (the inserted text is scanned next)')
                    elif k == 0:
                        # the construct names roles, not locals: a known finding must survive a rename of the position / text / value variables
                        ctx.violation(mod, _family_name(q), f'scan position after a replacement: <pos> + {c}',
                                      f'after `{tp} = {short(ln, 90)}` the scan position becomes `{norm(idx)}`, whatever the length of the inserted value: when the value is '
                                      f'empty the character that now stands at `{pos}` (the one right after the placeholder) is never examined, so an adjacent placeholder is '
                                      f'copied out unreplaced (`@A@@B@` with A = "" gives `@B@`)', last)
                    elif c == 0:
                        ctx.ok(f'{q}: after inserting `{short(val, 50)}` scanning resumes at `{norm(idx)}`, the first character behind the inserted value')
                    else:
                        ctx.violation(mod, _family_name(q), f'scan position after a replacement: <pos> + len(<value>) + {c}',
                                      f'after `{tp} = {short(ln, 90)}` the scan position becomes `{short(idx, 90)}`: the inserted value ends at `{pos} + len(value) - 1`, so the '
                                      f'{c} character(s) right behind it are never examined; a placeholder that starts directly after the replaced one is copied out unreplaced '
                                      f'and, when undefined, not reported (`@A@@B@` with A = "x" gives `x@B@`)', last)
    ctx.floor('cmake scanner: rows that replace a placeholder', n, 1)
    # rows that replace nothing: the scan position must not be moved past a character that was located as an `@` - every `@` has to be
    # examined as the possible start of a placeholder (`a@b.org, @VAR@`: the `@` that closes the rejected span opens nothing, but the scan
    # must continue *at* it or before it, never behind it)
    for q, f, w, tp, pos in scan_sites:
        tab = _table(mod, f, body=w.body, handlers=False, unroll=1, name=q + ':scan')
        for r in T.cast(T.List[shape.XRow], tab.rows):
            if r.env.get(tp) is not None or r.outcome[0] not in ('fall', 'continue'):
                continue
            idx = r.env.get(pos)
            if idx is None:
                continue
            li = _lin(idx)
            if li is not None and li[0] == pos and li[1] == 1:
                ctx.ok(f'{q}: a row that replaces nothing advances the scan by one character [{r.path.describe()[:70]}]')
                continue
            base_e = idx.left if isinstance(idx, ast.BinOp) and isinstance(idx.op, ast.Add) and isinstance(idx.right, ast.Constant) and idx.right.value >= 1 else None
            if isinstance(base_e, ast.Call) and isinstance(base_e.func, ast.Attribute) and base_e.func.attr in ('find', 'index') and norm(base_e.func.value) == tp \
                    and base_e.args and isinstance(base_e.args[0], ast.Constant) and base_e.args[0].value == '@':
                ctx.violation(mod, _family_name(q), f'scan position moved behind a located @: {norm(idx)}',
                              f'on the path [{r.path.describe()[:110]}] nothing is replaced and the scan position becomes `{norm(idx)}`, i.e. one behind an `@` that was only '
                              f'located, not examined: that `@` can never open a placeholder (`dev@example.org, @VAR@` leaves `@VAR@` unreplaced and, when unset, unreported)',
                              r.path.events[-1].node if r.path.events else w)
            else:
                ctx.note(f'{q}: a row that replaces nothing sets the scan position to `{norm(idx)}` (not judged)')


RULES = [
    Rule('C14.R1', 'no substituted value reaches a placeholder scan (meson format)', r1),
    Rule('C14.R2', 'meson placeholder grammar: three alternatives, callback semantics', r2),
    Rule('C14.R3', 'rendering per value type (str/bool/int/other/unset)', r3),
    Rule('C14.R4a', 'per-line loops: every line appended once, at most one transformer', r4a),
    Rule('C14.R4b', 'template read and written with newline=""', r4b),
    Rule('C14.R4c', 'per-line transformers keep indentation and terminator', r4c),
    Rule('C14.R5', 'generated header: sorted keys, one emission per key', r5),
    Rule('C14.R6', 'context parameters (format switch, data, subproject) are handed on at every call of the pipeline', r6),
    Rule('C14.R7', 'dispatch tests of the per-line loops do not depend on the indentation', r7),
    Rule('C14.R8', 'cmake formats: the name of an @name@ placeholder is not empty', r8),
    Rule('C14.R9', 'tokens of a directive line are indexed only under a length guard', r9),
    Rule('C14.R10', 'cmake scanner resumes behind the inserted value', r10),
]

