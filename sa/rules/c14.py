"""C14 — template substitution (DESIGN §2 C14, data sheet A.15)."""
from __future__ import annotations

import ast
import re
import typing as T

from ..core import Module, Undecided, AnalysisError, norm, short, attr_chain, names_in, kwarg
from ..report import Rule, RuleCtx
from ..paths import enumerate_paths
from ..flow import Flow
from .. import rx
from . import c14_taint as taint
from . import c14_rxlang as rxl
from .c14_fold import Folder, SampleConf, Recorder, Namespace, FoldRaise, replay, hook, Result

U = 'mesonbuild/utils/universal.py'

EXPLANATION = (
    'Decides structural clauses of C14: R1 on every path of the meson-format pipeline (do_conf_file/do_conf_str/do_replacement and '
    'everything they call) no value read from a ConfigurationData object reaches the text argument of a placeholder scan '
    '(re.sub-family call, or a module function whose parameter reaches one) - path-sensitive must-not-flow with callee summaries; '
    'R2 the meson placeholder regex has exactly the three alternatives [even backslash run before @ | @name@ not after a backslash | '
    '\\@name\\@], each with the reference language (NFA equality), none can match blank or newline, and the callback halves runs, '
    'un-escapes, substitutes, and records a missing name on the not-in-confdata branch only; R3 per value type (str/bool/int/other/'
    'missing) the form emitted by @VAR@, ${VAR}, #mesondefine, #cmakedefine[01] and the generated header equals the documented form '
    '(rows of the decision paths selected and folded under sample bindings); R4 in the per-line loops every line is appended exactly '
    'once, unchanged or through exactly one transformer, input and output files are opened with newline="", and a per-line '
    'transformer reproduces the indentation and the terminator of its input line; R5 the generated header iterates sorted(keys) and '
    'emits once per key on every non-raising path. Does NOT decide the cmake scanner (index arithmetic over run-time strings), '
    'nor output bytes for arbitrary templates.')
ASSUMPTIONS = [
    're.sub copies the text outside matches and inserts what the callback returns without scanning it again',
    'a scan of a text without @, backslash (meson) / without @ and $ (cmake) returns the text unchanged (used to fold the define transformers)',
    'ConfigurationData.get raises KeyError for an unset name and returns (value, description) otherwise (build.py, checked in R3)',
    'text files opened with newline="" are read and written without newline translation (Python io)',
]
TECHNIQUE = 'path-sensitive taint with summaries + regex-language equality (NFA) + decision paths replayed under folded sample bindings'

NAME_CLASS = '[-a-zA-Z0-9_]'
PIPELINE_ROOTS = ['do_conf_file', 'do_conf_str', 'do_replacement']


# ---------------------------------------------------------------------------------------------
# R1  no rescanning in the meson format
# ---------------------------------------------------------------------------------------------
_R1_EXAMPLE = '''
import re
def scan(rx, text, conf: 'ConfigurationData'):
    def cb(m):
        v, _ = conf.get(m.group(1))
        return v
    return re.sub(rx, cb, text)
def twice(rx, text, conf: 'ConfigurationData'):
    once = scan(rx, text, conf)
    return scan(rx, once, conf)
def define(rx, line, conf: 'ConfigurationData'):
    name = line.split()[1]
    v, _ = conf.get(name)
    if isinstance(v, str):
        out = '#define %s %s' % (name, v)
        return scan(rx, out, conf)
    return '#define %s' % name
'''


def _r1_findings(mod: Module, roots: T.List[str]) -> T.Tuple[taint.Analysis, T.List[taint.Sink]]:
    an = taint.Analysis(mod)
    for r in roots:
        an.summary(r)
    sinks: T.List[taint.Sink] = []
    for q, s in an.summaries.items():
        sinks.extend(s.sinks)
    return an, sinks


def r1(ctx: RuleCtx) -> None:
    # built-in positive example: the analysis must see both kinds of rescanning
    ex = Module(ctx.repo, '<c14-builtin-example>', _R1_EXAMPLE)
    _, ex_sinks = _r1_findings(ex, ['twice', 'define'])
    hit = sorted({s.func for s in ex_sinks if 'V' in s.tags})
    if hit != ['define', 'twice']:
        raise AnalysisError(f'C14.R1 self-check: the built-in rescanning example is not recognised (flagged: {hit})')

    mod = ctx.repo.module(U)
    for r in PIPELINE_ROOTS:
        mod.func(r)
    an, sinks = _r1_findings(mod, PIPELINE_ROOTS)
    scans = [s for s in sinks if s.what.startswith('text of ')]
    ctx.floor('placeholder scan sites (re.sub family) in the pipeline', len(scans), 1)
    ctx.floor('call sites handing a text to a scan', len(sinks), 5)
    undecided: T.List[str] = []
    for s in sinks:
        where = f'{s.func}: {short(s.call)} [{s.what}]'
        if 'V' in s.tags:
            ctx.violation(mod, s.func, s.call,
                          f'a value read from the configuration data reaches {s.what}, i.e. the text scanned by {s.root}: '
                          f'the substituted value is scanned for placeholders again (path: {s.path})', s.call)
        elif any(t.startswith('U:') for t in s.tags):
            undecided.append(f'{where}: text may come from unknown callee(s) {sorted(t[2:] for t in s.tags if t.startswith("U:"))} that received the configuration data')
        else:
            ctx.ok(f'{where}: text carries {sorted(s.tags) or "only constants"}, no configuration value on any path')
    n_paths = sum(s.paths for s in an.summaries.values())
    ctx.note(f'{len(an.summaries)} functions summarised, {n_paths} paths; functions analysed path-sensitively: '
             f'{sorted(q for q, s in an.summaries.items() if s.paths)}')
    if undecided:
        raise Undecided('; '.join(undecided))


# ---------------------------------------------------------------------------------------------
# shared: the meson regex, folded from get_variable_regex
# ---------------------------------------------------------------------------------------------
def _re_namespace() -> Namespace:
    ns = Namespace({k: getattr(re, k) for k in ('VERBOSE', 'X', 'IGNORECASE', 'I', 'MULTILINE', 'M', 'DOTALL', 'S', 'ASCII', 'A')})
    ns['compile'] = hook(lambda p, flags=0: re.compile(p, flags))
    return ns


def _variable_regex(mod: Module, fmt: str) -> 're.Pattern[str]':
    fn = mod.func('get_variable_regex')
    params = [a.arg for a in fn.args.args]
    if len(params) != 1:
        raise Undecided('get_variable_regex: expected one parameter (the format)')
    res = replay(fn.body, {params[0]: fmt, 're': _re_namespace()}, Folder())
    if res.kind != 'return' or not isinstance(res.value, re.Pattern):
        raise Undecided(f'get_variable_regex({fmt!r}) does not fold to a compiled pattern ({res.kind} {res.value!r})')
    return res.value


def _alternatives(pat: 're.Pattern[str]') -> T.Tuple[T.Any, T.List[T.List[T.Any]]]:
    tree = rx.parse(pat.pattern, pat.flags & ~re.UNICODE)
    return tree, rx.branch_alternatives(pat.pattern, pat.flags & ~re.UNICODE)


def _classify(tree: T.Any, alts: T.List[T.List[T.Any]]) -> T.Dict[str, T.Tuple[T.List[T.Any], T.List[T.Any], T.List[T.Any]]]:
    gd = dict(tree.state.groupdict)
    out: T.Dict[str, T.Tuple[T.List[T.Any], T.List[T.Any], T.List[T.Any]]] = {}
    for items in alts:
        lead, body, trail = rxl.split_lookaround(items)
        kinds = [name for name, gid in gd.items() if rxl.find_group(body, gid) is not None]
        kind = kinds[0] if len(kinds) == 1 else ('run' if not kinds else '+'.join(sorted(kinds)))
        if kind in out:
            raise Undecided(f'two alternatives of the meson regex are of kind {kind}')
        out[kind] = (lead, body, trail)
    return out


def _assert_lang(item: T.Any) -> T.Tuple[str, int, T.List[T.Any]]:
    op, (direction, sub) = item
    return ('not' if op is rx.sre_c.ASSERT_NOT else 'yes', direction, list(sub))


# ---------------------------------------------------------------------------------------------
# R2  placeholder grammar
# ---------------------------------------------------------------------------------------------
def _closure_env(mod: Module, outer: str, conf: SampleConf, folder: Folder) -> T.Dict[str, T.Any]:
    """Sample bindings for the free variables of a function nested in `outer`: the enclosing function's
    ConfigurationData parameter, the sets it creates (`x = set()`), and mlog."""
    ofn = mod.func(outer)
    conf_names = [a.arg for a in ofn.args.args if a.annotation is not None and 'ConfigurationData' in norm(a.annotation)]
    if len(conf_names) != 1:
        raise Undecided(f'{outer}: expected exactly one ConfigurationData parameter')
    env: T.Dict[str, T.Any] = {conf_names[0]: conf, 'mlog': Recorder('mlog', folder.effects), 're': _re_namespace()}
    # straight-line bindings of the enclosing function (sets it creates, aliases, compiled patterns)
    for st in ofn.body:
        if isinstance(st, (ast.Assign, ast.AnnAssign)):
            try:
                folder.stmt(st, env)
            except (Undecided, FoldRaise):
                pass
    return env


def _single_def(fn: ast.FunctionDef, e: ast.AST) -> ast.AST:
    """Resolve a local name with exactly one definition in fn (not in nested defs) to its defining expression."""
    seen = 0
    while isinstance(e, ast.Name) and seen < 4:
        seen += 1
        params = {a.arg for a in fn.args.args}
        defs = Flow(fn, nested=False).defs.get(e.id, [])
        if e.id in params or len(defs) != 1:
            break
        e = defs[0]
    return e


def _call_nested(mod: Module, outer: str, inner: str, arg: T.Any, conf: SampleConf) -> T.Tuple[Result, Folder]:
    fn = mod.func(f'{outer}.{inner}')
    folder = Folder()
    env = _closure_env(mod, outer, conf, folder)
    ps = [a.arg for a in fn.args.args]
    if len(ps) != 1:
        raise Undecided(f'{outer}.{inner}: expected one parameter')
    env[ps[0]] = arg
    return replay(fn.body, env, folder), folder


def _call_callback(mod: Module, outer: str, cb: str, m: 're.Match[str]', conf: SampleConf) -> T.Tuple[Result, Folder]:
    return _call_nested(mod, outer, cb, m, conf)


def _scan_call(mod: Module, qn: str) -> T.Tuple[ast.Call, str, ast.AST]:
    """The single re.sub-family call of qn: (call, callback name, text expression)."""
    fn = mod.func(qn)
    calls = [c for c in ast.walk(fn) if isinstance(c, ast.Call) and (attr_chain(c.func) in taint.SCAN_FUNCS or
             (isinstance(c.func, ast.Attribute) and c.func.attr in taint.SCAN_METHODS and not (attr_chain(c.func) or '').startswith('re.')))]
    if len(calls) != 1:
        raise Undecided(f'{qn}: expected exactly one re.sub-family call, found {len(calls)}')
    c = calls[0]
    if attr_chain(c.func) in taint.SCAN_FUNCS:
        rest = c.args[1:]
    else:
        rest = c.args
    if len(rest) < 2 or not isinstance(rest[0], ast.Name):
        raise Undecided(f'{qn}: scan call with unrecognised arguments: {short(c)}')
    return c, rest[0].id, rest[1]


def r2(ctx: RuleCtx) -> None:
    mod = ctx.repo.module(U)
    pat = _variable_regex(mod, 'meson')
    tree, alts = _alternatives(pat)
    gfn = mod.func('get_variable_regex')
    ctx.floor('alternatives of the meson placeholder regex', len(alts), 3)
    ctx.require(len(alts) == 3, 'meson regex has three alternatives', mod, 'get_variable_regex', 'meson placeholder regex: alternatives',
                f'the meson placeholder regex has {len(alts)} top-level alternatives; the grammar is [backslash run | @name@ | \\@name\\@]', gfn)
    kinds = _classify(tree, alts)
    gd = dict(tree.state.groupdict)

    def lang(kind: str, what: str, items: T.List[T.Any], ref: str) -> None:
        d = rxl.difference(items, ref)
        ctx.require(d is None, f'{kind} alternative: {what} has the language {ref}', mod, 'get_variable_regex', f'meson placeholder regex: {kind}: {what}',
                    f'{what} of the {kind} alternative differs from the reference language {ref}: ' +
                    (f'{d[0]!r} is matched {"by the code only" if d[1] == "only-code" else "by the reference only"}' if d else ''), gfn)

    # @name@, not right after a backslash
    if 'variable' in kinds:
        lead, body, trail = kinds['variable']
        lang('variable', 'body', body, f'@{NAME_CLASS}+@')
        lang('variable', 'group `variable`', rxl.find_group(body, gd['variable']), f'{NAME_CLASS}+')
        la = [_assert_lang(x) for x in lead]
        ok = len(la) == 1 and la[0][0] == 'not' and la[0][1] < 0 and rxl.difference(la[0][2], r'\\') is None and not trail
        ctx.require(ok, 'variable alternative: guarded by a negative look-behind for one backslash, no look-ahead', mod, 'get_variable_regex',
                    'meson placeholder regex: variable: look-around', 'the @name@ alternative must be guarded by (?<!\\\\) only (an escaped \\@name@ is not a placeholder)', gfn)
    else:
        ctx.violation(mod, 'get_variable_regex', 'meson placeholder regex: variable', f'no alternative captures the group `variable` (kinds: {sorted(kinds)})', gfn)
    # \@name\@
    if 'escaped' in kinds:
        lead, body, trail = kinds['escaped']
        lang('escaped', 'body', body, rf'\\@{NAME_CLASS}+\\@')
        lang('escaped', 'group `escaped`', rxl.find_group(body, gd['escaped']), rf'\\@{NAME_CLASS}+\\@')
        ctx.require(not lead and not trail, 'escaped alternative: no look-around', mod, 'get_variable_regex', 'meson placeholder regex: escaped: look-around',
                    'the \\@name\\@ alternative must not be conditioned by look-around', gfn)
    else:
        ctx.violation(mod, 'get_variable_regex', 'meson placeholder regex: escaped', f'no alternative captures the group `escaped` (kinds: {sorted(kinds)})', gfn)
    # even run of backslashes in front of @ or \@
    if 'run' in kinds:
        lead, body, trail = kinds['run']
        lang('run', 'body', body, r'(?:\\\\)+')
        ta = [_assert_lang(x) for x in trail]
        ok = not lead and len(ta) == 1 and ta[0][0] == 'yes' and ta[0][1] > 0 and rxl.difference(ta[0][2], r'\\?@') is None
        ctx.require(ok, 'run alternative: look-ahead for @ or \\@, no look-behind', mod, 'get_variable_regex', 'meson placeholder regex: run: look-around',
                    'the backslash-run alternative must be followed (look-ahead) by an optional backslash and @', gfn)
    else:
        ctx.violation(mod, 'get_variable_regex', 'meson placeholder regex: run', f'no alternative without a named group (kinds: {sorted(kinds)})', gfn)
    extra = sorted(set(kinds) - {'variable', 'escaped', 'run'})
    if extra:
        raise Undecided(f'meson regex: alternatives of unknown kind {extra}')
    # no alternative can consume blanks or line terminators (R4 relies on it)
    for kind, (lead, body, trail) in kinds.items():
        bad = [c for c in ' \t\r\n' if rxl.can_contain(body, c)]
        ctx.require(not bad, f'{kind} alternative cannot match blank / CR / LF', mod, 'get_variable_regex', f'meson placeholder regex: {kind}: whitespace',
                    f'the {kind} alternative can match {bad!r}: indentation or the line terminator could be consumed by a placeholder', gfn)

    # the scan: one re.sub with the callback, no count limit, result and the set of missing names returned
    call, cbname, text = _scan_call(mod, 'do_replacement_meson')
    fn = mod.func('do_replacement_meson')
    nargs = len(call.args) + len(call.keywords)
    ctx.require(nargs == 3 and not call.keywords, 'do_replacement_meson: re.sub(regex, callback, line) without count/flags', mod, 'do_replacement_meson', call,
                'the scan must replace every match (no count limit, no extra flags)', call)
    if not mod.has_func(f'do_replacement_meson.{cbname}'):
        raise Undecided(f'do_replacement_meson: replacement `{cbname}` is not a nested function')

    # callback semantics on one real match of every kind (Match objects produced by the folded pattern)
    conf = SampleConf({'FOO': ('VAL', None)})

    def sample(textv: str, want_match: str, want: str, want_missing: T.List[str], what: str) -> None:
        m = pat.search(textv)
        if m is None or m.group(0) != want_match:
            ctx.violation(mod, 'get_variable_regex', f'meson placeholder regex on {textv!r}',
                          f'first match in {textv!r} is {m.group(0) if m else None!r}; the grammar requires {want_match!r}', gfn)
            return
        res, folder = _call_callback(mod, 'do_replacement_meson', cbname, m, conf)
        adds = [list(a) for n, a in folder.effects if n.endswith('.add')]
        got = (res.kind, res.value, [x for a in adds for x in a])
        ctx.require(got == ('return', want, want_missing), f'callback on {want_match!r} ({what}) -> {want!r}, missing {want_missing}', mod,
                    f'do_replacement_meson.{cbname}', f'callback: {what}',
                    f'for the match {want_match!r} ({what}) the callback yields {got[0]} {got[1]!r} and records {got[2]} as missing; expected {want!r} and {want_missing}',
                    res.path.events[-1].node if res.path and res.path.events else fn)

    bs = '\\'
    for n in (2, 3, 4, 5, 6):
        keep = n - n % 2
        sample(bs * n + '@FOO@', bs * keep, bs * (keep // 2), [], f'run of {n} backslashes before @: {keep} consumed, halved')
    sample(bs + '@a-b_9' + bs + '@', bs + '@a-b_9' + bs + '@', '@a-b_9@', [], 'escaped placeholder is un-escaped, not substituted')
    sample('x @FOO@ y', '@FOO@', 'VAL', [], 'set name is substituted, nothing recorded')
    sample('x @NO-pe_1@ y', '@NO-pe_1@', '', ['NO-pe_1'], 'unset name yields the empty string and is recorded')
    # the set the callback fills is the one returned
    rets = [s for s in fn.body if isinstance(s, ast.Return)]
    ok = len(rets) == 1 and isinstance(rets[0].value, ast.Tuple) and len(rets[0].value.elts) == 2 and _single_def(fn, rets[0].value.elts[0]) is call
    miss = norm(rets[0].value.elts[1]) if ok else '?'
    cb = mod.func(f'do_replacement_meson.{cbname}')
    recv = {norm(c.func.value) for c in ast.walk(cb) if isinstance(c, ast.Call) and isinstance(c.func, ast.Attribute) and c.func.attr == 'add'}  # type: ignore[attr-defined]
    ctx.require(ok and recv == {miss}, 'do_replacement_meson returns (scan result, the set the callback records into)', mod, 'do_replacement_meson',
                rets[0] if rets else fn, f'the function must return (re.sub(...), {sorted(recv)}); it returns {norm(rets[0].value) if rets else "nothing"}')


# ---------------------------------------------------------------------------------------------
# R3  rendering tables
# ---------------------------------------------------------------------------------------------
OTHER = ['not', 'a', 'scalar']      # a value that is neither str, bool nor int
VALUES: T.List[T.Tuple[str, T.Any]] = [('str', 'VAL'), ('true', True), ('false', False), ('int', 7), ('zero', 0), ('other', OTHER), ('unset', None)]


def _conf(kind: str, val: T.Any, name: str = 'FOO', desc: T.Optional[str] = None) -> SampleConf:
    return SampleConf({} if kind == 'unset' else {name: (val, desc)})


def _identity_scan(forbidden: str) -> T.Callable[..., T.Any]:
    def f(*args: T.Any) -> T.Any:
        texts = [a for a in args if isinstance(a, str)]
        if len(texts) != 1:
            raise Undecided('scan model: cannot identify the text argument')
        if any(c in texts[0] for c in forbidden):
            raise Undecided(f'scan model: sample text {texts[0]!r} contains placeholder characters')
        return (texts[0], set())
    return f


HOOKS = {'do_replacement_meson': _identity_scan('@\\'), 'do_replacement_cmake': _identity_scan('@$')}


def _define(mod: Module, qn: str, line: str, conf: SampleConf) -> Result:
    fn = mod.func(qn)
    env: T.Dict[str, T.Any] = {}
    for a in fn.args.args:
        ann = norm(a.annotation) if a.annotation is not None else ''
        if 'ConfigurationData' in ann:
            env[a.arg] = conf
        elif 'Pattern' in ann:
            env[a.arg] = None
        elif ann == 'str':
            env[a.arg] = line
        elif ann == 'bool':
            env[a.arg] = False
        elif 'Optional' in ann:
            env[a.arg] = None
        else:
            raise Undecided(f'{qn}: parameter {a.arg}: {ann} has no sample binding')
    return replay(fn.body, env, Folder(HOOKS))


def _header_env(mod: Module, hd: ast.FunctionDef, folder: Folder, data: SampleConf, fmt: str, macro: T.Optional[str]) -> T.Dict[str, T.Any]:
    if [a.arg for a in hd.args.args] != ['ofile', 'cdata', 'output_format', 'macro_name']:
        raise Undecided('_dump_c_header: parameter list changed')
    env: T.Dict[str, T.Any] = {'ofile': Recorder('ofile', folder.effects), 'cdata': data, 'output_format': fmt, 'macro_name': macro}
    for n in ast.walk(hd):
        if isinstance(n, ast.Name) and n.id.isupper() and len(n.id) > 1 and n.id not in env and mod.has_assign(n.id):
            v = mod.assign_value(n.id)
            if not (isinstance(v, ast.Constant) and isinstance(v.value, str)):
                raise Undecided(f'{n.id} is not a string literal')
            env[n.id] = v.value
    return env


def _show(r: Result) -> str:
    if r.kind == 'return':
        return repr(r.value)
    return f'{r.kind} {r.value}'


def r3(ctx: RuleCtx) -> None:
    mod = ctx.repo.module(U)
    n = 0

    def expect(qn: str, what: str, res: Result, want: T.Tuple[str, T.Any], node: T.Optional[ast.AST] = None, strip: bool = True) -> None:
        nonlocal n
        n += 1
        got: T.Tuple[str, T.Any] = (res.kind, res.value.strip() if strip and isinstance(res.value, str) else res.value)
        wtxt = repr(want[1]) if want[0] == 'return' else f'{want[0]} {want[1]}'
        ctx.require(got == want, f'{qn}: {what} -> {wtxt}', mod, qn, f'rendering: {what}',
                    f'{what}: the code yields {_show(res)}; documented form: {wtxt}',
                    node or (res.path.events[-1].node if res.path and res.path.events else mod.func(qn)))

    # @VAR@ (meson) -----------------------------------------------------------------------
    pat = _variable_regex(mod, 'meson')
    _, cbname, _ = _scan_call(mod, 'do_replacement_meson')
    m = pat.search('@FOO@')
    if m is None:
        raise Undecided('meson regex does not match @FOO@')
    ref_at = {'str': ('return', 'VAL'), 'true': ('return', 'True'), 'false': ('return', 'False'), 'int': ('return', '7'), 'zero': ('return', '0'),
              'other': ('raise', 'MesonException'), 'unset': ('return', '')}
    for kind, val in VALUES:
        res, folder = _call_callback(mod, 'do_replacement_meson', cbname, m, _conf(kind, val))
        expect(f'do_replacement_meson.{cbname}', f'@FOO@ with FOO {kind} ({val!r})', res, ref_at[kind], strip=False)
        if kind in ('true', 'false'):
            dep = [e for e in folder.effects if e[0] == 'mlog.deprecation']
            ctx.require(len(dep) == 1, f'@FOO@ with a boolean: deprecation notice ({kind})', mod, f'do_replacement_meson.{cbname}', 'rendering: boolean deprecation',
                        'substituting a boolean must emit the deprecation notice exactly once')
    # ${VAR} / @VAR@ (cmake): variable_get ----------------------------------------------------
    mod.func('do_replacement_cmake.variable_get')
    ref_cm = dict(ref_at, true=('return', '1'), false=('return', '0'))
    for kind, val in VALUES:
        res, folder = _call_nested(mod, 'do_replacement_cmake', 'variable_get', 'FOO', _conf(kind, val))
        expect('do_replacement_cmake.variable_get', f'${{FOO}} with FOO {kind} ({val!r})', res, ref_cm[kind], strip=False)
        adds = [list(a) for nme, a in folder.effects if nme.endswith('.add')]
        ctx.require(adds == ([['FOO']] if kind == 'unset' else []), f'variable_get: missing recorded iff unset ({kind})', mod, 'do_replacement_cmake.variable_get',
                    'missing-name bookkeeping', f'for FOO {kind} the names recorded as missing are {adds}')
    # #mesondefine -----------------------------------------------------------------------------
    ref_md = {'str': ('return', '#define FOO VAL'), 'true': ('return', '#define FOO'), 'false': ('return', '#undef FOO'), 'int': ('return', '#define FOO 7'),
              'zero': ('return', '#define FOO 0'), 'other': ('raise', 'MesonException'), 'unset': ('return', '/* #undef FOO */')}
    for kind, val in VALUES:
        expect('do_define_meson', f'#mesondefine FOO with FOO {kind} ({val!r})', _define(mod, 'do_define_meson', '#mesondefine FOO\n', _conf(kind, val)), ref_md[kind])
    for bad in ('#mesondefine\n', '#mesondefine FOO BAR\n'):
        expect('do_define_meson', f'malformed line {bad!r}', _define(mod, 'do_define_meson', bad, _conf('str', 'VAL')), ('raise', 'MesonException'))
    # #cmakedefine / #cmakedefine01 --------------------------------------------------------------
    truthy = {'str': True, 'true': True, 'false': False, 'int': True, 'zero': False, 'other': True, 'unset': False}
    for kind, val in VALUES:
        t = truthy[kind]
        expect('do_define_cmake', f'#cmakedefine FOO with FOO {kind} ({val!r})', _define(mod, 'do_define_cmake', '#cmakedefine FOO\n', _conf(kind, val)),
               ('return', '#define FOO' if t else '/* #undef FOO */'))
        expect('do_define_cmake', f'#cmakedefine FOO xxx yyy with FOO {kind} ({val!r})', _define(mod, 'do_define_cmake', '#cmakedefine FOO xxx yyy\n', _conf(kind, val)),
               ('return', '#define FOO xxx yyy' if t else '/* #undef FOO */'))
        expect('do_define_cmake', f'#cmakedefine01 FOO with FOO {kind} ({val!r})', _define(mod, 'do_define_cmake', '#cmakedefine01 FOO\n', _conf(kind, val)),
               ('return', '#define FOO 1' if t else '#define FOO 0'))
    # generated header ----------------------------------------------------------------------------
    hd = mod.func('_dump_c_header')
    for fmt, pre, com in (('c', '#', lambda d: f'/* {d} */\n'), ('nasm', '%', lambda d: f'; {d}\n')):
        for macro in (None, 'GUARD_H'):
            for kind, val in VALUES:
                if kind == 'unset':
                    continue
                for desc in (None, 'about FOO'):
                    folder = Folder()
                    env = _header_env(mod, hd, folder, SampleConf({'FOO': (val, desc)}), fmt, macro)
                    res = replay(hd.body, env, folder, unroll=1)
                    writes = [a[0] for nme, a in folder.effects if nme == 'ofile.write']
                    body = ''.join(writes[1:])
                    tail = '#endif\n' if fmt == 'c' and macro else ''
                    c = com(desc) if desc else ''
                    if kind == 'other':
                        want_k, want_body = 'raise', None
                    elif kind in ('true', 'false'):
                        want_k, want_body = 'fall', c + f'{pre}{"define" if val else "undef"} FOO\n\n' + tail
                    else:
                        want_k, want_body = 'fall', c + f'{pre}define FOO {val}\n\n' + tail
                    n += 1
                    ok = res.kind == want_k and (want_body is None or body == want_body) and (res.kind != 'raise' or res.value == 'MesonException')
                    ctx.require(ok, f'_dump_c_header[{fmt}, macro={macro}, desc={desc!r}]: FOO {kind} -> {want_body!r}', mod, '_dump_c_header',
                                f'rendering: header entry for a {kind} value ({fmt})',
                                f'format {fmt}, FOO={val!r}, description {desc!r}: the code {res.kind}s after writing {body!r}; documented: {want_k} {want_body!r}', hd)
    ctx.floor('rendering samples evaluated', n, 90)
    # ConfigurationData.get contract used by the samples
    b = ctx.repo.module('mesonbuild/build.py')
    g = b.func('ConfigurationData.get')
    ok = len(g.body) == 1 and isinstance(g.body[0], ast.Return) and norm(g.body[0].value) == f'self.values[{g.args.args[1].arg}]'
    ctx.require(ok, 'ConfigurationData.get(name) is self.values[name] (KeyError when unset)', b, 'ConfigurationData.get', g,
                'the rendering samples assume get() indexes the dict (raising KeyError for an unset name)')


# ---------------------------------------------------------------------------------------------
# R4  bytes outside placeholders are copied
# ---------------------------------------------------------------------------------------------
LINE_LOOPS = {'do_conf_str_meson': {'do_define_meson', 'do_replacement_meson'}, 'do_conf_str_cmake': {'do_define_cmake', 'do_replacement_cmake'}}


def _line_loop(ctx: RuleCtx, mod: Module, qn: str) -> T.Set[str]:
    fn = mod.func(qn)
    params = [a.arg for a in fn.args.args]
    rets = [s for s in ast.walk(fn) if isinstance(s, ast.Return)]
    if len(rets) != 1 or rets[0] not in fn.body or not isinstance(rets[0].value, ast.Tuple) or not all(isinstance(e, ast.Name) for e in rets[0].value.elts[:2]):
        raise Undecided(f'{qn}: expected a single `return lines, missing, ...` at the end')
    res_name, miss_name = rets[0].value.elts[0].id, rets[0].value.elts[1].id  # type: ignore[attr-defined]
    stores = [n for n in ast.walk(fn) if isinstance(n, ast.Name) and n.id == res_name and isinstance(n.ctx, ast.Store)]
    muts = [c for c in ast.walk(fn) if isinstance(c, ast.Call) and isinstance(c.func, ast.Attribute) and norm(c.func.value) == res_name]
    if len(stores) != 1 or any(c.func.attr != 'append' for c in muts):  # type: ignore[attr-defined]
        raise Undecided(f'{qn}: the result list `{res_name}` is rebound or changed by something else than append')
    loops = [s for s in fn.body if isinstance(s, ast.For) and any(c in muts for c in ast.walk(s))]
    if len(loops) != 1 or len([c for c in muts if any(c is x for x in ast.walk(loops[0]))]) != len(muts):
        raise Undecided(f'{qn}: expected exactly one top-level loop appending to `{res_name}`')
    loop = loops[0]
    ctx.require(isinstance(loop.iter, ast.Name) and loop.iter.id in params and isinstance(loop.target, ast.Name),
                f'{qn}: the loop visits every element of the parameter `{norm(loop.iter)}`', mod, qn, loop.iter,
                f'the per-line loop iterates `{norm(loop.iter)}`, not the list of input lines itself: lines can be skipped or reordered', loop)
    if not isinstance(loop.target, ast.Name):
        raise Undecided(f'{qn}: loop target is not a name')
    var = loop.target.id
    used: T.Set[str] = set()
    paths = enumerate_paths(loop.body, unroll=1)
    n = 0
    for p in paths:
        if p.outcome == 'raise':
            continue
        n += 1
        where = p.describe()[:160]
        last = p.events[-1].node if p.events else loop
        if p.outcome in ('break', 'return'):
            ctx.violation(mod, qn, last or loop, f'the per-line loop can be left early ({p.outcome}) on the path [{where}]: the remaining lines are dropped', last)
            continue
        chain: T.Dict[str, T.List[str]] = {var: []}
        appended: T.List[T.Tuple[str, T.List[str]]] = []
        aux: T.Dict[str, str] = {}
        updated: T.List[str] = []
        for ev in p.events:
            st = ev.node
            if ev.kind != 'stmt' or st is None:
                continue
            if isinstance(st, ast.Assign) and len(st.targets) == 1:
                tg = st.targets[0]
                first = tg.elts[0] if isinstance(tg, ast.Tuple) and tg.elts else tg
                val = st.value
                if isinstance(val, ast.Call) and isinstance(val.func, ast.Name) and mod.has_func(val.func.id):
                    arg_tracked = [a for a in val.args if isinstance(a, ast.Name) and a.id in chain]
                    if arg_tracked and isinstance(first, ast.Name):
                        if len(arg_tracked) != 1:
                            raise Undecided(f'{qn}: {short(st)} receives the line twice')
                        chain[first.id] = chain[arg_tracked[0].id] + [val.func.id]
                        used.add(val.func.id)
                        if isinstance(tg, ast.Tuple):
                            for e in tg.elts[1:]:
                                if isinstance(e, ast.Name):
                                    aux[e.id] = val.func.id
                        continue
                for nm in ([first.id] if isinstance(first, ast.Name) else []):
                    if nm in chain:
                        raise Undecided(f'{qn}: the line variable `{nm}` is rebound by `{short(st)}` (not a call of a module-level transformer)')
            elif isinstance(st, ast.Expr) and isinstance(st.value, ast.Call) and isinstance(st.value.func, ast.Attribute):
                c = st.value
                recv = norm(c.func.value)  # type: ignore[attr-defined]
                if recv == res_name and c.func.attr == 'append':  # type: ignore[attr-defined]
                    if len(c.args) != 1 or not isinstance(c.args[0], ast.Name) or c.args[0].id not in chain:
                        raise Undecided(f'{qn}: `{short(c)}` appends something that is not the line variable')
                    appended.append((c.args[0].id, chain[c.args[0].id]))
                elif recv == miss_name and c.func.attr == 'update' and len(c.args) == 1 and isinstance(c.args[0], ast.Name):  # type: ignore[attr-defined]
                    updated.append(c.args[0].id)
        if len(appended) != 1:
            ctx.violation(mod, qn, f'append to {res_name}: {len(appended)} on a path', f'on the path [{where}] the line is appended {len(appended)} times (must be exactly once)', last)
            continue
        nm, ch = appended[0]
        if len(ch) > 1:
            ctx.violation(mod, qn, f'line through {" -> ".join(ch)}', f'on the path [{where}] the line passes through {len(ch)} transformers ({" -> ".join(ch)}) before it is appended', last)
            continue
        # names missing from a replacement transformer must be accumulated
        need = [a for a, f in aux.items() if f in ch]
        lost = [a for a in need if a not in updated]
        if lost:
            ctx.violation(mod, qn, f'missing names of {ch[0]} not accumulated', f'on the path [{where}] the names reported missing by {ch[0]} ({lost}) are not added to `{miss_name}`', last)
            continue
        ctx.ok(f'{qn}: path [{where}]: line appended once, ' + (f'through {ch[0]}' if ch else 'unchanged') + ('' if not need else f', missing names accumulated into {miss_name}'))
    ctx.floor(f'{qn}: non-raising paths through the per-line loop', n, 2)
    return used


def r4a(ctx: RuleCtx) -> None:
    mod = ctx.repo.module(U)
    for qn, known in LINE_LOOPS.items():
        used = _line_loop(ctx, mod, qn)
        if not used <= known:
            raise Undecided(f'{qn}: unknown per-line transformer(s) {sorted(used - known)} (R4c has no model for them)')
        ctx.require(used == known, f'{qn}: transformers used are {sorted(known)}', mod, qn, f'transformers of {qn}',
                    f'the loop uses {sorted(used)}; the define transformer and the replacement transformer are both required ({sorted(known)})')
    # the dispatcher hands lines and result through unchanged
    d = mod.func('do_conf_str')
    for c in [c for c in ast.walk(d) if isinstance(c, ast.Call) and isinstance(c.func, ast.Name) and c.func.id in LINE_LOOPS]:
        ret_direct = any(isinstance(s, ast.Return) and s.value is c for s in ast.walk(d))
        data_arg = c.args[1] if len(c.args) > 1 else kwarg(c, 'data')
        ok = ret_direct and isinstance(data_arg, ast.Name) and data_arg.id == d.args.args[1].arg
        ctx.require(ok, f'do_conf_str -> {c.func.id}: lines passed and result returned unchanged', mod, 'do_conf_str', c,  # type: ignore[attr-defined]
                    'the dispatcher must pass its list of lines and return the callee result unchanged', c)


def _open_calls(fn: ast.AST) -> T.List[T.Tuple[ast.With, ast.Call, str]]:
    out = []
    for w in ast.walk(fn):
        if isinstance(w, ast.With):
            for it in w.items:
                c = it.context_expr
                if isinstance(c, ast.Call) and attr_chain(c.func) == 'open' and isinstance(it.optional_vars, ast.Name):
                    out.append((w, c, it.optional_vars.id))
    return out


def r4b(ctx: RuleCtx) -> None:
    mod = ctx.repo.module(U)
    fn = mod.func('do_conf_file')
    fl = Flow(fn)
    opens = _open_calls(fn)
    reads, writes = [], []
    for w, c, f in opens:
        mode = c.args[1] if len(c.args) > 1 else kwarg(c, 'mode')
        m = mode.value if isinstance(mode, ast.Constant) else ('r' if mode is None else None)
        if m is None:
            raise Undecided(f'do_conf_file: open mode is not a literal: {short(c)}')
        (writes if any(x in m for x in 'wax+') else reads).append((w, c, f, m))
    ctx.floor('do_conf_file: open() for reading / writing', min(len(reads), len(writes)), 1)
    for w, c, f, m in reads + writes:
        nl = kwarg(c, 'newline')
        ok = isinstance(nl, ast.Constant) and nl.value == ''
        ctx.require(ok and 'b' not in m, f'do_conf_file: {short(c)}: text mode with newline=""', mod, 'do_conf_file', c,
                    f'`{short(c)}` does not pass newline="": Python translates line terminators ' +
                    ('on input (\\r\\n and \\r become \\n)' if (w, c, f, m) in reads else 'on output (\\n becomes os.linesep)') +
                    ', so line endings of the template are not copied', c)
    # template lines: f.readlines() of the src file reach the `data` argument of do_conf_str
    calls = [c for c in ast.walk(fn) if isinstance(c, ast.Call) and isinstance(c.func, ast.Name) and c.func.id == 'do_conf_str']
    if len(calls) != 1:
        raise Undecided('do_conf_file: expected one call of do_conf_str')
    data = calls[0].args[1] if len(calls[0].args) > 1 else kwarg(calls[0], 'data')
    src_p, dst_p = fn.args.args[0].arg, fn.args.args[1].arg
    o = fl.origins(data) if data is not None else set()
    rd = [(w, c, f, m) for (w, c, f, m) in reads if f'call:{f}.readlines' in o]
    allowed_r = {f'call:{f}.readlines' for _, _, f, _ in rd} | {'call:open', 'const'} | {f'param:{a.arg}' for a in fn.args.args}
    ok = len(rd) == 1 and o <= allowed_r and f'param:{src_p}' in fl.origins(rd[0][1].args[0])
    ctx.require(ok, 'do_conf_file: the lines given to do_conf_str are exactly readlines() of the source file', mod, 'do_conf_file', calls[0],
                f'the `data` argument of do_conf_str has origins {sorted(o)}; it must be <file>.readlines() of open({src_p}, newline="") and nothing else '
                '(readlines keeps every terminator)', calls[0])
    # result lines: written with writelines / write(''.join(..)) to the file that is then moved to dst
    wcalls = []
    for w, c, f, m in writes:
        for x in ast.walk(w):
            if isinstance(x, ast.Call) and isinstance(x.func, ast.Attribute) and norm(x.func.value) == f and x.func.attr in ('writelines', 'write'):
                wcalls.append((x, c))
    if len(wcalls) != 1:
        raise Undecided(f'do_conf_file: expected exactly one write of the result, found {len(wcalls)}')
    wc, oc = wcalls[0]
    arg = wc.args[0]
    if wc.func.attr == 'write':  # type: ignore[attr-defined]
        if not (isinstance(arg, ast.Call) and isinstance(arg.func, ast.Attribute) and arg.func.attr == 'join' and isinstance(arg.func.value, ast.Constant)
                and isinstance(arg.func.value.value, str) and len(arg.args) == 1):
            raise Undecided(f'do_conf_file: result written by {short(wc)}')
        sep = arg.func.value.value
        ctx.require(sep == '', 'do_conf_file: lines are concatenated without a separator', mod, 'do_conf_file', wc,
                    f'the result lines are joined with {sep!r}: bytes that are not in the template are inserted between the lines', wc)
        arg = arg.args[0]
    o2 = fl.origins(arg)
    ok = 'call:do_conf_str' in o2 and not any(x.startswith('call:') and x not in ('call:do_conf_str', f'call:{rd[0][2]}.readlines' if rd else '', 'call:open') for x in o2)
    ctx.require(ok, 'do_conf_file: the lines written are the result of do_conf_str, unmodified', mod, 'do_conf_file', wc,
                f'the text written has origins {sorted(o2)}; it must be the list returned by do_conf_str', wc)
    ctx.require(f'param:{dst_p}' in fl.origins(oc.args[0]), 'do_conf_file: output file name derives from dst', mod, 'do_conf_file', oc,
                'the file written is not derived from the dst parameter', oc)


INDENT, EOL = ' \t', '\r\n'


def _variants(core: str) -> T.List[T.Tuple[str, str, str]]:
    return [('', core, '\n'), (INDENT, core, EOL), ('', core, ''), ('  ', core, '\n')]


def _r4c_define(ctx: RuleCtx, mod: Module, qn: str, cores: T.List[str]) -> None:
    aspects: T.Dict[str, T.Set[str]] = {}
    examples: T.Dict[str, str] = {}
    undec: T.List[str] = []
    n = nbad = 0
    node: T.Optional[ast.AST] = None
    for core in cores:
        for kind, val in VALUES:
            if kind in ('other', 'zero'):
                continue
            outs = []
            for ind, c, eol in _variants(core):
                r = _define(mod, qn, ind + c + eol, _conf(kind, val))
                outs.append((ind, eol, r))
            base = outs[0][2]
            if base.kind != 'return' or not isinstance(base.value, str):
                undec.append(f'{core!r} with FOO {kind}: {_show(base)}')
                continue
            stem = base.value.strip()
            for ind, eol, r in outs:
                n += 1
                want = ind + stem + eol
                if r.kind == 'return' and r.value == want:
                    continue
                nbad += 1
                node = node or (r.path.events[-1].node if r.path and r.path.events else None)
                got = r.value if r.kind == 'return' and isinstance(r.value, str) else None
                what = []
                if got is None or got.strip() != stem:
                    what.append('text')
                else:
                    if got[:len(got) - len(got.lstrip())] != ind:
                        what.append('indentation')
                    if got[len(got.rstrip()):] != eol:
                        what.append({'\r\n': 'CRLF terminator', '\n': 'LF terminator', '': 'absent terminator'}[eol])
                for w in what:
                    aspects.setdefault(w, set()).add(kind)
                    examples.setdefault(w, f'{ind + core + eol!r} (FOO {kind}) -> {_show(r)}, expected {want!r}')
    if undec and not aspects:
        raise Undecided(f'{qn}: sample lines do not yield a text: {undec[:3]}')
    if aspects:
        order = [k for k, _ in VALUES]
        desc = '; '.join(f'{a} ({",".join(sorted(ks, key=order.index))})' for a, ks in sorted(aspects.items()))
        ctx.violation(mod, qn, f'returned line does not keep: {desc}',
                      f'{qn} does not reproduce the leading blanks / the line terminator of its input line in {nbad} of {n} sample evaluations '
                      f'[{desc}], e.g. ' + '; '.join(examples[a] for a in sorted(examples)), node or mod.func(qn))
    else:
        ctx.ok(f'{qn}: indentation and terminator of the input line are reproduced in all {n} sample evaluations (lines {cores}, every value kind, 4 indentation/terminator variants)')


def r4c(ctx: RuleCtx) -> None:
    mod = ctx.repo.module(U)
    # replacement transformer (meson): single scan of the parameter, and no alternative can match blank/CR/LF
    call, cbname, text = _scan_call(mod, 'do_replacement_meson')
    fn = mod.func('do_replacement_meson')
    params = [a.arg for a in fn.args.args]
    stores = [n for n in ast.walk(fn) if isinstance(n, ast.Name) and isinstance(n.ctx, ast.Store) and isinstance(text, ast.Name) and n.id == text.id]
    rets = [s for s in ast.walk(fn) if isinstance(s, ast.Return) and not any(s in ast.walk(f) for f in ast.walk(fn) if isinstance(f, ast.FunctionDef) and f is not fn)]
    direct = len(rets) == 1 and isinstance(rets[0].value, ast.Tuple) and rets[0].value.elts and _single_def(fn, rets[0].value.elts[0]) is call
    ctx.require(isinstance(text, ast.Name) and text.id in params and not stores and direct,
                'do_replacement_meson: returns the scan of its own line parameter, untouched before and after', mod, 'do_replacement_meson', call,
                f'the text scanned is `{norm(text)}` and the result is post-processed: the line is no longer copied outside placeholders', call)
    pat = _variable_regex(mod, 'meson')
    tree, alts = _alternatives(pat)
    for i, items in enumerate(alts):
        lead, body, trail = rxl.split_lookaround(items)
        bad = [c for c in ' \t\r\n' if rxl.can_contain(body, c)]
        ctx.require(not bad, f'meson regex alternative {i + 1} cannot consume blank / CR / LF', mod, 'get_variable_regex', f'meson placeholder regex: alternative {i + 1}: whitespace',
                    f'alternative {i + 1} can match {bad!r}: a placeholder match could swallow indentation or the line terminator', mod.func('get_variable_regex'))
    # define transformers: indentation and terminator of the input line must come out again
    _r4c_define(ctx, mod, 'do_define_meson', ['#mesondefine FOO'])
    _r4c_define(ctx, mod, 'do_define_cmake', ['#cmakedefine FOO', '#cmakedefine01 FOO', '#cmakedefine FOO xxx yyy'])
    ctx.note('do_replacement_cmake (hand-written index scanner) is not decided')


# ---------------------------------------------------------------------------------------------
# R5  generated header
# ---------------------------------------------------------------------------------------------
def r5(ctx: RuleCtx) -> None:
    mod = ctx.repo.module(U)
    fn = mod.func('_dump_c_header')
    conf = [a.arg for a in fn.args.args if a.annotation is not None and 'ConfigurationData' in norm(a.annotation)]
    outp = [a.arg for a in fn.args.args if a.annotation is not None and 'TextIO' in norm(a.annotation)]
    if len(conf) != 1 or len(outp) != 1:
        raise Undecided('_dump_c_header: cannot identify the data and the output parameter')
    cd, of = conf[0], outp[0]
    loops = [s for s in ast.walk(fn) if isinstance(s, (ast.For, ast.While))]
    if len(loops) != 1 or loops[0] not in fn.body or not isinstance(loops[0], ast.For):
        raise Undecided('_dump_c_header: expected exactly one top-level for loop')
    loop = loops[0]
    it: ast.AST = loop.iter
    fl = Flow(fn)
    if isinstance(it, ast.Name) and len(fl.defs.get(it.id, [])) == 1:
        it = fl.defs[it.id][0]
    keysrc = {f'{cd}.keys()', f'{cd}.values', f'{cd}.values.keys()', f'list({cd}.keys())', f'{cd}.values.items()'}
    if isinstance(it, ast.Call) and norm(it.func) == 'sorted':
        rev = kwarg(it, 'reverse')
        if [k.arg for k in it.keywords] not in ([], ['reverse']) or len(it.args) != 1 or (rev is not None and not isinstance(rev, ast.Constant)):
            raise Undecided(f'_dump_c_header: {short(it)}: sorted() with a key / computed reverse argument')
        if rev is not None and rev.value:
            ctx.violation(mod, '_dump_c_header', loop.iter, f'the keys are iterated through `{short(it)}`: descending, the header must list them in ascending order', loop)
        inner = norm(it.args[0])
        if inner not in keysrc - {f'{cd}.values.items()'}:
            raise Undecided(f'_dump_c_header: sorted() over `{inner}`, not over the keys of {cd}')
        ctx.ok(f'_dump_c_header: keys are iterated through {short(it)}')
    elif norm(it) in keysrc:
        ctx.violation(mod, '_dump_c_header', loop.iter, f'the entries are iterated as `{norm(it)}` (insertion order); the generated header must define the keys in sorted order', loop)
    else:
        raise Undecided(f'_dump_c_header: loop over `{short(it)}`')
    if not isinstance(loop.target, ast.Name):
        raise Undecided('_dump_c_header: loop target is not a single name')
    k = loop.target.id
    n = 0
    for p in enumerate_paths(loop.body, unroll=1):
        where = p.describe()[:140]
        if p.outcome == 'raise':
            continue
        last = p.events[-1].node if p.events else loop
        if p.outcome != 'fall':
            ctx.violation(mod, '_dump_c_header', last or loop, f'the loop body ends with `{p.outcome}` on the path [{where}]: a key is skipped', last)
            continue
        ws = [c for c in p.calls() if isinstance(c.func, ast.Attribute) and norm(c.func.value) == of and c.func.attr == 'write' and k in names_in(c)]
        n += 1
        if len(ws) == 1:
            ctx.ok(f'_dump_c_header: path [{where}]: one emission for the key: {short(ws[0])}')
        else:
            ctx.violation(mod, '_dump_c_header', f'{len(ws)} emissions for a key: {where}', f'on the path [{where}] the key is emitted {len(ws)} times (must be exactly once)', last)
    ctx.floor('_dump_c_header: non-raising paths through the loop body', n, 6)
    # sample with several keys in non-sorted insertion order: every key once, ascending
    folder = Folder()
    env = _header_env(mod, fn, folder, SampleConf({'b': (1, None), 'c': (True, 'd'), 'a': ('x', None)}), 'c', None)
    replay(fn.body, env, folder, unroll=3)
    text = ''.join(a[0] for nm, a in folder.effects if nm == 'ofile.write')
    order = re.findall(r'(?m)^#(?:define|undef) (\w+)', text)
    ctx.require(order == ['a', 'b', 'c'], 'sample {b, c, a}: defined once each in the order a, b, c', mod, '_dump_c_header', 'sample header with three keys',
                f'for data inserted as b, c, a the header defines {order}', loop)
    # the caller: one emitter per path; json sorted
    dfn = mod.func('dump_conf_header')
    np_ = 0
    for p in enumerate_paths(dfn.body, unroll=1):
        if p.outcome == 'raise':
            continue
        calls = p.calls()
        hdr = [c for c in calls if isinstance(c.func, ast.Name) and c.func.id == '_dump_c_header']
        js = [c for c in calls if attr_chain(c.func) == 'json.dump']
        np_ += 1
        where = p.describe()[:120]
        if len(hdr) + len(js) != 1:
            ctx.violation(mod, 'dump_conf_header', f'{len(hdr)} header / {len(js)} json emissions: {where}', f'path [{where}] emits the data {len(hdr) + len(js)} times', dfn)
            continue
        if js:
            sk = kwarg(js[0], 'sort_keys')
            data = js[0].args[0] if js[0].args else None
            dfl = Flow(dfn)
            src = data
            if isinstance(src, ast.Name) and len(dfl.defs.get(src.id, [])) == 1:
                src = dfl.defs[src.id][0]
            cdp = [a.arg for a in dfn.args.args if a.annotation is not None and 'ConfigurationData' in norm(a.annotation)]
            whole = isinstance(src, ast.DictComp) and len(src.generators) == 1 and not src.generators[0].ifs and cdp and \
                norm(src.generators[0].iter) == f'{cdp[0]}.values.items()' and isinstance(src.generators[0].target, ast.Tuple) and \
                norm(src.key) == norm(src.generators[0].target.elts[0])
            if not whole:
                raise Undecided(f'dump_conf_header: json data `{short(src)}` is not a comprehension over all items')
            ctx.require(isinstance(sk, ast.Constant) and sk.value is True, 'dump_conf_header[json]: json.dump(..., sort_keys=True) over all items', mod, 'dump_conf_header', js[0],
                        'the json form must be written with sort_keys=True', js[0])
        else:
            a = hdr[0].args
            cdp = [x.arg for x in dfn.args.args if x.annotation is not None and 'ConfigurationData' in norm(x.annotation)]
            ctx.require(len(a) >= 2 and cdp and norm(a[1]) == cdp[0], f'dump_conf_header: path [{where}] hands the whole data object to _dump_c_header', mod, 'dump_conf_header', hdr[0],
                        'the data object is not passed unchanged to _dump_c_header', hdr[0])
    ctx.floor('dump_conf_header: paths', np_, 2)


RULES = [
    Rule('C14.R1', 'no substituted value reaches a placeholder scan (meson format)', r1),
    Rule('C14.R2', 'meson placeholder grammar: three alternatives, callback semantics', r2),
    Rule('C14.R3', 'rendering per value type (str/bool/int/other/unset)', r3),
    Rule('C14.R4a', 'per-line loops: every line appended once, at most one transformer', r4a),
    Rule('C14.R4b', 'template read and written with newline=""', r4b),
    Rule('C14.R4c', 'per-line transformers keep indentation and terminator', r4c),
    Rule('C14.R5', 'generated header: sorted keys, one emission per key', r5),
]
