"""C17.R12 (a requested option value is written verbatim as `<key>=<value>`) and C17.R13 (sources a target already has are
resolved against a directory that depends on the target).  Both are shape / def-use rules: templates are compared piece by
piece, origins are followed flow-insensitively; nothing is evaluated."""
from __future__ import annotations

import ast
import copy
import typing as T

from ..core import Module, Undecided, attr_chain, norm, short, walk_no_nested
from ..flow import Flow
from ..paths import enumerate_paths
from ..report import RuleCtx
from . import c17_splice as SP

REWRITER = SP.REWRITER

# str methods whose result is another text than the receiver (for some receiver)
STR_TRANSFORMS = {'lower', 'upper', 'strip', 'lstrip', 'rstrip', 'title', 'capitalize', 'casefold', 'swapcase', 'replace', 'expandtabs', 'translate',
                  'removeprefix', 'removesuffix', 'zfill', 'center', 'ljust', 'rjust', 'split', 'rsplit', 'partition', 'rpartition', 'splitlines', 'join'}


def _alter(e: ast.AST) -> T.Optional[str]:
    """The text-changing operation applied on top of e (a str method of STR_TRANSFORMS, a slice/index, `%`/`+`/`*` arithmetic), or None."""
    if isinstance(e, ast.Call) and isinstance(e.func, ast.Attribute) and e.func.attr in STR_TRANSFORMS:
        return f'.{e.func.attr}()'
    if isinstance(e, ast.Subscript):
        return 'a slice / index'
    if isinstance(e, ast.BinOp):
        return f'the operator {type(e.op).__name__}'
    return None


def _strip_str(e: ast.AST) -> ast.AST:
    """str(x) / f'{x}' / T.cast(.., x) are the identity on a text."""
    while True:
        if isinstance(e, ast.Call) and norm(e.func) == 'str' and len(e.args) == 1 and not e.keywords:
            e = e.args[0]
        elif isinstance(e, ast.Call) and attr_chain(e.func) in ('T.cast', 'typing.cast', 'cast') and len(e.args) == 2:
            e = e.args[1]
        elif isinstance(e, ast.JoinedStr) and len(e.values) == 1 and isinstance(e.values[0], ast.FormattedValue) and e.values[0].format_spec is None \
                and e.values[0].conversion in (-1, 115):
            e = e.values[0].value
        else:
            return e


def _merge_constants(pieces: T.List[ast.AST]) -> T.List[ast.AST]:
    out: T.List[ast.AST] = []
    for p in pieces:
        if isinstance(p, ast.Constant) and isinstance(p.value, str):
            if not p.value:
                continue
            if out and isinstance(out[-1], ast.Constant):
                out[-1] = ast.Constant(value=out[-1].value + p.value)
                continue
        out.append(p)
    return out


def _demo_r12() -> None:
    e = ast.parse("f'{key}={str(val).lower()}'", mode='eval').body
    pcs = _merge_constants(SP.template_parts(e))
    if len(pcs) != 3 or _alter(_strip_str(pcs[2])) != '.lower()' or _alter(_strip_str(pcs[0])) is not None:
        raise Undecided('self-check of the entry-template reader failed')


def r12(ctx: RuleCtx) -> None:
    """default-options set: the entry appended per requested option is the template <key> + '=' + <value>, where <key> is the requested
    key and <value> the requested value as it comes back from the option's validate_value (or as requested), modulo str()."""
    _demo_r12()
    mod = ctx.repo.module(REWRITER)
    qn = 'Rewriter.process_default_options'
    top = SP.effect_normal_form(mod, SP.inline_trivial_helpers(mod, T.cast(ast.FunctionDef, mod.func(qn)), 'Rewriter'), 'Rewriter')
    cmdp = [a.arg for a in top.args.args][1]

    def single_defs(f: ast.AST) -> T.Dict[str, ast.AST]:
        fall: T.Dict[str, T.List[ast.AST]] = {}
        for n in ast.walk(f):
            if isinstance(n, ast.Assign) and len(n.targets) == 1 and isinstance(n.targets[0], ast.Name):
                fall.setdefault(n.targets[0].id, []).append(n.value)
            elif isinstance(n, ast.AnnAssign) and isinstance(n.target, ast.Name) and n.value is not None:
                fall.setdefault(n.target.id, []).append(n.value)
        return {k: v[0] for k, v in fall.items() if len(v) == 1}

    def pair_loops(f: ast.AST, source: str) -> T.List[ast.For]:
        """Loops `for k, v in <.. source .. .items() ..>` of f (single-definition locals read through)."""
        fdefs = single_defs(f)
        out = []
        for lp in walk_no_nested(f):
            if isinstance(lp, ast.For) and isinstance(lp.target, ast.Tuple) and len(lp.target.elts) == 2 and all(isinstance(x, ast.Name) for x in lp.target.elts):
                it = norm(SP._Subst(fdefs).visit(copy.deepcopy(lp.iter)))
                if f'{source}.items()' in it:
                    out.append(lp)
        return out
    # the requested options are walked here, or in a method of the class that receives them (extract method)
    scopes: T.List[T.Tuple[str, ast.AST, str]] = [(qn, top, f"{cmdp}['options']")]
    tdefs = single_defs(top)
    for c in ast.walk(top):
        if isinstance(c, ast.Call) and isinstance(c.func, ast.Attribute) and norm(c.func.value) in ('self', 'cls') and mod.has_func(f'Rewriter.{c.func.attr}'):
            h = mod.func(f'Rewriter.{c.func.attr}')
            if not isinstance(h, ast.FunctionDef):
                continue
            for pname, arg in SP.bind_args(c, h, True).items():
                if norm(SP._Subst(tdefs).visit(copy.deepcopy(arg))) == f"{cmdp}['options']":
                    hq = f'Rewriter.{c.func.attr}'
                    scopes.append((hq, SP.effect_normal_form(mod, SP.inline_trivial_helpers(mod, h, 'Rewriter'), 'Rewriter'), pname))
    loops: T.List[T.Tuple[str, ast.For]] = [(q, lp) for q, f, src in scopes for lp in pair_loops(f, src)]
    if not loops:
        raise Undecided(f'{qn}: no loop over the (key, value) pairs of the requested options')
    n_entries = 0
    for wq, lp in loops:
        kv, vv = lp.target.elts[0].id, lp.target.elts[1].id  # type: ignore[attr-defined]
        writers = [(st, el) for st, el in SP._list_writers(lp, lambda e: True) if len(el) == 1]
        paths = enumerate_paths(lp.body)
        for st, el in writers:
            for p in paths:
                if not any(s is st for s in p.stmts()):
                    continue
                env = SP.sym_exec(p, stop=st)
                e = SP._Subst(env).visit(copy.deepcopy(el[0]))
                if kv not in {x.id for x in ast.walk(e) if isinstance(x, ast.Name)}:
                    continue        # not an entry for the key (some other list)
                whole = _strip_str(e)
                if isinstance(whole, (ast.Call, ast.Subscript)) and not isinstance(whole, ast.BinOp) and _alter(whole) is not None \
                        and not (isinstance(whole, ast.Call) and whole.func.attr == 'join'):  # type: ignore[attr-defined]
                    n_entries += 1
                    ren0 = {kv: ast.Name(id='KEY', ctx=ast.Load()), vv: ast.Name(id='VALUE', ctx=ast.Load())}
                    shape0 = norm(SP._Subst(ren0).visit(copy.deepcopy(whole)))
                    ctx.violation(mod, wq, f'default_options entry as a whole {shape0}',
                                  f'the entry written for a requested option is {shape0}: the whole `key=value` text goes through {_alter(whole)}, so a requested value '
                                  '(or key) with other characters than the result keeps - upper case, surrounding blanks - is written differently from what was requested', st)
                    continue
                pcs = _merge_constants(SP.fold_str_names(mod, SP.template_parts(e)))
                holes = [x for x in pcs if not isinstance(x, ast.Constant)]
                if len(holes) != 2:
                    raise Undecided(f'{wq}: entry `{short(el[0])}` is not a template of the key and the value')
                ren = {kv: ast.Name(id='KEY', ctx=ast.Load()), vv: ast.Name(id='VALUE', ctx=ast.Load())}
                shape = ''.join(x.value if isinstance(x, ast.Constant) else '<' + norm(SP._Subst(ren).visit(copy.deepcopy(x))) + '>' for x in pcs)
                n_entries += 1
                ke, ve = _strip_str(holes[0]), _strip_str(holes[1])
                what = f'{wq}: the entry written for a requested option is {shape}'
                # separator and nothing else around
                consts = [x.value for x in pcs if isinstance(x, ast.Constant)]
                framed = len(pcs) == 3 and isinstance(pcs[1], ast.Constant) and consts == ['=']
                ctx.require(framed, what + ': key and value are joined by `=` alone', mod, wq, f'default_options entry frame {shape}',
                            f'the entry added per requested option is {shape}, not <key>=<value>: the keyword does not get the requested value '
                            '(and the start-anchored `<key>=.*` removal of the next `set` / `delete` does not find it)', st)
                # key
                kalt = _alter(ke)
                if kalt is None and norm(ke) != kv:
                    raise Undecided(f'{wq}: key part `{short(holes[0])}` of the entry is not the requested key')
                ctx.require(kalt is None, what + ': the key is the requested key', mod, wq, f'default_options entry key {shape}',
                            f'the key of the written entry goes through {kalt} ({shape}): another option than the addressed one is set', st)
                # value: requested value, or what validate_value returns for it
                inner = ve
                via = 'as requested'
                if isinstance(inner, ast.Call) and isinstance(inner.func, ast.Attribute) and inner.func.attr == 'validate_value' and len(inner.args) == 1 and not inner.keywords:
                    inner = _strip_str(inner.args[0])
                    via = 'as returned by validate_value'
                valt = _alter(ve) or _alter(inner)
                if valt is None and norm(inner) != vv:
                    raise Undecided(f'{wq}: value part `{short(holes[1])}` of the entry is computed in a way the rule does not read')
                ctx.require(valt is None, what + f': the value is written {via}', mod, wq, f'default_options entry value {shape}',
                            f'the value of the written entry goes through {valt} ({shape}): a requested value such as prefix=/opt/MyApp or -DFOO is written with '
                            'other characters than requested, `info` and the next configure see a different value', st)
    if not n_entries:
        raise Undecided(f'{qn}: the loop over the requested options adds no list element built from the key (entries are built in a way the rule does not read)')
    ctx.floor('entries written per requested option (paths)', n_entries, 1)


# ---------------------------------------------------------------------------
# R13
NORMALISERS = ('resolve', 'normpath', 'abspath', 'realpath')     # collapse `..` (absolute / as_posix / str / Path do not)


def _unwrap_path(e: ast.AST) -> T.Tuple[ast.AST, bool]:
    """e without its path wrappers (.resolve() / os.path.normpath / str / Path ...), and whether one of them collapses `..` components."""
    normalised = False
    while True:
        if isinstance(e, ast.Call) and isinstance(e.func, ast.Attribute) and e.func.attr in ('resolve', 'absolute', 'as_posix') and not e.args:
            normalised = normalised or e.func.attr in NORMALISERS
            e = e.func.value
        elif isinstance(e, ast.Call) and (attr_chain(e.func) or '').split('.')[-1] in ('normpath', 'abspath', 'realpath', 'str', 'Path', 'PurePath') and len(e.args) == 1:
            normalised = normalised or (attr_chain(e.func) or '').split('.')[-1] in NORMALISERS
            e = e.args[0]
        else:
            return e, normalised


def fuse_generators(fn: ast.FunctionDef) -> ast.FunctionDef:
    """Normal form: `for T in g(): BODY` where g is a generator closure of fn without parameters (only `yield E` statements, no return)
    reads as the body of g with every `yield E` replaced by `T = E; BODY` (the locals of g renamed apart).  Returns a copy."""
    gens: T.Dict[str, ast.FunctionDef] = {}
    for n in ast.walk(fn):
        if isinstance(n, ast.FunctionDef) and n is not fn and not n.args.args and not n.args.vararg and not n.args.kwarg and not n.args.kwonlyargs:
            ys = [y for y in walk_no_nested(n) if isinstance(y, (ast.Yield, ast.YieldFrom))]
            if ys and all(isinstance(y, ast.Yield) and y.value is not None for y in ys) and not any(isinstance(r, ast.Return) for r in walk_no_nested(n)):
                yst = [st for st in walk_no_nested(n) if isinstance(st, ast.Expr) and isinstance(st.value, ast.Yield)]
                if len(yst) == len(ys):
                    gens[n.name] = n
    if not gens:
        return fn
    fn = copy.deepcopy(fn)
    gens = {n.name: n for n in ast.walk(fn) if isinstance(n, ast.FunctionDef) and n.name in gens and n is not fn}

    class Ren(ast.NodeTransformer):
        def __init__(self, names: T.Set[str], pre: str):
            self.names, self.pre = names, pre

        def visit_Name(self, n: ast.Name) -> ast.AST:
            return ast.copy_location(ast.Name(id=self.pre + n.id, ctx=n.ctx), n) if n.id in self.names else n

    def fuse(loop: ast.For) -> T.Optional[T.List[ast.stmt]]:
        it = loop.iter
        if not (isinstance(it, ast.Call) and isinstance(it.func, ast.Name) and it.func.id in gens and not it.args and not it.keywords):
            return None
        if loop.orelse or any(isinstance(b, ast.Break) for st in loop.body for b in walk_no_nested(st)):
            return None
        g = gens[it.func.id]
        stored = {n.id for st in g.body for n in ast.walk(st) if isinstance(n, ast.Name) and isinstance(n.ctx, (ast.Store, ast.Del))}
        body = [Ren(stored, f'_g_{g.name}_').visit(copy.deepcopy(st)) for st in g.body]

        def repl(block: T.List[ast.stmt]) -> T.List[ast.stmt]:
            out: T.List[ast.stmt] = []
            for st in block:
                if isinstance(st, ast.Expr) and isinstance(st.value, ast.Yield):
                    v = T.cast(ast.expr, st.value.value)
                    tgt = loop.target
                    if isinstance(tgt, (ast.Tuple, ast.List)) and isinstance(v, ast.Tuple) and len(tgt.elts) == len(v.elts) \
                            and not any(isinstance(x, ast.Starred) for x in list(tgt.elts) + list(v.elts)):
                        out += [ast.copy_location(ast.Assign(targets=[copy.deepcopy(t_)], value=v_, lineno=st.lineno), st) for t_, v_ in zip(tgt.elts, v.elts)]
                    else:
                        out.append(ast.copy_location(ast.Assign(targets=[copy.deepcopy(tgt)], value=v, lineno=st.lineno), st))
                    out += copy.deepcopy(loop.body)
                    continue
                for f in ('body', 'orelse', 'finalbody'):
                    sub = getattr(st, f, None)
                    if isinstance(sub, list) and sub and isinstance(sub[0], ast.stmt) and not isinstance(st, (ast.FunctionDef, ast.ClassDef)):
                        setattr(st, f, repl(sub))
                for hd in getattr(st, 'handlers', []) or []:
                    hd.body = repl(hd.body)
                out.append(st)
            return out
        res = repl(body)
        for r in res:
            ast.fix_missing_locations(r)
        return res

    def walk_blocks(node: ast.AST) -> None:
        for f in ('body', 'orelse', 'finalbody'):
            block = getattr(node, f, None)
            if not (isinstance(block, list) and block and isinstance(block[0], ast.stmt)):
                continue
            new: T.List[ast.stmt] = []
            for st in block:
                r = fuse(st) if isinstance(st, ast.For) else None
                if r is not None:
                    new += r
                else:
                    new.append(st)
            setattr(node, f, new)
            for st in new:
                walk_blocks(st)
        for hd in getattr(node, 'handlers', []) or []:
            walk_blocks(hd)
    walk_blocks(fn)
    return fn


def _join_base(e: ast.AST, leaf_pred: T.Callable[[ast.AST], bool]) -> T.Optional[T.List[ast.AST]]:
    """e joins a leaf (recognised by leaf_pred) onto a base directory: `<base> / leaf`, `os.path.join(<base>.., leaf)`, `Path(<base>, leaf)`,
    possibly wrapped in .resolve() / os.path.normpath / str / Path.  Returns the base operand expressions."""
    e = _unwrap_path(e)[0]
    if isinstance(e, ast.BinOp) and isinstance(e.op, ast.Div) and leaf_pred(e.right):
        return [e.left]
    if isinstance(e, ast.Call) and (attr_chain(e.func) or '').split('.')[-1] in ('join', 'Path', 'PurePath', 'joinpath') and len(e.args) >= 2 and leaf_pred(e.args[-1]):
        return list(e.args[:-1])
    if isinstance(e, ast.Call) and isinstance(e.func, ast.Attribute) and e.func.attr == 'joinpath' and len(e.args) == 1 and leaf_pred(e.args[0]):
        return [e.func.value]
    return None


def _normalised_before_compare(fn: ast.AST, site: ast.AST) -> T.Optional[T.Tuple[bool, ast.AST]]:
    """site: the outermost expression of a join (wrappers included).  (True, site) when a wrapper collapses `..`; (False, comparison) when the
    join (or the single-definition local it is stored in) is an operand of == / != / in / not in without one; None when its use was not read."""
    if _unwrap_path(site)[1]:
        return True, site
    parents: T.Dict[int, ast.AST] = {id(c): p for p in ast.walk(fn) for c in ast.iter_child_nodes(p)}

    def use(e: ast.AST, depth: int = 0) -> T.Optional[T.Tuple[bool, ast.AST]]:
        par = parents.get(id(e))
        if par is None or depth > 3:
            return None
        if isinstance(par, ast.Compare) and all(isinstance(o, (ast.Eq, ast.NotEq, ast.In, ast.NotIn)) for o in par.ops):
            return False, par
        if isinstance(par, ast.Call) and _unwrap_path(par)[0] is not par:
            # a wrapper around the site that the join reader did not include (e.g. str(...)): look further out
            top: ast.AST = par
            while isinstance(parents.get(id(top)), ast.Call) and _unwrap_path(T.cast(ast.AST, parents.get(id(top))))[0] is not parents.get(id(top)):
                top = T.cast(ast.AST, parents.get(id(top)))
            if _unwrap_path(top)[1]:
                return True, top
            return use(top, depth + 1)
        if isinstance(par, ast.IfExp) and e is not par.test:
            return use(par, depth)            # one arm of a conditional expression: the value of the whole
        if isinstance(par, (ast.ListComp, ast.SetComp, ast.GeneratorExp)) and par.elt is e:
            return use(par, depth)            # the elements of a collection: compared by `x in <collection>`
        if isinstance(par, ast.Assign) and par.value is e and len(par.targets) == 1 and isinstance(par.targets[0], ast.Name):
            v = par.targets[0].id
            stores = [n for n in ast.walk(fn) if isinstance(n, ast.Name) and n.id == v and isinstance(n.ctx, ast.Store)]
            own = {id(n) for n in ast.walk(par)}
            loads = [n for n in ast.walk(fn) if isinstance(n, ast.Name) and n.id == v and isinstance(n.ctx, ast.Load) and id(n) not in own]
            if (len(stores) != 1 and not isinstance(e, (ast.ListComp, ast.SetComp, ast.GeneratorExp))) or not loads:
                return None
            res = [use(l, depth + 1) for l in loads]
            if any(r is None for r in res):
                return None
            bad = [r for r in res if r is not None and not r[0]]
            return bad[0] if bad else T.cast(T.Tuple[bool, ast.AST], res[0])
        return None
    return use(site)


def _isinstance_arms(fn: ast.AST, cls_name: str) -> T.List[T.Tuple[str, ast.AST, ast.AST]]:
    """(tested variable, the expression / statement list evaluated when `isinstance(var, cls_name)` holds, the test) for conditional
    expressions, comprehension filters and if statements, either polarity."""
    out: T.List[T.Tuple[str, ast.AST, ast.AST]] = []

    def tested(t: ast.AST) -> T.Optional[T.Tuple[str, bool]]:
        t, pol = SP._strip_not(t)
        if isinstance(t, ast.Call) and norm(t.func) == 'isinstance' and len(t.args) == 2 and isinstance(t.args[0], ast.Name) \
                and (attr_chain(t.args[1]) or '').split('.')[-1] == cls_name:
            return t.args[0].id, pol
        return None
    for n in ast.walk(fn):
        if isinstance(n, ast.IfExp):
            r = tested(n.test)
            if r:
                out.append((r[0], n.body if r[1] else n.orelse, n.test))
        if isinstance(n, ast.BoolOp) and isinstance(n.op, ast.And) and not any(isinstance(p_, ast.If) and p_.test is n for p_ in ast.walk(fn)):
            for k, v in enumerate(n.values):
                r = tested(v)
                if r and r[1] and n.values[k + 1:]:
                    out.append((r[0], ast.Module(body=[ast.copy_location(ast.Expr(value=x), x) for x in n.values[k + 1:]], type_ignores=[]), v))
        for field in ('body', 'orelse', 'finalbody'):
            block = getattr(n, field, None)
            if not isinstance(block, list):
                continue
            for i, st in enumerate(block):
                if not isinstance(st, ast.If):
                    continue
                if isinstance(st.test, ast.BoolOp) and isinstance(st.test.op, ast.And):
                    # `isinstance(v, C) and rest`: the rest of the conjunction and the body run under the test
                    for k, v in enumerate(st.test.values):
                        r = tested(v)
                        if r and r[1]:
                            rest = [ast.copy_location(ast.Expr(value=x), x) for x in st.test.values[k + 1:]]
                            out.append((r[0], ast.Module(body=rest + list(st.body), type_ignores=[]), v))
                    continue
                r = tested(st.test)
                if not r:
                    continue
                arm = list(st.body if r[1] else st.orelse)
                other = st.orelse if r[1] else st.body
                # guard clause: the other arm leaves (continue / return / raise / break), so what follows runs under the test as well
                if other and isinstance(other[-1], (ast.Continue, ast.Return, ast.Raise, ast.Break)):
                    arm += block[i + 1:]
                if arm:
                    out.append((r[0], ast.Module(body=arm, type_ignores=[]), st.test))
    return out


def _demo_r13() -> None:
    fn = ast.parse("def f(self, target, root):\n    a = root / target.subdir\n    return [(a / x) if isinstance(x, str) else x for x in target.l], [(root / x) if isinstance(x, str) else x for x in target.l]\n").body[0]
    fl = Flow(fn)  # type: ignore[arg-type]
    got = []
    for var, arm, _ in _isinstance_arms(fn, 'str'):
        base = _join_base(arm, lambda l: norm(l) == var)
        got.append(base is not None and any(o == 'param:target' or o.startswith('attr:target.') for b in base for o in fl.origins(b)))
    if got != [True, False]:
        raise Undecided(f'self-check of the base-directory reader failed: {got}')


def r13(ctx: RuleCtx) -> None:
    """A source string a target already has (a `str` runtime value of its source nodes, the value of a StringNode of its argument lists) is
    relative to the directory of the build file that defines it: wherever add/rm sources joins such a string onto a base directory, that
    base must depend on the target (must-flow from the target parameter).  A base that is the same for every target (source root, cwd)
    resolves the sources of a subdirectory target to other files."""
    _demo_r13()
    mod = ctx.repo.module(REWRITER)
    n = 0
    for qn in ('Rewriter.add_src_or_extra', 'Rewriter.rm_src_or_extra'):
        fn = T.cast(ast.FunctionDef, mod.func(qn))
        fn = fuse_generators(SP.inline_trivial_helpers(mod, fn, 'Rewriter'))
        tparams = [a.arg for a in fn.args.args if a.annotation is not None and 'Target' in norm(a.annotation)]
        if len(tparams) != 1:
            raise Undecided(f'{qn}: the target parameter was not found by its annotation')
        tp = tparams[0]
        fl = Flow(fn)

        def from_target(b: ast.AST, tp: str = tp, fl: Flow = fl) -> bool:
            return any(o == f'param:{tp}' or o.startswith(f'attr:{tp}.') for o in fl.origins(b))
        sites: T.List[T.Tuple[str, ast.AST, T.List[ast.AST]]] = []
        for cls_name, leaf in (('str', lambda v: v), ('StringNode', lambda v: f'{v}.value')):
            for var, arm, test in _isinstance_arms(fn, cls_name):
                names = {var}
                grew = True
                while grew:      # copies of the tested variable inside the arm (`lit = j`)
                    grew = False
                    for a_ in ast.walk(arm):
                        if isinstance(a_, ast.Assign) and isinstance(a_.value, ast.Name) and a_.value.id in names:
                            for t_ in a_.targets:
                                if isinstance(t_, ast.Name) and t_.id not in names:
                                    names.add(t_.id)
                                    grew = True
                want = {leaf(v_) for v_ in names}
                for e in ([arm] if isinstance(arm, ast.expr) else list(ast.walk(arm))):
                    if not isinstance(e, (ast.BinOp, ast.Call)):
                        continue
                    base = _join_base(e, lambda l, want=want: norm(_strip_str(l)) in want)
                    if base is not None and not any(s[1] is e for s in sites):
                        # the outermost wrapper and the join inside it are the same site: keep the first (outermost) one only
                        if any(e in list(ast.walk(s[1])) for s in sites):
                            continue
                        sites.append((f'isinstance({var}, {cls_name})', e, base))
        if not sites:
            raise Undecided(f'{qn}: no place found where a source string the target already has is joined onto a base directory (resolved in a helper / another way)')
        for label, e, base in sites:
            n += 1
            role = 'existing source string' if 'StringNode' not in label else 'value of an existing StringNode source'
            ctx.require(any(from_target(b) for b in base), f'{qn}: {role} is joined onto {", ".join(short(b, 40) for b in base)}, which depends on `{tp}`', mod, qn,
                        f'base directory of an {role} in {qn.split(".")[-1]}',
                        f'under `{label}` an {role} is resolved as `{short(e, 90)}`, whose base {", ".join("`" + short(b, 40) + "`" for b in base)} does not depend on `{tp}` '
                        f'(origins: {sorted(o for b in base for o in fl.origins(b))[:6]}): strings in the meson.build of a subdirectory are relative to that directory, so the '
                        'sources of a subdir target are taken for other files - a requested file is wrongly skipped as already present, or an existing one is added twice / not found', e)
            # the joined path is compared with the requested file: strings in build files may be spelled with `..` (`../common/util.c` in a
            # subdirectory), and neither str nor Path equality collapses `..`: the join must go through a normaliser before it is compared
            verdict = _normalised_before_compare(fn, e)
            if verdict is None:
                ctx.note(f'{qn}: how `{short(e, 60)}` is compared was not read (not judged)')
            else:
                ctx.require(verdict[0], f'{qn}: the joined path of an {role} is normalised ({"/".join(NORMALISERS)}) before it is compared', mod, qn,
                            f'normalisation of the path of an {role} in {qn.split(".")[-1]}',
                            f'`{short(verdict[1], 90)}` compares the path of an {role} as joined, without os.path.normpath / .resolve(): a source spelled with a `..` component '
                            "(`'../common/util.c'` in app/meson.build) never equals the requested <root>/common/util.c - `target rm` reports 'Unable to find source' and leaves the file in the target", verdict[1])
    ctx.floor('places where an existing source string is joined onto a base directory', n, 2)
