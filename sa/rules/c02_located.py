"""C02.R8 - a syntax error is *located*: the constructor of every MesonException subclass defined in mparser.py leaves
`self.lineno` / `self.colno` holding its own location parameters (last-writer analysis over the CFG of __init__, base
initialisers followed through the class hierarchy: a base __init__ that assigns the attribute from its own parameter or
default writes that value at the call)."""
from __future__ import annotations

import ast
import typing as T

from ..core import Undecided, attr_chain, norm, short, walk_no_nested
from ..cfg import CFG
from ..report import RuleCtx
from .c02_model import MPARSER, params_of

ATTRS = ('lineno', 'colno')
Val = T.Tuple[str, str]      # ('param', name) | ('const', repr) | ('expr', text) | ('unset', '')


def _classify(e: T.Optional[ast.AST], params: T.List[str]) -> Val:
    if e is None:
        return ('expr', '?')
    if isinstance(e, ast.Name) and e.id in params:
        return ('param', e.id)
    if isinstance(e, ast.Constant):
        return ('const', repr(e.value))
    return ('expr', norm(e))


def _own_init(cls: ast.ClassDef) -> T.Optional[ast.FunctionDef]:
    for st in cls.body:
        if isinstance(st, ast.FunctionDef) and st.name == '__init__':
            return st
    return None


def _first_base(repo: T.Any, mod: T.Any, cls: ast.ClassDef) -> T.Optional[T.Tuple[T.Any, ast.ClassDef]]:
    names = [attr_chain(b) for b in cls.bases if attr_chain(b)]
    if len(names) != 1:
        return None
    return repo.resolve_class(mod, names[0].split('.')[-1])  # type: ignore[union-attr]


def _bind_base(call: ast.Call, base_init: ast.FunctionDef, skip_self_arg: int) -> T.Optional[T.Dict[str, T.Optional[ast.AST]]]:
    """parameter name of the base __init__ -> argument expression | its default | None (unbound).  Surplus positionals go to *args."""
    a = base_init.args
    pos = [x.arg for x in a.posonlyargs + a.args][1:]
    pos_defaults = dict(zip(reversed(pos), reversed(a.defaults))) if a.defaults else {}
    kwo = [x.arg for x in a.kwonlyargs]
    kwo_defaults = {n: d for n, d in zip(kwo, a.kw_defaults) if d is not None}
    args = list(call.args[skip_self_arg:])
    if any(isinstance(x, ast.Starred) for x in args) or any(k.arg is None for k in call.keywords):
        return None
    if len(args) > len(pos) and not a.vararg:
        return None
    out: T.Dict[str, T.Optional[ast.AST]] = {}
    for p, x in zip(pos, args):
        out[p] = x
    for k in call.keywords:
        if k.arg in out or k.arg not in pos + kwo:
            if a.kwarg and k.arg not in out:
                continue
            return None
        out[k.arg] = k.value  # type: ignore[index]
    for p in pos + kwo:
        if p not in out:
            out[p] = pos_defaults.get(p, kwo_defaults.get(p))
    return out


def attr_after_init(repo: T.Any, mod: T.Any, cls: ast.ClassDef, attr: str, depth: int = 0) -> T.Tuple[T.Set[Val], T.Optional[ast.FunctionDef], T.Any]:
    """Values `self.<attr>` can hold when `cls(...)` has been constructed, in terms of the parameters of the __init__ that runs
    -> (values, that __init__, its module)."""
    if depth > 4:
        raise Undecided(f'{cls.name}: initialiser chain too deep')
    fn = _own_init(cls)
    if fn is None:
        b = _first_base(repo, mod, cls)
        if b is None:
            return {('unset', '')}, None, mod
        return attr_after_init(repo, b[0], b[1], attr, depth + 1)
    params = params_of(fn)[1:] + [x.arg for x in fn.args.kwonlyargs]
    selfname = params_of(fn)[0]
    cfg = CFG(fn)
    writers: T.List[T.Tuple[T.Any, T.Set[Val]]] = []
    for n in cfg.nodes:
        if n.kind != 'stmt' or n.ast is None:
            continue
        st = n.ast
        vals: T.Set[Val] = set()
        if isinstance(st, (ast.Assign, ast.AnnAssign, ast.AugAssign)):
            tgs = st.targets if isinstance(st, ast.Assign) else [st.target]
            for tg in tgs:
                if attr_chain(tg) == f'{selfname}.{attr}':
                    vals.add(_classify(st.value, params) if isinstance(st, (ast.Assign, ast.AnnAssign)) and st.value is not None else ('expr', norm(st)))
                elif isinstance(tg, (ast.Tuple, ast.List)) and any(attr_chain(x) == f'{selfname}.{attr}' for x in tg.elts):
                    i = [attr_chain(x) for x in tg.elts].index(f'{selfname}.{attr}')
                    v = st.value  # type: ignore[union-attr]
                    vals.add(_classify(v.elts[i], params) if isinstance(v, (ast.Tuple, ast.List)) and len(v.elts) == len(tg.elts) else ('expr', norm(st)))
        for c in walk_no_nested(st):
            if not isinstance(c, ast.Call) or not isinstance(c.func, ast.Attribute):
                continue
            if c.func.attr == 'setattr' or (isinstance(c.func.value, ast.Name) and c.func.value.id == selfname and c.func.attr != '__init__'):
                continue
            if c.func.attr != '__init__':
                continue
            recv = c.func.value
            if isinstance(recv, ast.Call) and isinstance(recv.func, ast.Name) and recv.func.id == 'super' and not recv.args:
                b, skip = _first_base(repo, mod, cls), 0
            elif attr_chain(recv) and c.args and norm(c.args[0]) == selfname:
                b, skip = repo.resolve_class(mod, attr_chain(recv).split('.')[-1]), 1  # type: ignore[union-attr]
            else:
                raise Undecided(f'{cls.name}.__init__: initialiser call `{short(c)}` not understood')
            if b is None:
                continue       # a class outside the repository (Exception): does not know the attribute
            bvals, binit, _ = attr_after_init(repo, b[0], b[1], attr, depth + 1)
            if bvals == {('unset', '')}:
                continue
            if binit is None:
                raise Undecided(f'{cls.name}.__init__: base initialiser of `{short(c)}` not found')
            bound = _bind_base(c, binit, skip)
            if bound is None:
                raise Undecided(f'{cls.name}.__init__: cannot bind the arguments of `{short(c)}`')
            for kind, x in bvals:
                if kind == 'param':
                    vals.add(_classify(bound.get(x), params))
                elif kind == 'unset':
                    vals.add(('expr', 'set on some paths of the base initialiser only'))
                else:
                    vals.add((kind, x))
        if isinstance(st, ast.Expr) and isinstance(st.value, ast.Call) and isinstance(st.value.func, ast.Name) and st.value.func.id == 'setattr' \
                and st.value.args and norm(st.value.args[0]) == selfname:
            vals.add(('expr', norm(st)))
        if vals:
            writers.append((n, vals))
    exits = [n for n in cfg.nodes if n.kind == 'exit_return']
    out: T.Set[Val] = set()
    wnodes = [w for w, _ in writers]
    for w, vals in writers:
        others = [x for x in wnodes if x is not w]
        reach = cfg.reachable([w], avoid=others, edge_ok=lambda a, b, lab, w=w: not (a is w and lab == 'exc'))
        if any(e.id in reach for e in exits):
            out |= vals
    reach0 = cfg.reachable([cfg.entry], avoid=wnodes)
    if any(e.id in reach0 for e in exits):
        out.add(('unset', ''))
    return out, fn, mod


def _is_meson_exc(repo: T.Any, mod: T.Any, cls: ast.ClassDef) -> bool:
    cur: T.Optional[T.Tuple[T.Any, ast.ClassDef]] = (mod, cls)
    for _ in range(6):
        if cur is None:
            return False
        if cur[1].name == 'MesonException':
            return True
        cur = _first_base(repo, cur[0], cur[1])
    return False


def check_located(ctx: RuleCtx, only: T.Optional[T.Set[str]] = None) -> None:
    mod = ctx.repo.module(MPARSER)
    n = 0
    for name, cls in mod.classes().items():
        if '.' in name or '#' in name or not _is_meson_exc(ctx.repo, mod, cls) or (only is not None and name not in only):
            continue
        n += 1
        for attr in ATTRS:
            vals, init, imod = attr_after_init(ctx.repo, mod, cls, attr)
            where = f'{name}.__init__' if init is not None and _own_init(cls) is init else name
            lost = sorted(v for v in vals if v[0] == 'const')
            unread = sorted(v for v in vals if v[0] in ('expr', 'unset'))
            if lost:
                ctx.violation(mod, where, f'self.{attr} at the end of the constructor',
                              f'a {name} can leave its constructor with self.{attr} = {lost[0][1]}: the last write on some path is a constant '
                              f'(an assignment, or a base initialiser called without `{attr}=` that resets it to its default) - the syntax error '
                              'carries no line/column', init or cls)
            elif unread:
                raise Undecided(f'{where}: self.{attr} ends as {unread[0]} on some path; only parameters and constants are read')
            else:
                ctx.ok(f'{where}: on every path the last write of self.{attr} stores the parameter {sorted(v[1] for v in vals)}')
    if only is None:
        ctx.floor('MesonException subclasses defined in mparser.py', n, 2)
