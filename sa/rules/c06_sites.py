"""C06 helper: enumerate the uses of set-typed values in a function and classify each (DESIGN B.5)."""
from __future__ import annotations

import ast
import typing as T

from ..core import Module, attr_chain, walk_no_nested, norm, short
from .c06_types import Ty, SET_OPS, base_name
from .c06_order import (UNORDERED, FC, Site, FuncNode, INSENSITIVE_FUNCS, PASSTHROUGH_FUNCS, SET_MUTATORS, SET_QUERIES, ITER_MUTATORS)
from .c06_consume import OrderAnalyzer, V, _callee_last

CANDIDATES = (ast.Name, ast.Attribute, ast.Call, ast.BinOp, ast.Set, ast.SetComp, ast.IfExp, ast.BoolOp, ast.Subscript, ast.NamedExpr)


class SiteScanner(OrderAnalyzer):

    def scan_module(self, mod: Module) -> T.List[Site]:
        out: T.List[Site] = []
        for q, fn in mod.funcs().items():
            out += self.scan_function(mod, fn, q)
        return out

    def _fc_chain(self, mod: Module, fn: FuncNode, qual: str) -> FC:
        """Context of fn with its lexically enclosing functions as parents."""
        parts = qual.split('.')
        parent: T.Optional[FC] = None
        for i in range(1, len(parts)):
            q = '.'.join(parts[:i])
            if mod.has_func(q):
                pf = mod.func(q)
                parent = self.fc_for(mod, pf, q, None, parent)
        return self.fc_for(mod, fn, qual, None, parent)

    def scan_function(self, mod: Module, fn: FuncNode, qual: str) -> T.List[Site]:
        fc = self._fc_chain(mod, fn, qual)
        out: T.List[Site] = []
        seen: T.Set[int] = set()
        for n in fc._own_nodes():
            for e in self._consumed_exprs(n):
                if id(e) in seen or not isinstance(e, CANDIDATES):
                    continue
                seen.add(id(e))
                t = self.ty(e, fc)
                if t.kind not in ('set', 'ambiguous'):
                    continue
                s = self.consume(e, t, fc)
                if s is not None:
                    out.append(s)
        return out

    @staticmethod
    def _consumed_exprs(n: ast.AST) -> T.Iterator[ast.AST]:
        """Child expressions of n that sit in a position where iteration order could matter."""
        if isinstance(n, (ast.For, ast.AsyncFor, ast.comprehension)):
            yield n.iter
        elif isinstance(n, ast.Call):
            for a in n.args:
                yield a.value if isinstance(a, ast.Starred) else a
            for k in n.keywords:
                yield k.value
            if isinstance(n.func, ast.Attribute) and n.func.attr not in SET_MUTATORS and n.func.attr not in SET_QUERIES:
                yield n.func.value
        elif isinstance(n, ast.FormattedValue):
            yield n.value
        elif isinstance(n, ast.BinOp) and isinstance(n.op, (ast.Mod, ast.Add)):
            yield n.left
            yield n.right
        elif isinstance(n, ast.AugAssign) and isinstance(n.op, ast.Add):
            yield n.value
        elif isinstance(n, (ast.List, ast.Tuple)):
            for x in n.elts:
                if isinstance(x, ast.Starred):
                    yield x.value

    # ------------------------------------------------------------------
    def is_sequence(self, e: ast.AST, fc: FC, depth: int = 0) -> bool:
        """e is a list / tuple whose order is written in the source (a priority sequence), by display, local definition or annotation."""
        if isinstance(e, (ast.List, ast.Tuple)):
            return True
        if isinstance(e, ast.Name) and depth < 3:
            o = fc.owner(e.id)
            if o is None:
                r = self.res.resolve_global(fc.mod, e.id)
                if r is not None and r[0].has_assign(r[1]):
                    return isinstance(r[0].assign_value(r[1]), (ast.List, ast.Tuple))
                return False
            ann = o.anns.get(e.id) or o.params.get(e.id)
            if ann is not None:
                return base_name(ann) in ('List', 'list', 'Tuple', 'tuple', 'Sequence')
            vals = o.values.get(e.id, [])
            return bool(vals) and all(self.is_sequence(v, o, depth + 1) for v in vals)
        return False

    def priority_discarded(self, s: Site, fc: FC) -> T.Optional[str]:
        """The unordered source is filtered by membership in a priority sequence and collected in the *source's* order:
        `[v for k, v in os.environ.items() if k in PRIORITY]` - the order written in PRIORITY is lost."""
        p = self.parent(fc, s.value)
        targets: T.Set[str] = set()
        tests: T.List[ast.AST] = []
        if isinstance(p, ast.comprehension):
            targets = {n.id for n in ast.walk(p.target) if isinstance(n, ast.Name)}
            tests = list(p.ifs)
        elif isinstance(p, (ast.For, ast.AsyncFor)):
            targets = {n.id for n in ast.walk(p.target) if isinstance(n, ast.Name)}
            tests = [n.test for st in p.body for n in walk_no_nested(st) if isinstance(n, ast.If)]
        for t in tests:
            for c in ast.walk(t):
                if isinstance(c, ast.Compare) and len(c.ops) == 1 and isinstance(c.ops[0], ast.In) and isinstance(c.left, ast.Name) \
                        and c.left.id in targets and self.is_sequence(c.comparators[0], fc):
                    return f'`{short(c, 50)}`: {short(c.comparators[0], 30)} is a sequence in priority order, but the result follows the order of the source'
        return None

    def _site(self, fc: FC, node: ast.AST, value: ast.AST, t: Ty, consumer: str, v: V) -> Site:
        verdict = {'benign': 'benign', 'escapes': 'violation', 'sensitive': 'violation', 'unknown': 'info', 'sanitised': 'sanitised'}[v[0]]
        if t.kind != 'set' and verdict == 'violation':
            verdict = 'info'
        return Site(fc.mod, fc.qual, node, value, verdict, consumer, v[1], t)

    def consume(self, e: ast.AST, t: Ty, fc: FC) -> T.Optional[Site]:
        p = self.parent(fc, e)
        if p is None:
            return None
        if isinstance(p, (ast.For, ast.AsyncFor)):
            if p.iter is not e:
                return None
            k = self.loop_kind(p, fc)
            head = ast.For(target=p.target, iter=p.iter, body=[ast.Expr(value=ast.Constant(value=Ellipsis))], orelse=[], lineno=p.lineno, col_offset=0)
            return self._site(fc, head, e, t, 'for loop', k)
        if isinstance(p, ast.comprehension):
            if p.iter is not e:
                return None
            comp = self.parent(fc, p)
            if isinstance(comp, ast.SetComp) or comp is None:
                return self._site(fc, comp or e, e, t, 'set comprehension', ('benign', 'collected into a set'))
            name = {ast.ListComp: 'list comprehension', ast.DictComp: 'dict comprehension', ast.GeneratorExp: 'generator expression'}.get(type(comp), 'comprehension')
            # effects inside the element expression (calls made once per element, in hash order)
            v = self.use_verdict(comp, fc)
            if v[0] == 'escapes':
                v = ('escapes', f'{name} over a set keeps hash order; {v[1]}')
            return self._site(fc, comp, e, t, name, v)
        if isinstance(p, ast.Starred):
            pp = self.parent(fc, p)
            if isinstance(pp, ast.Call):
                return self._call_site(pp, p, e, t, fc, starred=True)
            if isinstance(pp, (ast.List, ast.Tuple)):
                return self._site(fc, pp, e, t, '*-unpacking', self._esc(self.use_verdict(pp, fc), '*-unpacking of a set keeps hash order'))
            if isinstance(pp, ast.Set):
                return None
            return self._site(fc, pp or p, e, t, '*-unpacking', ('unknown', 'star in an unknown context'))
        if isinstance(p, ast.keyword):
            pp = self.parent(fc, p)
            if isinstance(pp, ast.Call):
                return self._call_site(pp, p.value, e, t, fc)
            return None
        if isinstance(p, ast.Call):
            if p.func is e:
                return None
            return self._call_site(p, e, e, t, fc)
        if isinstance(p, ast.Attribute):
            pp = self.parent(fc, p)
            if isinstance(pp, ast.Call) and pp.func is p:
                m = p.attr
                if attr_chain(e) == 'os.environ':
                    return None   # lookup / update by key, or items()/keys()/values() (typed and judged at their own consumer)
                if m in SET_MUTATORS or m in SET_QUERIES:
                    return None   # set operation on the set itself
                if m == 'pop':
                    return self._site(fc, pp, e, t, 'set.pop()', ('unknown', 'pop() takes an arbitrary element'))
                return self._site(fc, pp, e, t, f'.{m}()', ('unknown', f'method .{m}() on a set-typed value'))
            return None
        if isinstance(p, (ast.FormattedValue,)):
            js = self.parent(fc, p)
            return self._site(fc, js or p, e, t, 'f-string', self._esc(self.use_verdict(js or p, fc), 'text of a set depends on hash order'))
        if isinstance(p, ast.BinOp):
            if isinstance(p.op, SET_OPS):
                return None
            if isinstance(p.op, ast.Mod):
                return self._site(fc, p, e, t, '% formatting', self._esc(self.use_verdict(p, fc), 'text of a set depends on hash order'))
            return self._site(fc, p, e, t, 'operator', ('unknown', f'operator {p.op.__class__.__name__} on a set'))
        if isinstance(p, ast.AugAssign):
            if p.value is e and isinstance(p.op, ast.Add):
                tt = self.ty(p.target, fc)
                if tt.kind == 'set':
                    return None
                tgt = p.target
                if isinstance(tgt, ast.Name) and fc.owner(tgt.id) is fc and tgt.id not in fc.params:
                    return self._site(fc, p, e, t, '+= (extends a list)', self._esc(self.follow_local(tgt.id, fc, 1), 'a set is iterated into a list'))
                return self._site(fc, p, e, t, '+= (extends a list)', ('escapes', f'a set is iterated into {short(tgt, 40)}'))
            return None
        # stores, returns, tests, set algebra: not consumers of the order
        return None

    def _ctor_field(self, call: ast.Call, arg: ast.AST, fc: FC) -> T.Optional[T.Tuple[str, str]]:
        """`arg` is passed to the constructor of a repository class: ('set', '') when the receiving __init__ parameter /
        dataclass field is declared a set, ('stored', why) when it is a dataclass field of another declared type."""
        n = attr_chain(call.func)
        if not n:
            return None
        head = n.split('.')[0]
        if fc.owner(head) is not None:
            return None
        rc = self.res.resolve_cls(fc.mod, n)
        if rc is None:
            return None
        m, c = rc
        fm = self.repo.find_method(m, c, '__init__')
        if fm is not None:
            pn = self._arg_param(call, arg, fm[2], True)
            if pn is None:
                return None
            ann = {a.arg: a.annotation for a in fm[2].args.posonlyargs + fm[2].args.args + fm[2].args.kwonlyargs}.get(pn)
            if ann is not None and self.res.ann_ty(ann, fm[0]).kind == 'set':
                return ('set', '')
            return None
        # dataclass-style: positional order of the annotated class-level fields along the MRO (base first)
        fields: T.List[T.Tuple[str, ast.AST, Module]] = []
        for m2, c2 in reversed(self.repo.mro(m, c)):
            for st in c2.body:
                if isinstance(st, ast.AnnAssign) and isinstance(st.target, ast.Name):
                    if base_name(st.annotation) == 'ClassVar':
                        continue
                    if isinstance(st.value, ast.Call) and any(k.arg == 'init' and isinstance(k.value, ast.Constant) and k.value.value is False
                                                              for k in st.value.keywords):
                        continue
                    fields = [f for f in fields if f[0] != st.target.id] + [(st.target.id, st.annotation, m2)]
        name: T.Optional[str] = None
        for i, a in enumerate(call.args):
            if a is arg and i < len(fields):
                name = fields[i][0]
        for k in call.keywords:
            if k.value is arg:
                name = k.arg
        for fname, ann, m2 in fields:
            if fname == name:
                if self.res.ann_ty(ann, m2).kind == 'set':
                    return ('set', '')
                return ('stored', f'stored in field {c.name}.{fname}: {norm(ann)}')
        return None

    @staticmethod
    def _esc(v: V, prefix: str) -> V:
        if v[0] == 'escapes':
            return ('escapes', f'{prefix}; {v[1]}')
        return v

    def _call_site(self, call: ast.Call, arg: ast.AST, e: ast.AST, t: Ty, fc: FC, starred: bool = False) -> T.Optional[Site]:
        m = _callee_last(call)
        if 'environment variables' in t.why and t.why.startswith(UNORDERED) and not starred and \
                (m in ('dict', 'OrderedDict', 'update', 'EnvironmentVariables', 'ChainMap') or attr_chain(e) == 'os.environ'):
            return None       # the mapping is copied / handed on as a mapping: consumers look variables up by name
        cn = attr_chain(call.func) or m
        is_attr = isinstance(call.func, ast.Attribute)
        if m == 'sorted' and not is_attr:
            self.sorted_sites.append((fc.mod, fc.qual, call, t))
            return self._site(fc, call, e, t, 'sorted()', ('sanitised', 'wrapped in sorted()' + (' with key=' if any(k.arg == 'key' for k in call.keywords) else '')))
        if m in INSENSITIVE_FUNCS and not is_attr:
            if m in ('min', 'max') and any(k.arg == 'key' for k in call.keywords):
                return self._site(fc, call, e, t, f'{m}(key=)', ('unknown', 'the first of equal keys is returned'))
            return self._site(fc, call, e, t, f'{m}()', ('benign', 'order-insensitive builtin'))
        if self.is_mlog(call, fc) or self.is_exception_ctor(call, fc):
            return self._site(fc, call, e, t, 'log/exception text', ('benign', 'flows only into log / exception text'))
        if is_attr:
            rt = self.recv_ty(call, fc)
            if m in (SET_MUTATORS | SET_QUERIES) and rt.kind == 'set':
                return self._site(fc, call, e, t, f'set.{m}()', ('benign', 'set algebra / fills a set'))
            if m in SET_QUERIES or m in ('difference_update', 'intersection_update', 'symmetric_difference_update'):
                return self._site(fc, call, e, t, f'.{m}()', ('benign', 'set algebra (only sets have this method)'))
            if m == 'update' and rt.kind == 'unknown':
                return self._site(fc, call, e, t, f'.{m}()', ('unknown', f'receiver of .{m}() has unknown kind'))
            if m in ('append', 'add', 'insert', 'setdefault', 'put') and not starred:
                return None  # the set object itself is stored
        if starred and is_attr and m in ('union', 'intersection', 'update'):
            return self._site(fc, call, e, t, f'*-unpacking into .{m}()', ('benign', 'set algebra'))
        if (m in PASSTHROUGH_FUNCS and (not is_attr or m in ('join', 'from_iterable', 'fromkeys', 'format'))) or cn in ('os.path.join', 'itertools.chain') \
                or (is_attr and m in ITER_MUTATORS) or (is_attr and m == 'update' and self.recv_ty(call, fc).kind == 'ordered') \
                or (m in PASSTHROUGH_FUNCS and is_attr and (attr_chain(call.func) or '').split('.')[0] in ('mesonlib', 'itertools', 'T', 'collections')):
            label = ('*' if starred else '') + (f'.{m}()' if is_attr else f'{m}()')
            if is_attr and (m in ITER_MUTATORS or m == 'update'):
                v = self._call_arg_verdict(call, arg, fc, 0, seq=True)
            else:
                v = self.use_verdict(call, fc)
            return self._site(fc, call, e, t, label, self._esc(v, f'{label} of a set keeps hash order'))
        if starred:
            return self._site(fc, call, e, t, '*-unpacking', self._esc(self._call_arg_verdict(call, arg, fc, 0, seq=True), 'a set is *-unpacked in hash order'))
        ctor = self._ctor_field(call, arg, fc)
        if ctor is not None:
            if ctor[0] == 'set':
                return None      # stored in a field / constructor parameter declared a set
            if ctor[0] == 'stored':
                return self._site(fc, call, e, t, f'argument of {short(call.func, 40)}()', ('unknown', ctor[1]))
        v = self._call_arg_verdict(call, arg, fc, 0, seq=False)
        if v[0] == 'benign' and 'declared a set' in v[1]:
            return None
        if v[0] == 'escapes':
            v = ('escapes', f'the callee consumes the set order-sensitively: {v[1]}')
        return self._site(fc, call, e, t, f'argument of {short(call.func, 40)}()', v)
