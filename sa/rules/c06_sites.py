"""C06 helper: enumerate the uses of set-typed values in a function and classify each (DESIGN B.5)."""
from __future__ import annotations

import ast
import typing as T

from ..core import Module, attr_chain, walk_no_nested, norm, short
from .c06_types import Ty, SET_OPS
from .c06_order import (FC, Site, FuncNode, INSENSITIVE_FUNCS, PASSTHROUGH_FUNCS, SET_MUTATORS, SET_QUERIES, ITER_MUTATORS)
from .c06_consume import OrderAnalyzer, V, _callee_last

CANDIDATES = (ast.Name, ast.Attribute, ast.Call, ast.BinOp, ast.Set, ast.SetComp, ast.IfExp, ast.BoolOp, ast.Subscript, ast.NamedExpr)


class SiteScanner(OrderAnalyzer):

    def scan_module(self, mod: Module) -> T.List[Site]:
        out: T.List[Site] = []
        for q, fn in mod.funcs().items():
            out += self.scan_function(mod, fn, q)
        return out

    def _fc_chain(self, mod: Module, fn: FuncNode, qual: str) -> FC:
        """Context of fn with its lexically enclosing functions as parents."""
        parts = qual.split('.')
        parent: T.Optional[FC] = None
        for i in range(1, len(parts)):
            q = '.'.join(parts[:i])
            if mod.has_func(q):
                pf = mod.func(q)
                parent = self.fc_for(mod, pf, q, None, parent)
        return self.fc_for(mod, fn, qual, None, parent)

    def scan_function(self, mod: Module, fn: FuncNode, qual: str) -> T.List[Site]:
        fc = self._fc_chain(mod, fn, qual)
        out: T.List[Site] = []
        for n in fc._own_nodes():
            if not isinstance(n, CANDIDATES):
                continue
            if isinstance(n, ast.Name) and not isinstance(n.ctx, ast.Load):
                continue
            if isinstance(n, ast.Attribute) and not isinstance(n.ctx, ast.Load):
                continue
            t = self.ty(n, fc)
            if t.kind not in ('set', 'ambiguous'):
                continue
            s = self.consume(n, t, fc)
            if s is not None:
                out.append(s)
        return out

    # ------------------------------------------------------------------
    def _site(self, fc: FC, node: ast.AST, value: ast.AST, t: Ty, consumer: str, v: V) -> Site:
        verdict = {'benign': 'benign', 'escapes': 'violation', 'sensitive': 'violation', 'unknown': 'info', 'sanitised': 'sanitised'}[v[0]]
        if t.kind != 'set' and verdict == 'violation':
            verdict = 'info'
        return Site(fc.mod, fc.qual, node, value, verdict, consumer, v[1], t)

    def consume(self, e: ast.AST, t: Ty, fc: FC) -> T.Optional[Site]:
        p = self.parent(fc, e)
        if p is None:
            return None
        if isinstance(p, (ast.For, ast.AsyncFor)):
            if p.iter is not e:
                return None
            k = self.loop_kind(p, fc)
            head = ast.For(target=p.target, iter=p.iter, body=[ast.Expr(value=ast.Constant(value=Ellipsis))], orelse=[], lineno=p.lineno, col_offset=0)
            return self._site(fc, head, e, t, 'for loop', k)
        if isinstance(p, ast.comprehension):
            if p.iter is not e:
                return None
            comp = self.parent(fc, p)
            if isinstance(comp, ast.SetComp) or comp is None:
                return self._site(fc, comp or e, e, t, 'set comprehension', ('benign', 'collected into a set'))
            name = {ast.ListComp: 'list comprehension', ast.DictComp: 'dict comprehension', ast.GeneratorExp: 'generator expression'}.get(type(comp), 'comprehension')
            # effects inside the element expression (calls made once per element, in hash order)
            v = self.use_verdict(comp, fc)
            if v[0] == 'escapes':
                v = ('escapes', f'{name} over a set keeps hash order; {v[1]}')
            return self._site(fc, comp, e, t, name, v)
        if isinstance(p, ast.Starred):
            pp = self.parent(fc, p)
            if isinstance(pp, ast.Call):
                return self._call_site(pp, p, e, t, fc, starred=True)
            if isinstance(pp, (ast.List, ast.Tuple)):
                return self._site(fc, pp, e, t, '*-unpacking', self._esc(self.use_verdict(pp, fc), '*-unpacking of a set keeps hash order'))
            if isinstance(pp, ast.Set):
                return None
            return self._site(fc, pp or p, e, t, '*-unpacking', ('unknown', 'star in an unknown context'))
        if isinstance(p, ast.keyword):
            pp = self.parent(fc, p)
            if isinstance(pp, ast.Call):
                return self._call_site(pp, p.value, e, t, fc)
            return None
        if isinstance(p, ast.Call):
            if p.func is e:
                return None
            return self._call_site(p, e, e, t, fc)
        if isinstance(p, ast.Attribute):
            pp = self.parent(fc, p)
            if isinstance(pp, ast.Call) and pp.func is p:
                m = p.attr
                if m in SET_MUTATORS or m in SET_QUERIES:
                    return None   # set operation on the set itself
                if m == 'pop':
                    return self._site(fc, pp, e, t, 'set.pop()', ('unknown', 'pop() takes an arbitrary element'))
                return self._site(fc, pp, e, t, f'.{m}()', ('unknown', f'method .{m}() on a set-typed value'))
            return None
        if isinstance(p, (ast.FormattedValue,)):
            js = self.parent(fc, p)
            return self._site(fc, js or p, e, t, 'f-string', self._esc(self.use_verdict(js or p, fc), 'text of a set depends on hash order'))
        if isinstance(p, ast.BinOp):
            if isinstance(p.op, SET_OPS):
                return None
            if isinstance(p.op, ast.Mod):
                return self._site(fc, p, e, t, '% formatting', self._esc(self.use_verdict(p, fc), 'text of a set depends on hash order'))
            return self._site(fc, p, e, t, 'operator', ('unknown', f'operator {p.op.__class__.__name__} on a set'))
        if isinstance(p, ast.AugAssign):
            if p.value is e and isinstance(p.op, ast.Add):
                tt = self.ty(p.target, fc)
                if tt.kind == 'set':
                    return None
                tgt = p.target
                if isinstance(tgt, ast.Name) and fc.owner(tgt.id) is fc and tgt.id not in fc.params:
                    return self._site(fc, p, e, t, '+= (extends a list)', self._esc(self.follow_local(tgt.id, fc, 1), 'a set is iterated into a list'))
                return self._site(fc, p, e, t, '+= (extends a list)', ('escapes', f'a set is iterated into {short(tgt, 40)}'))
            return None
        # stores, returns, tests, set algebra: not consumers of the order
        return None

    @staticmethod
    def _esc(v: V, prefix: str) -> V:
        if v[0] == 'escapes':
            return ('escapes', f'{prefix}; {v[1]}')
        return v

    def _call_site(self, call: ast.Call, arg: ast.AST, e: ast.AST, t: Ty, fc: FC, starred: bool = False) -> T.Optional[Site]:
        m = _callee_last(call)
        cn = attr_chain(call.func) or m
        is_attr = isinstance(call.func, ast.Attribute)
        if m == 'sorted' and not is_attr:
            self.sorted_sites.append((fc.mod, fc.qual, call, t))
            return self._site(fc, call, e, t, 'sorted()', ('sanitised', 'wrapped in sorted()' + (' with key=' if any(k.arg == 'key' for k in call.keywords) else '')))
        if m in INSENSITIVE_FUNCS and not is_attr:
            if m in ('min', 'max') and any(k.arg == 'key' for k in call.keywords):
                return self._site(fc, call, e, t, f'{m}(key=)', ('unknown', 'the first of equal keys is returned'))
            return self._site(fc, call, e, t, f'{m}()', ('benign', 'order-insensitive builtin'))
        if self.is_mlog(call, fc) or self.is_exception_ctor(call, fc):
            return self._site(fc, call, e, t, 'log/exception text', ('benign', 'flows only into log / exception text'))
        if is_attr:
            rt = self.recv_ty(call, fc)
            if m in (SET_MUTATORS | SET_QUERIES) and rt.kind == 'set':
                return self._site(fc, call, e, t, f'set.{m}()', ('benign', 'set algebra / fills a set'))
            if m in ('update', 'union', 'intersection', 'difference') and rt.kind == 'unknown':
                return self._site(fc, call, e, t, f'.{m}()', ('unknown', f'receiver of .{m}() has unknown kind'))
            if m in ('append', 'add', 'insert', 'setdefault', 'put') and not starred:
                return None  # the set object itself is stored
        if starred and is_attr and m in ('union', 'intersection', 'update'):
            return self._site(fc, call, e, t, f'*-unpacking into .{m}()', ('benign', 'set algebra'))
        if (m in PASSTHROUGH_FUNCS and (not is_attr or m in ('join', 'from_iterable', 'fromkeys', 'format'))) or cn in ('os.path.join', 'itertools.chain') \
                or (is_attr and m in ITER_MUTATORS) or (is_attr and m == 'update' and self.recv_ty(call, fc).kind == 'ordered') \
                or (m in PASSTHROUGH_FUNCS and is_attr and (attr_chain(call.func) or '').split('.')[0] in ('mesonlib', 'itertools', 'T', 'collections')):
            label = ('*' if starred else '') + (f'.{m}()' if is_attr else f'{m}()')
            if is_attr and (m in ITER_MUTATORS or m == 'update'):
                v = self._call_arg_verdict(call, arg, fc, 0, seq=True)
            else:
                v = self.use_verdict(call, fc)
            return self._site(fc, call, e, t, label, self._esc(v, f'{label} of a set keeps hash order'))
        if starred:
            return self._site(fc, call, e, t, '*-unpacking', self._esc(self._call_arg_verdict(call, arg, fc, 0, seq=True), 'a set is *-unpacked in hash order'))
        v = self._call_arg_verdict(call, arg, fc, 0, seq=False)
        if v[0] == 'benign' and 'declared a set' in v[1]:
            return None
        if v[0] == 'escapes':
            v = ('escapes', f'the callee consumes the set order-sensitively: {v[1]}')
        return self._site(fc, call, e, t, f'argument of {short(call.func, 40)}()', v)
