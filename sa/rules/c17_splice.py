"""C17.R3 (splice discipline of Rewriter.apply_changes) and C17.R4 (bookkeeping of modified / to-sort nodes,
sorting, affects_no_other_targets guards)."""
from __future__ import annotations

import ast
import copy
import typing as T

from ..core import Module, Undecided, attr_chain, norm, short, walk_no_nested, kwarg
from ..cfg import CFG, Node
from ..consteval import fold_expr, Regex
from ..paths import enumerate_paths, Path
from ..report import RuleCtx
from .. import rx
from ..tables import canon

REWRITER = 'mesonbuild/rewriter.py'
MPARSER = 'mesonbuild/mparser.py'

# str.splitlines() line boundaries (Python library reference, "str.splitlines")
UNIVERSAL = frozenset(['\n', '\r', '\x0b', '\x0c', '\x1c', '\x1d', '\x1e', '\x85', ' ', ' '])
SPLICED_CLASSES = {'ArrayNode', 'FunctionNode'}


# ---------------------------------------------------------------------------
# small symbolic helpers
class _Subst(ast.NodeTransformer):
    def __init__(self, env: T.Dict[str, ast.AST]):
        self.env = env

    def visit_Name(self, n: ast.Name) -> ast.AST:
        if isinstance(n.ctx, ast.Load) and n.id in self.env:
            return copy.deepcopy(self.env[n.id])
        return n


def _strip_cast(e: ast.AST) -> ast.AST:
    class S(ast.NodeTransformer):
        def visit_Call(self, n: ast.Call) -> ast.AST:
            self.generic_visit(n)
            if attr_chain(n.func) in ('T.cast', 'typing.cast', 'cast') and len(n.args) == 2:
                return n.args[1]
            return n
    return S().visit(copy.deepcopy(e))


def sym_exec(path: Path, stop: T.Optional[ast.AST] = None, env: T.Optional[T.Dict[str, ast.AST]] = None) -> T.Dict[str, ast.AST]:
    """Copy propagation along one enumerated path: local name -> the *expression* (over parameters/attributes) it stands
    for before `stop`.  Nothing is evaluated; the result is only compared as a normalised expression shape (policy form d)."""
    env = dict(env or {})
    for ev in path.events:
        if ev.kind != 'stmt' or ev.node is None:
            continue
        st = ev.node
        if st is stop:
            break
        if isinstance(st, ast.Assign) and len(st.targets) == 1 and isinstance(st.targets[0], ast.Name):
            env[st.targets[0].id] = _Subst(env).visit(copy.deepcopy(st.value))
        elif isinstance(st, ast.AnnAssign) and isinstance(st.target, ast.Name) and st.value is not None:
            env[st.target.id] = _Subst(env).visit(copy.deepcopy(st.value))
        elif isinstance(st, ast.AugAssign) and isinstance(st.target, ast.Name):
            cur = env.get(st.target.id, ast.Name(id=st.target.id, ctx=ast.Load()))
            env[st.target.id] = ast.BinOp(left=copy.deepcopy(cur), op=st.op, right=_Subst(env).visit(copy.deepcopy(st.value)))
        elif isinstance(st, ast.Assign):
            for t in st.targets:
                for n in ast.walk(t):
                    if isinstance(n, ast.Name) and isinstance(n.ctx, ast.Store):
                        env.pop(n.id, None)
    return env


def _terms(e: ast.AST, sign: int = 1) -> T.List[T.Tuple[int, ast.AST]]:
    if isinstance(e, ast.BinOp) and isinstance(e.op, ast.Add):
        return _terms(e.left, sign) + _terms(e.right, sign)
    if isinstance(e, ast.BinOp) and isinstance(e.op, ast.Sub):
        return _terms(e.left, sign) + _terms(e.right, -sign)
    if isinstance(e, ast.UnaryOp) and isinstance(e.op, ast.USub):
        return _terms(e.operand, -sign)
    return [(sign, e)]


def linear(e: ast.AST) -> T.Tuple[T.Dict[str, int], int]:
    """e as sum of coefficient * <expression text> + constant."""
    coef: T.Dict[str, int] = {}
    const = 0
    for s, t in _terms(e):
        if isinstance(t, ast.Constant) and isinstance(t.value, int) and not isinstance(t.value, bool):
            const += s * t.value
        else:
            k = norm(t)
            coef[k] = coef.get(k, 0) + s
    return {k: v for k, v in coef.items() if v}, const


def _flatten_add(e: ast.AST) -> T.List[ast.AST]:
    if isinstance(e, ast.BinOp) and isinstance(e.op, ast.Add):
        return _flatten_add(e.left) + _flatten_add(e.right)
    return [e]


def template_parts(e: ast.AST) -> T.List[ast.AST]:
    """A text template as a list of pieces (string Constants and value expressions), whatever its spelling:
    `a + 'x'`, f-strings, `'%s=x' % a`, `'{}=x'.format(a)`, `''.join([a, 'x'])`."""
    if isinstance(e, ast.BinOp) and isinstance(e.op, ast.Add):
        return template_parts(e.left) + template_parts(e.right)
    if isinstance(e, ast.JoinedStr):
        out: T.List[ast.AST] = []
        for v in e.values:
            if isinstance(v, ast.Constant):
                out.append(v)
            elif isinstance(v, ast.FormattedValue) and v.format_spec is None and v.conversion in (-1, 115):
                out += template_parts(v.value) if isinstance(v.value, (ast.JoinedStr, ast.Constant)) else [v.value]
            else:
                return [e]
        return out
    if isinstance(e, ast.BinOp) and isinstance(e.op, ast.Mod) and isinstance(e.left, ast.Constant) and isinstance(e.left.value, str):
        args = list(e.right.elts) if isinstance(e.right, ast.Tuple) else [e.right]
        chunks = e.left.value.split('%s')
        if len(chunks) == len(args) + 1 and not any('%' in c for c in chunks):
            out = []
            for i, c in enumerate(chunks):
                if c:
                    out.append(ast.Constant(value=c))
                if i < len(args):
                    out.append(args[i])
            return out
        return [e]
    if isinstance(e, ast.Call) and isinstance(e.func, ast.Attribute) and e.func.attr == 'format' and isinstance(e.func.value, ast.Constant) \
            and isinstance(e.func.value.value, str) and not e.keywords:
        chunks = e.func.value.value.split('{}')
        if len(chunks) == len(e.args) + 1 and not any('{' in c or '}' in c for c in chunks):
            out = []
            for i, c in enumerate(chunks):
                if c:
                    out.append(ast.Constant(value=c))
                if i < len(e.args):
                    out.append(e.args[i])
            return out
        return [e]
    if isinstance(e, ast.Call) and isinstance(e.func, ast.Attribute) and e.func.attr == 'join' and isinstance(e.func.value, ast.Constant) \
            and e.func.value.value == '' and len(e.args) == 1 and isinstance(e.args[0], (ast.List, ast.Tuple)):
        out = []
        for x in e.args[0].elts:
            out += template_parts(x)
        return out
    return [e]


def fold_str_names(mod: Module, parts: T.List[ast.AST]) -> T.List[ast.AST]:
    """Template pieces that are names of module-level string constants become the constants they name."""
    out: T.List[ast.AST] = []
    for p_ in parts:
        if isinstance(p_, ast.Name) and mod.has_assign(p_.id):
            try:
                v = fold_expr(mod.repo, mod, p_)
            except Undecided:
                v = None
            if isinstance(v, str):
                out.append(ast.Constant(value=v))
                continue
        out.append(p_)
    return out


def const_str(mod: Module, e: ast.AST) -> T.Optional[str]:
    if isinstance(e, ast.Constant) and isinstance(e.value, str):
        return e.value
    if isinstance(e, (ast.Name, ast.Attribute, ast.BinOp, ast.JoinedStr)):
        try:
            v = fold_expr(mod.repo, mod, e)
        except Exception:
            return None
        return v if isinstance(v, str) else None
    return None


def inline_trivial_helpers(mod: Module, fn: ast.FunctionDef, cls: T.Optional[str]) -> ast.FunctionDef:
    """Source-to-source: calls of helpers of the same class / module whose body is a single `return <expr>` are replaced by that
    expression with the arguments substituted (bound by signature).  The copy keeps line numbers for reports."""
    nested: T.Dict[str, ast.FunctionDef] = {}
    for n_ in ast.walk(fn):
        if isinstance(n_, ast.FunctionDef) and n_ is not fn:
            b_ = [st for st in n_.body if not (isinstance(st, ast.Expr) and isinstance(st.value, ast.Constant))]
            if len(b_) == 1 and isinstance(b_[0], ast.Return) and b_[0].value is not None:
                nested[n_.name] = n_

    class Inl(ast.NodeTransformer):
        def __init__(self) -> None:
            self.depth = 0

        def visit_Call(self, c: ast.Call) -> ast.AST:
            self.generic_visit(c)
            cn = attr_chain(c.func) or ''
            parts = cn.split('.')
            q = None
            h: T.Any = None
            if len(parts) == 2 and parts[0] in ('self', 'cls', cls or '') and cls and mod.has_func(f'{cls}.{parts[1]}'):
                q = f'{cls}.{parts[1]}'
            elif len(parts) == 1 and parts[0] in nested:
                q, h = parts[0], nested[parts[0]]          # a closure defined inside the function itself
            elif len(parts) == 1 and mod.has_func(parts[0]) and '.' not in parts[0]:
                q = parts[0]
            if q is None or self.depth > 2:
                return c
            if h is None:
                h = mod.func(q)
            body = [st for st in h.body if not (isinstance(st, ast.Expr) and isinstance(st.value, ast.Constant))]
            if h is fn or len(body) != 1 or not isinstance(body[0], ast.Return) or body[0].value is None or not isinstance(h, ast.FunctionDef):
                return c
            if any(isinstance(n, (ast.Lambda,)) and any(a.arg in [x.arg for x in h.args.args] for a in n.args.args) for n in ast.walk(body[0].value)):
                return c
            b = bind_args(c, h, '.' in q and q not in nested)
            hp = [a.arg for a in h.args.args if a.arg not in ('self', 'cls')]
            if set(hp) - set(b):
                return c       # defaults in play: keep the call
            self.depth += 1
            new_e = _Subst({k: v for k, v in b.items()}).visit(copy.deepcopy(body[0].value))
            self.depth -= 1
            return ast.copy_location(new_e, c)
    out = Inl().visit(copy.deepcopy(fn))
    ast.fix_missing_locations(out)
    return T.cast(ast.FunctionDef, out)


def bind_args(call: ast.Call, fn: ast.FunctionDef, is_method: bool) -> T.Dict[str, ast.AST]:
    """Call arguments bound to the callee's parameters by signature (positional index or keyword name);
    `obj.m(a)` and `Class.m(obj, a)` / static methods are told apart by the decorator and the receiver."""
    params = [a.arg for a in fn.args.posonlyargs + fn.args.args]
    static = any(norm(d) == 'staticmethod' for d in fn.decorator_list)
    if is_method and not static and params and params[0] in ('self', 'cls'):
        recv = call.func.value if isinstance(call.func, ast.Attribute) else None
        explicit_self = isinstance(recv, ast.Name) and recv.id[:1].isupper() and call.args and norm(call.args[0]) in ('self', 'cls')
        if not explicit_self:
            params = params[1:]
    out: T.Dict[str, ast.AST] = {}
    for i, a in enumerate(call.args):
        if i < len(params) and not isinstance(a, ast.Starred):
            out[params[i]] = a
    for k in call.keywords:
        if k.arg:
            out[k.arg] = k.value
    return out


def _stable(e: ast.AST) -> bool:
    """An expression that may be written twice without changing anything: a name, an attribute chain, a constant."""
    return isinstance(e, ast.Constant) or attr_chain(e) is not None


def _aug_targets_to_load(root: ast.AST, names: T.Optional[T.Set[str]] = None) -> T.Set[str]:
    """`p += v` on a bare name: the target is made substitutable (it stands for the object `p` names, extended in place)."""
    seen: T.Set[str] = set()
    for n in ast.walk(root):
        if isinstance(n, ast.AugAssign) and isinstance(n.target, ast.Name) and isinstance(n.op, ast.Add) and (names is None or n.target.id in names):
            seen.add(n.target.id)
            n.target = ast.Name(id=n.target.id, ctx=ast.Load())
    return seen


def _aug_targets_to_store(root: ast.AST) -> bool:
    ok = True
    for n in ast.walk(root):
        if isinstance(n, ast.AugAssign) and isinstance(getattr(n.target, 'ctx', None), ast.Load):
            if isinstance(n.target, (ast.Name, ast.Attribute, ast.Subscript)):
                n.target.ctx = ast.Store()
            else:
                ok = False
    return ok


def _relocate(nodes: T.List[ast.AST], at: ast.AST) -> None:
    for st in nodes:
        for n in ast.walk(st):
            if hasattr(n, 'lineno') or isinstance(n, (ast.stmt, ast.expr)):
                ast.copy_location(n, at)


def inline_effect_helpers(mod: Module, fn: ast.FunctionDef, cls: T.Optional[str], rounds: int = 2) -> ast.FunctionDef:
    """Source-to-source normal form for 'extract method' of an *effect* (refactoring kinds E1/E3): a statement that is only a call
    of a small procedure of the same module / class / function (no value returned, no early exit, straight parameters) is replaced
    by the procedure's body with the parameters substituted by the argument expressions (which must be names, attribute chains or
    constants, so writing them several times changes nothing).  Locals of the procedure are renamed apart.  `p += [..]` on a
    parameter is the in-place extension of the argument.  Anything else is left as the call it is."""
    def eligible(h: ast.AST) -> bool:
        if not isinstance(h, ast.FunctionDef) or h is fn or len(h.body) > 10:
            return False
        if any(norm(d) != 'staticmethod' for d in h.decorator_list) or h.args.vararg or h.args.kwarg:
            return False
        params = {a.arg for a in h.args.posonlyargs + h.args.args + h.args.kwonlyargs}
        for n in ast.walk(h):
            if n is h:
                continue
            if isinstance(n, (ast.Return, ast.Yield, ast.YieldFrom, ast.FunctionDef, ast.AsyncFunctionDef, ast.Lambda, ast.Global, ast.Nonlocal, ast.ClassDef, ast.Await)):
                return False
            if isinstance(n, ast.Name) and isinstance(n.ctx, (ast.Store, ast.Del)) and n.id in params:
                return False
        return True

    class Inl(ast.NodeTransformer):
        changed = False
        sites = 0

        def __init__(self, nested: T.Dict[str, ast.FunctionDef]):
            self.nested = nested

        def visit_Expr(self, st: ast.Expr) -> T.Any:
            c = st.value
            if not isinstance(c, ast.Call):
                return st
            cn = attr_chain(c.func) or ''
            parts = cn.split('.')
            h: T.Any = None
            is_method = False
            if len(parts) == 1 and parts[0] in self.nested:
                h = self.nested[parts[0]]
            elif len(parts) == 1 and parts[0] and mod.has_func(parts[0]):
                h = mod.func(parts[0])
            elif len(parts) == 2 and cls and parts[0] in ('self', 'cls') and mod.has_func(f'{cls}.{parts[1]}'):
                h, is_method = mod.func(f'{cls}.{parts[1]}'), True
            if h is None:
                return st
            # `p += [x]` on a parameter: in-place extension of the argument (the re-binding of the local is the same object)
            hh = copy.deepcopy(h)
            aug_params = _aug_targets_to_load(hh)      # substituted below, turned back into targets
            if not eligible(hh):
                return st
            b = bind_args(c, hh, is_method)
            hp = [a.arg for a in hh.args.posonlyargs + hh.args.args + hh.args.kwonlyargs if a.arg not in ('self', 'cls')]
            if set(hp) - set(b) or not all(_stable(v) for v in b.values()) or any(isinstance(a, ast.Starred) for a in c.args) or any(k.arg is None for k in c.keywords):
                return st
            if any(p in aug_params and attr_chain(b[p]) is None for p in hp):
                return st
            local = {n.id for n in ast.walk(hh) if isinstance(n, ast.Name) and isinstance(n.ctx, ast.Store)}
            Inl.sites += 1          # renamed apart per call site: a condition named inside the procedure keeps a single definition
            ren = {n: f'_{hh.name.strip("_")}{Inl.sites}_{n}' for n in local}
            for n in ast.walk(hh):
                if isinstance(n, ast.Name) and n.id in ren:
                    n.id = ren[n.id]
            body = [s for s in hh.body if not (isinstance(s, ast.Expr) and isinstance(s.value, ast.Constant))]
            body = [_Subst(dict(b)).visit(s) for s in body]
            for s in body:
                _aug_targets_to_store(s)
            if not body:
                body = [ast.Pass()]
            _relocate(body, st)
            Inl.changed = True
            return body

    out = fn
    for _ in range(rounds):
        nested = {n.name: n for n in ast.walk(out) if isinstance(n, ast.FunctionDef) and n is not out}
        names = {(attr_chain(s.value.func) or '').split('.')[-1] for s in ast.walk(out) if isinstance(s, ast.Expr) and isinstance(s.value, ast.Call)}
        if not any(nm in nested or mod.has_func(nm) or (cls and mod.has_func(f'{cls}.{nm}')) for nm in names if nm):
            break
        Inl.changed = False
        new = Inl(nested).visit(copy.deepcopy(out))
        if not Inl.changed:
            break
        out = ast.fix_missing_locations(new)
    return T.cast(ast.FunctionDef, out)


def unroll_constant_loops(fn: ast.FunctionDef) -> ast.FunctionDef:
    """Source-to-source normal form for refactoring kind A4 (a fixed sequence of statements <-> a loop over a constant tuple of
    callables / records): `for v in (e1, .., en): BODY` (the tuple written in place or bound once to a local that is used nowhere
    else) becomes BODY[v:=e1]; ..; BODY[v:=en] when every ei is a lambda, a name, an attribute chain or a constant (or a tuple of
    these, unpacked by a tuple target), the body neither re-binds v nor leaves the loop early; an immediately applied lambda is
    beta-reduced when its arguments are names/attribute chains/constants and none of its free names is bound in the body."""
    def display_of(e: ast.AST, scope: ast.AST) -> T.Optional[T.List[ast.AST]]:
        if isinstance(e, (ast.Tuple, ast.List)):
            return list(e.elts)
        if isinstance(e, ast.Name):
            defs = [n for n in ast.walk(scope) if isinstance(n, (ast.Assign, ast.AnnAssign, ast.AugAssign, ast.For, ast.NamedExpr, ast.comprehension, ast.With))
                    and any(isinstance(x, ast.Name) and x.id == e.id and isinstance(x.ctx, ast.Store)
                            for t in (n.targets if isinstance(n, ast.Assign) else [getattr(n, 'target', None)] if not isinstance(n, ast.With) else [i.optional_vars for i in n.items])
                            if t is not None for x in ast.walk(t))]
            uses = [x for x in ast.walk(scope) if isinstance(x, ast.Name) and x.id == e.id]
            if len(defs) == 1 and isinstance(defs[0], (ast.Assign, ast.AnnAssign)) and defs[0].value is not None and len(uses) == 2 \
                    and isinstance(defs[0].value, (ast.Tuple, ast.List)) and isinstance(defs[0].targets[0] if isinstance(defs[0], ast.Assign) else defs[0].target, ast.Name):
                return list(defs[0].value.elts)
        return None

    def elem_ok(e: ast.AST) -> bool:
        return isinstance(e, ast.Lambda) or _stable(e)

    class Beta(ast.NodeTransformer):
        def __init__(self, bound: T.Set[str]):
            self.bound = bound

        def visit_Call(self, c: ast.Call) -> ast.AST:
            self.generic_visit(c)
            f = c.func
            if isinstance(f, ast.Lambda) and not c.keywords and not f.args.vararg and not f.args.kwarg and not f.args.kwonlyargs and not f.args.defaults \
                    and len(c.args) == len(f.args.posonlyargs + f.args.args) and all(_stable(a) for a in c.args):
                ps = [a.arg for a in f.args.posonlyargs + f.args.args]
                free = {n.id for n in ast.walk(f.body) if isinstance(n, ast.Name)} - set(ps)
                inner_bound = {n.id for n in ast.walk(f.body) if isinstance(n, ast.Name) and isinstance(n.ctx, ast.Store)}
                arg_names = {n.id for a in c.args for n in ast.walk(a) if isinstance(n, ast.Name)}
                if not (free & self.bound) and not (inner_bound & arg_names):
                    return ast.copy_location(_Subst(dict(zip(ps, c.args))).visit(copy.deepcopy(f.body)), c)
            return c

    class Un(ast.NodeTransformer):
        changed = False

        def __init__(self, scope: ast.AST):
            self.scope = scope

        def visit_For(self, loop: ast.For) -> T.Any:
            self.generic_visit(loop)
            elts = display_of(loop.iter, self.scope)
            if elts is None or loop.orelse or not elts or len(elts) > 12 or any(isinstance(x, ast.Starred) for x in elts):
                return loop
            tg = loop.target
            names = [tg.id] if isinstance(tg, ast.Name) else [x.id for x in tg.elts if isinstance(x, ast.Name)] if isinstance(tg, ast.Tuple) else []
            if not names or (isinstance(tg, ast.Tuple) and len(names) != len(tg.elts)):
                return loop
            body0 = [copy.deepcopy(s) for s in loop.body]
            aug = set()
            for s in body0:
                aug |= _aug_targets_to_load(s, set(names))       # `v += [..]` extends the element in place
            inside = [n for s in body0 for n in ast.walk(s)]
            if any(isinstance(n, (ast.Break, ast.Continue, ast.FunctionDef, ast.AsyncFunctionDef, ast.Lambda, ast.Yield, ast.YieldFrom)) for n in inside):
                return loop      # early exits of the loop / closures that would see the loop variable late
            if any(isinstance(n, ast.Name) and n.id in names and isinstance(n.ctx, (ast.Store, ast.Del)) for n in inside):
                return loop
            bound = {n.id for n in inside if isinstance(n, ast.Name) and isinstance(n.ctx, ast.Store)}
            out: T.List[ast.AST] = []
            for el in elts:
                if isinstance(tg, ast.Name):
                    if not elem_ok(el):
                        return loop
                    env = {tg.id: el}
                else:
                    if not (isinstance(el, ast.Tuple) and len(el.elts) == len(names) and all(elem_ok(x) for x in el.elts)):
                        return loop
                    env = dict(zip(names, el.elts))
                if any(attr_chain(env[a]) is None for a in aug):
                    return loop
                for s in body0:
                    s2 = _Subst(env).visit(copy.deepcopy(s))
                    _aug_targets_to_store(s2)
                    out.append(Beta(bound).visit(s2))
            Un.changed = True
            return out

    if not any(isinstance(n, ast.For) and (isinstance(n.iter, (ast.Tuple, ast.List, ast.Name))) for n in ast.walk(fn)):
        return fn
    Un.changed = False
    new = Un(fn).visit(copy.deepcopy(fn))
    if not Un.changed:
        return fn
    return T.cast(ast.FunctionDef, ast.fix_missing_locations(new))


def nf_func(mod: Module, qn: str) -> ast.FunctionDef:
    """mod.func(qn) in effect normal form (the class is the qualifier of qn when it names one)."""
    fn = mod.func(qn)
    cls = qn.rsplit('.', 1)[0] if '.' in qn and mod.has_cls(qn.rsplit('.', 1)[0]) else None
    return effect_normal_form(mod, T.cast(ast.FunctionDef, fn), cls) if isinstance(fn, ast.FunctionDef) else fn  # type: ignore[return-value]


def effect_normal_form(mod: Module, fn: ast.FunctionDef, cls: T.Optional[str]) -> ast.FunctionDef:
    """The function as the bookkeeping rules read it: effect helpers inlined, loops over constant tuples of callables unrolled."""
    return unroll_constant_loops(inline_effect_helpers(mod, fn, cls))


def const_values_tested(test: ast.AST, var: str, mod: T.Optional[Module] = None) -> T.Optional[T.Set[T.Any]]:
    """The constants `var` is compared with when `test` holds: `var == c`, `c == var`, `var in {..}`, `var == a or var == b`."""
    if isinstance(test, ast.BoolOp) and isinstance(test.op, ast.Or):
        out: T.Set[T.Any] = set()
        for v in test.values:
            r = const_values_tested(v, var, mod)
            if r is None:
                return None
            out |= r
        return out
    if isinstance(test, ast.Compare) and len(test.ops) == 1:
        l, r = test.left, test.comparators[0]
        if isinstance(test.ops[0], ast.Eq):
            if norm(l) == var and isinstance(r, ast.Constant):
                return {r.value}
            if norm(r) == var and isinstance(l, ast.Constant):
                return {l.value}
        if isinstance(test.ops[0], ast.In) and norm(l) == var:
            if isinstance(r, (ast.Name, ast.Attribute)) and mod is not None:
                try:                                   # a named constant set: folded
                    v_ = fold_expr(mod.repo, mod, r)
                except Exception:
                    v_ = None
                if isinstance(v_, (set, frozenset, tuple, list)) and all(isinstance(x, (str, int)) for x in v_):
                    return set(v_)
            if isinstance(r, (ast.Set, ast.Tuple, ast.List)) and all(isinstance(x, ast.Constant) for x in r.elts):
                return {x.value for x in r.elts}  # type: ignore[attr-defined]
            if isinstance(r, ast.Call) and norm(r.func) in ('frozenset', 'set') and len(r.args) == 1 and isinstance(r.args[0], (ast.Set, ast.Tuple, ast.List)) \
                    and all(isinstance(x, ast.Constant) for x in r.args[0].elts):
                return {x.value for x in r.args[0].elts}  # type: ignore[attr-defined]
    return None


# ---------------------------------------------------------------------------
# lexer facts
def _lexer_table(mod: Module, attr: str) -> ast.AST:
    fn = mod.func('Lexer.__init__')
    found = None
    for n in walk_no_nested(fn):
        if isinstance(n, ast.Assign) and len(n.targets) == 1 and attr_chain(n.targets[0]) == f'self.{attr}':
            found = n.value
        elif isinstance(n, ast.AnnAssign) and attr_chain(n.target) == f'self.{attr}' and n.value is not None:
            found = n.value
    if found is None and mod.has_assign(attr, mod.cls('Lexer')):
        found = mod.assign_value(attr, mod.cls('Lexer'))          # a class-level table read through self
    if found is None:
        raise Undecided(f'Lexer.__init__ does not assign self.{attr}')
    return found


def _single_return(h: ast.AST) -> T.Optional[ast.AST]:
    body = [st for st in getattr(h, 'body', []) if not (isinstance(st, ast.Expr) and isinstance(st.value, ast.Constant))]
    if len(body) == 1 and isinstance(body[0], ast.Return) and body[0].value is not None:
        return body[0].value
    return None


def sequence_elements(mod: Module, e: ast.AST, cls: T.Optional[str] = None, depth: int = 0) -> T.List[ast.AST]:
    """The element expressions of a *constant-shaped* sequence, however it is put together (closed-world reading of a table):
    a list/tuple display with `*` splices, `a + b`, `list(x)` / `tuple(x)` / `x.copy()` / `x[:]`, the name of a module- or
    class-level constant, or a call of a module-level function / method of `cls` that is a single `return <sequence>` (its
    parameters are substituted by the call's arguments).  Nothing is evaluated; anything else is Undecided."""
    if depth > 6:
        raise Undecided(f'table {short(e)} is nested too deeply to be read')
    if isinstance(e, (ast.List, ast.Tuple)):
        out: T.List[ast.AST] = []
        for x in e.elts:
            out += sequence_elements(mod, x.value, cls, depth + 1) if isinstance(x, ast.Starred) else [x]
        return out
    if isinstance(e, ast.BinOp) and isinstance(e.op, ast.Add):
        return sequence_elements(mod, e.left, cls, depth + 1) + sequence_elements(mod, e.right, cls, depth + 1)
    if isinstance(e, ast.Call) and norm(e.func) in ('list', 'tuple') and len(e.args) == 1 and not e.keywords:
        return sequence_elements(mod, e.args[0], cls, depth + 1)
    if isinstance(e, ast.Call) and isinstance(e.func, ast.Attribute) and e.func.attr == 'copy' and not e.args:
        return sequence_elements(mod, e.func.value, cls, depth + 1)
    if isinstance(e, ast.Subscript) and isinstance(e.slice, ast.Slice) and e.slice.lower is None and e.slice.upper is None and e.slice.step is None:
        return sequence_elements(mod, e.value, cls, depth + 1)
    e = _strip_cast(e) if isinstance(e, ast.Call) and attr_chain(e.func) in ('T.cast', 'typing.cast', 'cast') else e
    if isinstance(e, ast.Name) and mod.has_assign(e.id):
        return sequence_elements(mod, mod.assign_value(e.id), cls, depth + 1)
    ch = attr_chain(e) or ''
    if cls and ch.count('.') == 1 and ch.split('.')[0] in ('self', 'cls', cls) and mod.has_assign(ch.split('.')[1], mod.cls(cls)):
        return sequence_elements(mod, mod.assign_value(ch.split('.')[1], mod.cls(cls)), cls, depth + 1)
    if isinstance(e, ast.Call):
        cn = attr_chain(e.func) or ''
        parts = cn.split('.')
        q = None
        if len(parts) == 1 and mod.has_func(parts[0]):
            q = parts[0]
        elif cls and len(parts) == 2 and parts[0] in ('self', 'cls', cls) and mod.has_func(f'{cls}.{parts[1]}'):
            q = f'{cls}.{parts[1]}'
        if q is not None:
            h = mod.func(q)
            rv = _single_return(h)
            if rv is not None and isinstance(h, ast.FunctionDef):
                b = bind_args(e, h, '.' in q)
                hp = [a.arg for a in h.args.args + h.args.kwonlyargs if a.arg not in ('self', 'cls')]
                if not set(hp) - set(b):
                    return sequence_elements(mod, _Subst(b).visit(copy.deepcopy(rv)), cls, depth + 1)
    raise Undecided(f'table {short(e)} is not put together from displays, constants and single-return helpers')


def lexer_single_chars(ctx: RuleCtx, mod: Module) -> T.Dict[str, str]:
    """character -> token id of the single-character table; a per-instance copy (`dict(X)`, `X.copy()`, `{**X}`) is read through."""
    e = _lexer_table(mod, 'single_char_tokens')
    for _ in range(3):
        if isinstance(e, ast.Call) and norm(e.func) == 'dict' and len(e.args) == 1 and not e.keywords:
            e = e.args[0]
        elif isinstance(e, ast.Call) and isinstance(e.func, ast.Attribute) and e.func.attr == 'copy' and not e.args:
            e = e.func.value
        elif isinstance(e, ast.Dict) and len(e.keys) == 1 and e.keys[0] is None:
            e = e.values[0]
    v = fold_expr(ctx.repo, mod, e)
    if not isinstance(v, dict):
        raise Undecided('Lexer.single_char_tokens does not fold to a mapping')
    return v


def lexer_token_spec(mod: Module) -> T.Dict[str, ast.AST]:
    """token id -> the expression of its pattern, for the ordered (id, pattern) table of the lexer."""
    out: T.Dict[str, ast.AST] = {}
    for el in sequence_elements(mod, _lexer_table(mod, 'token_specification'), 'Lexer'):
        if not (isinstance(el, ast.Tuple) and len(el.elts) == 2 and isinstance(el.elts[0], ast.Constant) and isinstance(el.elts[0].value, str)):
            raise Undecided(f'Lexer.token_specification: entry {short(el)} is not a (token id, pattern) pair')
        if el.elts[0].value in out:
            raise Undecided(f'Lexer.token_specification lists the token {el.elts[0].value!r} twice')
        out[el.elts[0].value] = el.elts[1]
    return out


def lexer_line_model(ctx: RuleCtx) -> T.Tuple[T.Set[str], int, int, T.List[str]]:
    """(characters that advance the lexer's line counter, first line number, first column, evidence)."""
    mod = ctx.repo.module(MPARSER)
    fn = mod.func('Lexer.lex')
    pm = mod.parent_map()
    evidence: T.List[str] = []
    first_line: T.Optional[int] = None
    line_var = None
    # the line variable is what a token is stamped with: Token(tid, filename, line_start, <lineno>, col, ...)
    for c in walk_no_nested(fn):
        if isinstance(c, ast.Call) and norm(c.func) == 'Token' and len(c.args) == 7:
            ln, col = c.args[3], c.args[4]
            defs = {n.targets[0].id: n.value for n in walk_no_nested(fn) if isinstance(n, ast.Assign) and len(n.targets) == 1 and isinstance(n.targets[0], ast.Name)}
            if isinstance(ln, ast.Name) and ln.id in defs and isinstance(defs[ln.id], ast.Name):
                line_var = defs[ln.id].id      # curline = lineno
            elif isinstance(ln, ast.Name):
                line_var = ln.id
            cdef = None
            if isinstance(col, ast.Name):
                cands = [n.value for n in walk_no_nested(fn) if isinstance(n, ast.Assign) and len(n.targets) == 1 and norm(n.targets[0]) == col.id]
                if len(cands) == 1:
                    cdef = cands[0]
            if cdef is None or not (isinstance(cdef, ast.BinOp) and isinstance(cdef.op, ast.Sub)):
                raise Undecided('Lexer.lex: column of a token is not <position> - <line start>')
    if line_var is None:
        raise Undecided('Lexer.lex: no Token(...) construction found')
    sets: T.Set[str] = set()
    n_inc = 0
    guard_of: T.Dict[int, ast.If] = {}
    rebase_checks: T.List[T.Tuple[ast.AugAssign, ast.If]] = []
    for st in walk_no_nested(fn):
        if isinstance(st, ast.Assign) and len(st.targets) == 1 and norm(st.targets[0]) == line_var:
            if isinstance(st.value, ast.Constant) and isinstance(st.value.value, int) and first_line is None:
                first_line = st.value.value
                continue
            raise Undecided(f'Lexer.lex: {norm(st)} re-assigns the line counter')
        if not (isinstance(st, ast.AugAssign) and norm(st.target) == line_var and isinstance(st.op, ast.Add)):
            continue
        n_inc += 1
        # innermost enclosing `if` on the token id whose body holds the increment
        cur: ast.AST = st
        trig: T.Optional[T.Set[str]] = None
        while cur in pm and trig is None:
            par = pm[cur]
            if isinstance(par, ast.If) and cur in par.body and 'tid' in {n.id for n in ast.walk(par.test) if isinstance(n, ast.Name)}:
                trig = _trigger_chars(ctx, mod, fn, par, st)
                guard_of[id(st)] = par
            cur = par
        if trig is None:
            raise Undecided(f'Lexer.lex: cannot tell which characters trigger `{norm(st)}`')
        evidence.append(f'{norm(st)} is triggered by {sorted(trig)!r}')
        sets |= trig
        # the line start must be re-based where the line counter moves (column 0 = first character after the terminator)
        rebase_checks.append((st, guard_of[id(st)]))
    if first_line is None:
        raise Undecided('Lexer.lex: initial line number not found')
    if n_inc < 3:
        raise Undecided(f'Lexer.lex: only {n_inc} line counter increments found (eol, multi-line strings, continuation expected)')
    first_col = 0   # col = loc - line_start with line_start = position right after the terminator
    # ---- re-basing of the line start: col = <pos> - <start>; wherever the line counter moves, <start> must become the position of the
    # first character after the last terminator of the token
    coldef = [n.value for n in walk_no_nested(fn) if isinstance(n, ast.Assign) and len(n.targets) == 1 and isinstance(n.value, ast.BinOp)
              and isinstance(n.value.op, ast.Sub) and isinstance(n.value.left, ast.Name) and isinstance(n.value.right, ast.Name)
              and any(isinstance(c_, ast.Call) and norm(c_.func) == 'Token' and len(c_.args) == 7 and norm(c_.args[4]) == norm(n.targets[0]) for c_ in walk_no_nested(fn))]
    if len(coldef) != 1:
        raise Undecided('Lexer.lex: column definition <pos> - <line start> not found')
    posv, startv = coldef[0].left.id, coldef[0].right.id  # type: ignore[attr-defined]
    for inc, guard in rebase_checks:
        block = next((b_ for n_ in ast.walk(guard) for f_ in ('body', 'orelse') for b_ in [getattr(n_, f_, None)] if isinstance(b_, list) and inc in b_), None)
        if block is None:
            raise Undecided('Lexer.lex: block of a line counter increment not found')
        rb = [x for x in block if isinstance(x, ast.Assign) and len(x.targets) == 1 and norm(x.targets[0]) == startv]
        if len(rb) != 1:
            raise Undecided(f'Lexer.lex: the line start is not re-based exactly once next to `{norm(inc)}`')
        coef, const = linear(rb[0].value)
        cf = _count_form(guard, inc)
        if isinstance(inc.value, ast.Constant):
            want_c, want_k, why = {posv: 1}, 0, 'the token ends with its terminator'
        elif cf is not None:
            # second spelling: <token start> + <what was cut off the front of the text> + <text>.rfind(<terminator>) + 1
            spans = [n.value for n in walk_no_nested(fn) if isinstance(n, ast.Assign) and len(n.targets) == 1 and isinstance(n.value, ast.Tuple) and len(n.value.elts) == 2
                     and norm(n.value.elts[1]) == posv and isinstance(n.value.elts[0], ast.Name)]
            if len(spans) != 1:
                raise Undecided('Lexer.lex: the start position of the token (first element of its span) was not found')
            tokstart = spans[0].elts[0].id
            textv, termc = cf
            strips = [x for b_ in guard.body for x in ast.walk(b_) if isinstance(x, ast.Assign) and len(x.targets) == 1 and isinstance(x.value, ast.Subscript)
                      and norm(x.value.value) == norm(x.targets[0]) == textv and isinstance(x.value.slice, ast.Slice)]
            if len(strips) > 1:
                raise Undecided(f'Lexer.lex: `{textv}` is cut more than once')
            want_c = {tokstart: 1, f'{textv}.rfind({termc!r})': 1}
            want_k = 1
            front = 'nothing'
            if strips and (strips[0].lineno, strips[0].col_offset) < (rb[0].lineno, rb[0].col_offset) and strips[0].value.slice.lower is not None:  # type: ignore[union-attr]
                fc, fk = linear(strips[0].value.slice.lower)  # type: ignore[union-attr]
                for k_, v_ in fc.items():
                    want_c[k_] = want_c.get(k_, 0) + v_
                want_k += fk
                front = norm(strips[0].value.slice.lower)  # type: ignore[union-attr]
            why = f'the new line starts right behind the last {termc!r} of the token text, which begins at {tokstart} (+ {front} cut off its front)'
            want_k = -want_k       # reported below as `- k`; compared as +k
            ctx.require(coef == want_c and const == -want_k, f'Lexer.lex: next to `{norm(inc)}` the line start becomes {norm(rb[0].value)}', mod, 'Lexer.lex', rb[0],
                        f'`{norm(rb[0])}` next to `{norm(inc)}`: {why}, so the line start must be ' + ' + '.join(want_c) + f' + {-want_k}'
                        + ': columns of the tokens that follow on that line are shifted, the rewriter splices at the wrong offset', rb[0])
            continue
        else:
            lin, _k = linear(inc.value)
            nm = next(iter(lin))[4:-1]           # len(<lines>) - 1
            # characters cut off the end of the token text before it was split are not part of the last piece
            cut = 0
            splits = [x for b_ in guard.body for x in ast.walk(b_) if isinstance(x, ast.Assign) and norm(x.targets[0]) == nm]
            strips = [x for b_ in guard.body for x in ast.walk(b_) if isinstance(x, ast.Assign) and len(x.targets) == 1 and isinstance(x.value, ast.Subscript)
                      and norm(x.value.value) == norm(x.targets[0]) and isinstance(x.value.slice, ast.Slice)]
            if len(splits) != 1 or len(strips) > 1:
                raise Undecided(f'Lexer.lex: cannot relate `{norm(rb[0])}` to the text that was split')
            if strips and (strips[0].lineno, strips[0].col_offset) < (splits[0].lineno, splits[0].col_offset) \
                    and norm(strips[0].targets[0]) in {n_.id for n_ in ast.walk(splits[0].value) if isinstance(n_, ast.Name)}:
                up = strips[0].value.slice.upper  # type: ignore[union-attr]
                if not (isinstance(up, ast.UnaryOp) and isinstance(up.op, ast.USub) and isinstance(up.operand, ast.Constant)):
                    raise Undecided(f'Lexer.lex: `{norm(strips[0])}` does not cut a constant number of characters')
                cut = up.operand.value
            want_c, want_k, why = {posv: 1, f'len({nm}[-1])': -1}, -cut, f'the last piece of the split text plus the {cut} character(s) cut off its end lie between the last terminator and the end of the token'
        ctx.require(coef == want_c and const == want_k, f'Lexer.lex: next to `{norm(inc)}` the line start becomes {norm(rb[0].value)}', mod, 'Lexer.lex', rb[0],
                    f'`{norm(rb[0])}` next to `{norm(inc)}`: {why}, so the line start must be '
                    + ' '.join(f'{"+" if v > 0 else "-"} {k}' for k, v in want_c.items()).lstrip('+ ') + (f' - {-want_k}' if want_k else '')
                    + ': columns of the tokens that follow on that line are shifted, the rewriter splices at the wrong offset', rb[0])
    return sets, first_line, first_col, evidence


def _count_form(guard: ast.If, inc: ast.AugAssign) -> T.Optional[T.Tuple[str, str]]:
    """(text variable, terminator) when the line counter moves by `<text>.count(<terminator>)` (directly or through an arm-local name)."""
    v: ast.AST = inc.value
    if isinstance(v, ast.Name):
        ds = [n.value for b in guard.body for n in ast.walk(b) if isinstance(n, ast.Assign) and len(n.targets) == 1 and norm(n.targets[0]) == v.id]
        if len(ds) != 1:
            return None
        v = ds[0]
    if isinstance(v, ast.Call) and isinstance(v.func, ast.Attribute) and v.func.attr == 'count' and isinstance(v.func.value, ast.Name) \
            and len(v.args) == 1 and isinstance(v.args[0], ast.Constant) and isinstance(v.args[0].value, str):
        return v.func.value.id, v.args[0].value
    return None


def _trigger_chars(ctx: RuleCtx, mod: Module, fn: ast.AST, guard: ast.If, inc: ast.AugAssign) -> T.Set[str]:
    test = guard.test
    tids: T.Set[str] = const_values_tested(test, 'tid', mod) or set()
    if not tids:
        raise Undecided(f'Lexer.lex: line counter moves under `{short(test)}`')
    out: T.Set[str] = set()
    single = lexer_single_chars(ctx, mod)
    spec_names = lexer_token_spec(mod)
    for tid in tids:
        chars = {k for k, v in single.items() if v == tid}
        if chars:
            if not (isinstance(inc.value, ast.Constant) and inc.value.value == 1):
                raise Undecided(f'Lexer.lex: {norm(inc)} for single character token {tid}')
            out |= chars
            continue
        if tid not in spec_names:
            raise Undecided(f'Lexer.lex: token {tid!r} is neither a single character nor in token_specification')
        # increment by len(X.split(C)) - 1 -> C ; increment by 1 -> the literal the token regex ends with
        if isinstance(inc.value, ast.Constant) and inc.value.value == 1:
            r = fold_expr(ctx.repo, mod, spec_names[tid])
            if not isinstance(r, Regex):
                raise Undecided(f'token {tid}: regex not foldable')
            items = list(rx.parse(r.pattern, r.flags))
            if not items or str(items[-1][0]) != 'LITERAL':
                raise Undecided(f'token {tid}: regex does not end in a literal character')
            ch = chr(items[-1][1])
            # no other part of the token may contain that character (one increment per token)
            inner = rx.sre_parse.parse(r.pattern, r.flags)
            del inner[-1]
            if _items_can_match(inner, ch, bool(r.flags & 16)):
                raise Undecided(f'token {tid}: may contain {ch!r} more than once but the line counter moves by one')
            out.add(ch)
            continue
        cf = _count_form(guard, inc)
        if cf is not None:
            out.add(cf[1])               # one line per occurrence of the terminator in the token text
            continue
        lin, const = linear(inc.value)
        if const == -1 and len(lin) == 1 and next(iter(lin.values())) == 1 and next(iter(lin)).startswith('len('):
            nm = next(iter(lin))[4:-1]
            # definitions inside the arm that holds the increment (an elif chain nests the later arms in `orelse`)
            defs = [n.value for b in guard.body for n in ast.walk(b) if isinstance(n, ast.Assign) and len(n.targets) == 1 and norm(n.targets[0]) == nm]
            if len(defs) == 1 and isinstance(defs[0], ast.Call) and isinstance(defs[0].func, ast.Attribute) and defs[0].func.attr == 'split' \
                    and len(defs[0].args) == 1 and isinstance(defs[0].args[0], ast.Constant) and isinstance(defs[0].args[0].value, str):
                out.add(defs[0].args[0].value)
                continue
            if len(defs) == 1 and isinstance(defs[0], ast.Call) and isinstance(defs[0].func, ast.Attribute) and defs[0].func.attr == 'splitlines':
                out |= set(UNIVERSAL)       # the lexer would then count every str.splitlines() boundary
                continue
        raise Undecided(f'Lexer.lex: cannot interpret `{norm(inc)}` for token {tid}')
    return out


def _items_can_match(items: T.Any, ch: str, dotall: bool) -> bool:
    c = rx.sre_c
    for op, av in items:
        if op is c.LITERAL:
            if chr(av) == ch:
                return True
        elif op is c.NOT_LITERAL:
            if chr(av) != ch:
                return True
        elif op is c.ANY:
            if dotall or ch != '\n':
                return True
        elif op is c.IN:
            if rx._in_match(av, ch, False):
                return True
        elif op is c.BRANCH:
            if any(_items_can_match(b, ch, dotall) for b in av[1]):
                return True
        elif op is c.SUBPATTERN:
            if _items_can_match(av[3], ch, dotall):
                return True
        elif op in (c.MAX_REPEAT, c.MIN_REPEAT):
            if _items_can_match(av[2], ch, dotall):
                return True
        elif op is c.AT:
            continue
        else:
            raise Undecided(f'regex item {op}')
    return False


# ---------------------------------------------------------------------------
# R3
def _nested_funcs(fn: ast.AST) -> T.List[ast.FunctionDef]:
    return [n for n in ast.walk(fn) if isinstance(n, ast.FunctionDef) and n is not fn]


class FieldNorm(ast.NodeTransformer):
    """Record field access in one spelling: `x['name']` (dict record) becomes `x.name` (dataclass / NamedTuple record)."""

    def visit_Subscript(self, n: ast.Subscript) -> ast.AST:
        self.generic_visit(n)
        if isinstance(n.slice, ast.Constant) and isinstance(n.slice.value, str) and n.slice.value.isidentifier():
            return ast.copy_location(ast.Attribute(value=n.value, attr=n.slice.value, ctx=n.ctx), n)
        return n


def field_normal_form(fn: ast.FunctionDef) -> ast.FunctionDef:
    out = FieldNorm().visit(copy.deepcopy(fn))
    ast.fix_missing_locations(out)
    return T.cast(ast.FunctionDef, out)


def record_fields(mod: Module, e: ast.AST) -> T.Optional[T.Dict[str, ast.AST]]:
    """field -> value of a record construction: a dict display with constant keys, dict(k=v), or a call of a dataclass / NamedTuple
    of the module (arguments bound to the fields in declaration order or by keyword)."""
    if isinstance(e, ast.Dict) and e.keys and all(isinstance(k, ast.Constant) and isinstance(k.value, str) for k in e.keys):
        return {k.value: v for k, v in zip(e.keys, e.values)}  # type: ignore[union-attr]
    if isinstance(e, ast.Call) and norm(e.func) == 'dict' and not e.args and all(k.arg for k in e.keywords):
        return {T.cast(str, k.arg): k.value for k in e.keywords}
    if isinstance(e, ast.Call):
        cn = (attr_chain(e.func) or '').split('.')[-1]
        if mod.has_cls(cn):
            c = mod.cls(cn)
            fields = [st.target.id for st in c.body if isinstance(st, ast.AnnAssign) and isinstance(st.target, ast.Name)]
            if fields and not any(isinstance(st, ast.FunctionDef) and st.name == '__init__' for st in c.body):
                out = {fields[i]: a for i, a in enumerate(e.args) if i < len(fields)}
                out.update({k.arg: k.value for k in e.keywords if k.arg})
                return out
    return None


def _is_text_store(st: ast.AST, field: T.Optional[str] = None) -> bool:
    """`<record>.<field> = ...` in the field normal form (the field that holds the text of the file)."""
    return isinstance(st, ast.Assign) and len(st.targets) == 1 and isinstance(st.targets[0], ast.Attribute) \
        and (field is None or st.targets[0].attr == field)


def _splice_field(f: ast.AST) -> T.Optional[str]:
    """The record field that some statement of f replaces by <text>[:a] + ... + <text>[b:]."""
    for s_ in ast.walk(f):
        if _is_text_store(s_) and sum(1 for x in template_parts(s_.value) if isinstance(x, ast.Subscript) and isinstance(x.slice, ast.Slice)) >= 2:  # type: ignore[attr-defined]
            return T.cast(str, s_.targets[0].attr)  # type: ignore[attr-defined]
    return None


def _split_kind(src: ast.AST, rname: str, qn: str) -> T.Tuple[T.Set[str], T.Optional[int]]:
    """(line boundaries, length of the terminator that is missing from each piece; None: lost) of <text>.split / splitlines."""
    if not (isinstance(src, ast.Call) and isinstance(src.func, ast.Attribute) and norm(src.func.value) == rname):
        raise Undecided(f'{qn}: the lines come from {short(src)}, not from a split of the text that is spliced ({rname})')
    how = src.func.attr
    if how == 'splitlines':
        keep = (src.args[0] if src.args else kwarg(src, 'keepends'))
        if keep is not None and not isinstance(keep, ast.Constant):
            raise Undecided('splitlines(keepends) not constant')
        return set(UNIVERSAL), (0 if keep is not None and keep.value else None)
    if how == 'split' and len(src.args) == 1 and isinstance(src.args[0], ast.Constant) and isinstance(src.args[0].value, str):
        return {src.args[0].value}, len(src.args[0].value)
    raise Undecided(f'{qn}: lines are produced by {short(src)}')


def _line_table_positions(ctx: RuleCtx, mod: Module, e0: ast.AST, res: T.Callable[[ast.AST], ast.AST], rname: str, qn: str, term: T.Set[str]) -> bool:
    """The table written from the terminator positions: [0] + [p + 1 for p, ch in enumerate(text) if ch == '<nl>'] (also [0, *(...)] and
    `ch in <constant set>`): a line starts at 0 and right after every terminator character.  False: not this form."""
    e = e0
    has_zero = False
    comp: T.Optional[ast.AST] = None
    if isinstance(e, ast.BinOp) and isinstance(e.op, ast.Add) and isinstance(e.left, ast.List) and len(e.left.elts) == 1:
        has_zero = isinstance(e.left.elts[0], ast.Constant) and e.left.elts[0].value == 0 and not isinstance(e.left.elts[0].value, bool)
        comp = res(e.right)
    elif isinstance(e, ast.List) and len(e.elts) == 2 and isinstance(e.elts[1], ast.Starred):
        has_zero = isinstance(e.elts[0], ast.Constant) and e.elts[0].value == 0 and not isinstance(e.elts[0].value, bool)
        comp = res(e.elts[1].value)
    elif isinstance(e, (ast.ListComp, ast.GeneratorExp)):
        comp = e
    if isinstance(comp, ast.Call) and norm(comp.func) == 'list' and len(comp.args) == 1:
        comp = comp.args[0]
    if not (isinstance(comp, (ast.ListComp, ast.GeneratorExp)) and len(comp.generators) == 1):
        return False
    g = comp.generators[0]
    if not (isinstance(g.iter, ast.Call) and norm(g.iter.func) == 'enumerate' and len(g.iter.args) == 1 and not g.iter.keywords
            and isinstance(g.target, ast.Tuple) and len(g.target.elts) == 2 and all(isinstance(x, ast.Name) for x in g.target.elts)):
        return False
    pos, ch = (T.cast(ast.Name, x).id for x in g.target.elts)
    if norm(res(g.iter.args[0])) != rname and norm(g.iter.args[0]) != rname:
        raise Undecided(f'{qn}: the line table enumerates {short(g.iter.args[0])}, not the text that is spliced ({rname})')
    if len(g.ifs) != 1:
        raise Undecided(f'{qn}: the line table comprehension has {len(g.ifs)} filters')
    f = g.ifs[0]
    seps: T.Optional[T.Set[str]] = None
    if isinstance(f, ast.Compare) and len(f.ops) == 1:
        a, b = f.left, f.comparators[0]
        if isinstance(f.ops[0], ast.Eq):
            other = b if norm(a) == ch else a if norm(b) == ch else None
            if isinstance(other, ast.Constant) and isinstance(other.value, str):
                seps = {other.value}
        elif isinstance(f.ops[0], ast.In) and norm(a) == ch:
            try:
                v = fold_expr(ctx.repo, mod, b)
            except Undecided:
                v = None
            if isinstance(v, str):
                seps = set(v)
            elif isinstance(v, (set, frozenset, list, tuple)) and all(isinstance(x, str) for x in v):
                seps = set(v)
    if seps is None or any(len(x) != 1 for x in seps):
        raise Undecided(f'{qn}: the line table filter {short(f)} is not a test of the character against constant terminators')
    coef, const = linear(comp.elt)
    ok = has_zero and coef == {pos: 1} and const == 1
    ctx.require(ok, 'line table is 0 followed by <position of each terminator> + 1', mod, qn, e0,
                f'line table built as {short(e0, 120)}: {"starts at 0" if has_zero else "has no entry 0 for the first line"}, a line start is recorded as {norm(comp.elt)} for a '
                f'terminator at {pos}; the line after a terminator starts at {pos} + 1', e0)
    diff = sorted(seps ^ term, key=lambda c: (c != '\x0c', c))
    ctx.require(not diff, f'line table and lexer agree on the line terminators {sorted(term)!r}', mod, qn, f,
                f'the line table is built with {short(f)} (line boundaries {sorted(seps)!r}) while Lexer.lex advances lineno only on {sorted(term)!r}: '
                f'a file containing {diff[0]!r} (e.g. in a comment) before the edited statement shifts every later line index, the edit is spliced into the wrong line'
                if diff else '', f)
    return True


def _line_table_prefix_sums(ctx: RuleCtx, mod: Module, scope: ast.AST, tname: str, rname: str, qn: str, term: T.Set[str]) -> None:
    """The table written as prefix sums: [0, *accumulate(len(l)+k for l in lines[:-1])], list(accumulate([0] + lengths[:-1])),
    list(accumulate(..., initial=0)) - same obligation as the loop form: start 0, advance len(line) + terminator length."""
    defs: T.Dict[str, T.List[ast.AST]] = {}
    for n in ast.walk(scope):
        if isinstance(n, ast.Assign) and len(n.targets) == 1 and isinstance(n.targets[0], ast.Name):
            defs.setdefault(n.targets[0].id, []).append(n.value)
        elif isinstance(n, ast.AnnAssign) and isinstance(n.target, ast.Name) and n.value is not None:
            defs.setdefault(n.target.id, []).append(n.value)

    def res(e: ast.AST) -> ast.AST:
        k = 0
        while isinstance(e, ast.Name) and len(defs.get(e.id, [])) == 1 and k < 4:
            e, k = defs[e.id][0], k + 1
        return e

    def drop_last(e: ast.AST) -> ast.AST:
        e = res(e)
        if isinstance(e, ast.Subscript) and isinstance(e.slice, ast.Slice) and e.slice.lower is None and e.slice.step is None \
                and isinstance(e.slice.upper, ast.UnaryOp) and isinstance(e.slice.upper.op, ast.USub) and norm(e.slice.upper.operand) == '1':
            return res(e.value)       # the offset after the last line is never used
        return e
    if len(defs.get(tname, [])) != 1:
        raise Undecided(f'{qn}: {len(defs.get(tname, []))} definitions of the line table and no loop that fills it')
    e = defs[tname][0]
    has_zero = False
    if isinstance(e, ast.Call) and norm(e.func) == 'list' and len(e.args) == 1:
        e = e.args[0]
    if isinstance(e, ast.List) and len(e.elts) == 2 and isinstance(e.elts[0], ast.Constant) and e.elts[0].value == 0 and isinstance(e.elts[1], ast.Starred):
        has_zero, e = True, e.elts[1].value
    if not (isinstance(e, ast.Call) and (attr_chain(e.func) or '').split('.')[-1] == 'accumulate' and e.args and len(e.args) == 1):
        if _line_table_positions(ctx, mod, defs[tname][0], res, rname, qn, term):
            return
        raise Undecided(f'{qn}: the line table {short(defs[tname][0])} is neither filled by a loop nor a prefix sum')
    ini = kwarg(e, 'initial')
    if ini is not None:
        if not (isinstance(ini, ast.Constant) and ini.value == 0):
            raise Undecided(f'{qn}: accumulate(initial={short(ini)})')
        has_zero = True
    arg = res(e.args[0])
    if isinstance(arg, ast.BinOp) and isinstance(arg.op, ast.Add) and isinstance(arg.left, ast.List) and len(arg.left.elts) == 1 \
            and isinstance(arg.left.elts[0], ast.Constant) and arg.left.elts[0].value == 0:
        has_zero, arg = True, arg.right
    arg = drop_last(arg)
    if not (isinstance(arg, (ast.GeneratorExp, ast.ListComp)) and len(arg.generators) == 1 and not arg.generators[0].ifs):
        raise Undecided(f'{qn}: the summed line lengths {short(arg)} are not a comprehension over the lines')
    lv = norm(arg.generators[0].target)
    src = drop_last(arg.generators[0].iter)
    seps, per_line = _split_kind(src, rname, qn)
    coef, const = linear(arg.elt)
    ok_acc = has_zero and coef == {f'len({lv})': 1} and per_line is not None and const == per_line
    ctx.require(ok_acc, f'line table is the prefix sums of len(line) + {per_line}, starting at 0', mod, qn, defs[tname][0],
                f'line table built from {short(src)} as {short(defs[tname][0], 120)}: starts at {"0" if has_zero else "the first length"}, advances by {norm(arg.elt)}; '
                f'with this split the offset of the next line is offset + len(line) + {per_line if per_line is not None else "<length of the terminator, which is lost>"}', defs[tname][0])
    diff = sorted(seps ^ term, key=lambda c: (c != '\x0c', c))
    ctx.require(not diff, f'line table and lexer agree on the line terminators {sorted(term)!r}', mod, qn, src,
                f'the line table is built with {short(src)} (line boundaries {sorted(seps)!r}) while Lexer.lex advances lineno only on {sorted(term)!r}: '
                f'a file containing {diff[0]!r} (e.g. in a comment) before the edited statement shifts every later line index, the edit is spliced into the wrong line'
                if diff else '', src)


def _line_table(ctx: RuleCtx, mod: Module, scope: ast.AST, tname: str, rname: str, qn: str, term: T.Set[str]) -> None:
    """The line table `tname` is filled in `scope` from a split of the text `rname`: accumulation and terminators."""
    fn = scope
    def writes_table(w: ast.AST) -> bool:
        return (isinstance(w, ast.AugAssign) and norm(w.target) == tname) or (isinstance(w, ast.Call) and norm(w.func) == f'{tname}.append')
    with_writer = [n for n in ast.walk(scope) if isinstance(n, ast.For) and any(writes_table(w) for w in ast.walk(n))]
    fills = [n for n in with_writer if not any(x is not n and x in with_writer for x in ast.walk(n))]    # innermost
    if not fills:
        _line_table_prefix_sums(ctx, mod, scope, tname, rname, qn, term)
        return
    if len(fills) != 1:
        raise Undecided(f'{qn}: {len(fills)} loops fill the line table')
    fill = fills[0]
    lv = norm(fill.target)
    src: ast.AST = fill.iter
    if isinstance(src, ast.Name):
        d = [n.value for n in ast.walk(scope) if isinstance(n, ast.Assign) and len(n.targets) == 1 and norm(n.targets[0]) == src.id]
        if len(d) != 1:
            raise Undecided(f'{qn}: {src.id} has {len(d)} definitions')
        src = d[0]
    if not (isinstance(src, ast.Call) and isinstance(src.func, ast.Attribute) and norm(src.func.value) == rname):
        raise Undecided(f'{qn}: the lines come from {short(src)}, not from a split of the text that is spliced ({rname})')
    how = src.func.attr
    if how == 'splitlines':
        keep = (src.args[0] if src.args else kwarg(src, 'keepends'))
        if keep is not None and not isinstance(keep, ast.Constant):
            raise Undecided('splitlines(keepends) not constant')
        seps, per_line = set(UNIVERSAL), (0 if keep is not None and keep.value else None)
    elif how == 'split' and len(src.args) == 1 and isinstance(src.args[0], ast.Constant) and isinstance(src.args[0].value, str):
        seps, per_line = {src.args[0].value}, len(src.args[0].value)
    else:
        raise Undecided(f'{qn}: lines are produced by {short(src)}')
    # accumulation: table gets the offset *before* the line, the offset grows by len(line) + terminator length
    body_paths = enumerate_paths(fill.body)
    if len(body_paths) != 1:
        raise Undecided(f'{qn}: the line table loop branches')
    acc = None
    appended: T.List[ast.AST] = []
    env2: T.Dict[str, ast.AST] = {}
    for st in body_paths[0].stmts():
        if isinstance(st, ast.AugAssign) and norm(st.target) == tname and isinstance(st.value, ast.List) and len(st.value.elts) == 1:
            appended.append(_Subst(env2).visit(copy.deepcopy(st.value.elts[0])))
        elif isinstance(st, ast.Expr) and isinstance(st.value, ast.Call) and norm(st.value.func) == f'{tname}.append' and len(st.value.args) == 1:
            appended.append(_Subst(env2).visit(copy.deepcopy(st.value.args[0])))
        elif isinstance(st, ast.AugAssign) and isinstance(st.target, ast.Name) and isinstance(st.op, ast.Add):
            acc = st.target.id
            cur = env2.get(acc, ast.Name(id=acc, ctx=ast.Load()))
            env2[acc] = ast.BinOp(left=cur, op=ast.Add(), right=_Subst(env2).visit(copy.deepcopy(st.value)))
        elif isinstance(st, ast.Assign) and len(st.targets) == 1 and isinstance(st.targets[0], ast.Name) \
                and st.targets[0].id in {n.id for n in ast.walk(st.value) if isinstance(n, ast.Name)}:
            acc = st.targets[0].id
            env2[acc] = _Subst(env2).visit(copy.deepcopy(st.value))
        else:
            raise Undecided(f'{qn}: statement {short(st)} in the line table loop')
    if acc is None or len(appended) != 1:
        raise Undecided(f'{qn}: line table loop is not "record offset; advance offset"')
    in_loop = set(ast.walk(fill))
    inits = [n.value for n in ast.walk(scope) if isinstance(n, ast.Assign) and len(n.targets) == 1 and norm(n.targets[0]) == acc and n not in in_loop]
    coef, const = linear(env2[acc])
    ok_acc = norm(appended[0]) == acc and len(inits) == 1 and isinstance(inits[0], ast.Constant) and inits[0].value == 0 \
        and coef == {acc: 1, f'len({lv})': 1} and per_line is not None and const == per_line
    ctx.require(ok_acc, f'line table records the offset of each line start (advance = len(line) + {per_line})', mod, qn, fill,
                f'line table built from {short(src)}: records {norm(appended[0])}, advances by {norm(env2[acc])} from {short(inits[0]) if inits else "?"}; '
                f'with this split the offset of the next line is offset + len(line) + {per_line if per_line is not None else "<length of the terminator, which is lost>"}', fill)
    diff = sorted(seps ^ term, key=lambda c: (c != '\x0c', c))     # form feed first: the terminator one meets in real files
    ctx.require(not diff, f'line table and lexer agree on the line terminators {sorted(term)!r}', mod, qn, src,
                f'the line table is built with {short(src)} (line boundaries {sorted(seps)!r}) while Lexer.lex advances lineno only on {sorted(term)!r}: '
                f'a file containing {diff[0]!r} (e.g. in a comment) before the edited statement shifts every later line index, the edit is spliced into the wrong line'
                if diff else '', src)



def _getter_of(mod: Module, e: ast.AST) -> T.Optional[T.Tuple[str, T.List[str]]]:
    """('attr'|'item', names) when e is operator.attrgetter(...)/itemgetter(...) or a module-level name bound to one."""
    if isinstance(e, ast.Name) and mod.has_assign(e.id):
        e = mod.assign_value(e.id)
    if isinstance(e, ast.Call) and (attr_chain(e.func) or '').split('.')[-1] in ('attrgetter', 'itemgetter') and e.args \
            and all(isinstance(a, ast.Constant) and isinstance(a.value, str) for a in e.args):
        return ('attr' if (attr_chain(e.func) or '').endswith('attrgetter') else 'item', [a.value for a in e.args])  # type: ignore[attr-defined]
    return None


def _apply_getter(kind: str, names: T.List[str], x: ast.AST) -> ast.AST:
    def one(n: str) -> ast.AST:
        base: ast.AST = copy.deepcopy(x)
        if kind == 'attr':
            for part in n.split('.'):
                base = ast.Attribute(value=base, attr=part, ctx=ast.Load())
            return base
        return ast.Attribute(value=base, attr=n, ctx=ast.Load()) if n.isidentifier() else ast.Subscript(value=base, slice=ast.Constant(value=n), ctx=ast.Load())
    return one(names[0]) if len(names) == 1 else ast.Tuple(elts=[one(n) for n in names], ctx=ast.Load())


class _GetterCalls(ast.NodeTransformer):
    """`G(x)` with G an attrgetter/itemgetter (possibly a module constant) becomes the attribute / field access it performs."""

    def __init__(self, mod: Module):
        self.mod = mod

    def visit_Call(self, c: ast.Call) -> ast.AST:
        self.generic_visit(c)
        g = _getter_of(self.mod, c.func)
        if g is not None and len(c.args) == 1 and not c.keywords:
            return ast.fix_missing_locations(ast.copy_location(_apply_getter(g[0], g[1], c.args[0]), c))
        return c


def _getter_lambda(mod: Module, key: ast.AST) -> T.Optional[ast.Lambda]:
    g = _getter_of(mod, key)
    if g is None:
        return None
    arg = ast.arg(arg='x')
    return ast.Lambda(args=ast.arguments(posonlyargs=[], args=[arg], kwonlyargs=[], kw_defaults=[], defaults=[]), body=_apply_getter(g[0], g[1], ast.Name(id='x', ctx=ast.Load())))


def r3(ctx: RuleCtx) -> None:
    mod = ctx.repo.module(REWRITER)
    # normal form: one-expression helpers inlined, record fields in one spelling (x['f'] == x.f)
    fn = field_normal_form(inline_trivial_helpers(mod, T.cast(ast.FunctionDef, mod.func('Rewriter.apply_changes')), 'Rewriter'))
    cfg = CFG(fn)

    # ---- the splicing function: the one that stores <record>.<text> = <slice> + new + <slice>
    # (found by role: nested in apply_changes, or a method / module function that apply_changes calls)
    def splices(f: ast.AST) -> bool:
        return _splice_field(f) is not None
    called = {(attr_chain(c.func) or '').split('.')[-1] for c in ast.walk(fn) if isinstance(c, ast.Call)}
    cands: T.List[T.Tuple[str, ast.FunctionDef, bool]] = [(f'Rewriter.apply_changes.{f.name}', f, False) for f in _nested_funcs(fn) if splices(f)]
    if not cands:
        for q, f in mod.funcs().items():
            if q.split('.')[-1] in called and q.count('.') <= 1 and q != 'Rewriter.apply_changes' and isinstance(f, ast.FunctionDef):
                f2 = field_normal_form(inline_trivial_helpers(mod, f, q.split('.')[0] if '.' in q else None))
                if splices(f2):
                    cands.append((q, f2, '.' in q))
    if len(cands) != 1:
        raise Undecided(f'apply_changes: {len(cands)} splicing helpers found')
    sp_q, sp, sp_is_method = cands[0]
    F_text = T.cast(str, _splice_field(sp))

    # ---- (a) order: one descending sort on (lineno, colno) feeds the splice loop
    sorts: T.List[T.Tuple[ast.stmt, ast.Call, str]] = []
    for st in walk_no_nested(fn):
        if isinstance(st, ast.Assign) and len(st.targets) == 1 and isinstance(st.targets[0], ast.Name) and isinstance(st.value, ast.Call) \
                and norm(st.value.func) == 'sorted':
            sorts.append((st, st.value, st.targets[0].id))
        if isinstance(st, ast.Expr) and isinstance(st.value, ast.Call) and isinstance(st.value.func, ast.Attribute) and st.value.func.attr == 'sort' \
                and isinstance(st.value.func.value, ast.Name):
            sorts.append((st, st.value, st.value.func.value.id))
    if len(sorts) != 1:
        raise Undecided(f'apply_changes: {len(sorts)} sort sites (expected the one ordering of the work list)')
    sort_st, sort_call, work = sorts[0]
    key = kwarg(sort_call, 'key')
    rev = kwarg(sort_call, 'reverse')
    if isinstance(key, ast.Name):
        # a named key function (nested def or module function) with a single return is the same as the lambda
        kf = [f for f in ast.walk(fn) if isinstance(f, ast.FunctionDef) and f.name == key.id and f is not fn] or \
             ([mod.func(key.id)] if mod.has_func(key.id) else [])
        body_ = [st_ for st_ in kf[0].body if not (isinstance(st_, ast.Expr) and isinstance(st_.value, ast.Constant))] if len(kf) == 1 else []
        # straight-line single-definition locals in front of the return are read through (`node = work['node']; return node.lineno, node.colno`)
        env_: T.Dict[str, ast.AST] = {}
        while len(body_) > 1 and (isinstance(body_[0], ast.Assign) and len(body_[0].targets) == 1 and isinstance(body_[0].targets[0], ast.Name)
                                  or isinstance(body_[0], ast.AnnAssign) and isinstance(body_[0].target, ast.Name) and body_[0].value is not None):
            tg_ = body_[0].targets[0] if isinstance(body_[0], ast.Assign) else body_[0].target
            if tg_.id in env_ or tg_.id in [a_.arg for a_ in kf[0].args.args]:  # type: ignore[union-attr]
                break
            env_[tg_.id] = _Subst(dict(env_)).visit(copy.deepcopy(body_[0].value))  # type: ignore[union-attr]
            body_ = body_[1:]
        if len(body_) == 1 and isinstance(body_[0], ast.Return) and body_[0].value is not None:
            key = ast.Lambda(args=kf[0].args, body=FieldNorm().visit(_Subst(dict(env_)).visit(copy.deepcopy(body_[0].value))))
    if isinstance(key, (ast.Name, ast.Call)) and not isinstance(key, ast.Lambda):
        g = _getter_lambda(mod, key)
        if g is not None:
            key = g
    if not isinstance(key, ast.Lambda):
        raise Undecided('apply_changes: sort key is not a lambda')
    kb = _strip_cast(_GetterCalls(mod).visit(copy.deepcopy(key.body)))
    elts = list(kb.elts) if isinstance(kb, ast.Tuple) else [kb]
    neg = [isinstance(e, ast.UnaryOp) and isinstance(e.op, ast.USub) for e in elts]
    cores = [norm(e.operand if n else e) for e, n in zip(elts, neg)]  # type: ignore[attr-defined]
    if not all(c.endswith(('.lineno', '.colno')) for c in cores):
        raise Undecided(f'apply_changes: sort key {short(kb)} is not made of .lineno/.colno')
    bases = {c.rsplit('.', 1)[0] for c in cores}
    fields = [c.rsplit('.', 1)[1] for c in cores]
    if rev is not None and not isinstance(rev, ast.Constant):
        raise Undecided('apply_changes: reverse= is not a constant')
    descending = (bool(rev.value) if rev is not None else False) != all(neg) if (all(neg) or not any(neg)) else None
    ctx.require(fields == ['lineno', 'colno'] and len(bases) == 1 and descending is True,
                'work list is sorted by (lineno, colno) of the node, descending', mod, 'Rewriter.apply_changes', 'order of the work list',
                f'the edits are ordered by {fields} {"descending" if descending else "ascending"}: offsets are computed once from the original text, '
                'so an edit must never be applied before another one that lies behind it (two edits in one file / on one line get spliced at stale offsets)',
                sort_st)
    sort_nodes = cfg.stmt_nodes(sort_st)
    if not sort_nodes:
        raise Undecided('apply_changes: sort statement not in the CFG')
    # unsorted edits must not be added after the sort, nothing may re-order later
    late: T.List[ast.AST] = []
    after = cfg.reachable(sort_nodes)
    for nid in after:
        n = cfg.nodes[nid]
        e = n.expr()
        if e is None or n.kind != 'stmt' or n.ast is sort_st:
            continue
        for c in walk_no_nested(e):
            if isinstance(c, ast.Call) and (norm(c.func) in ('sorted', 'reversed') or (isinstance(c.func, ast.Attribute) and c.func.attr in ('sort', 'reverse'))) \
                    and work in {x.id for x in ast.walk(c) if isinstance(x, ast.Name)}:
                raise Undecided(f'apply_changes: the work list is re-ordered again by `{short(c)}`: the effective order is not decided')
        if isinstance(n.ast, ast.AugAssign) and norm(n.ast.target) == work or \
                (isinstance(n.ast, ast.Expr) and isinstance(n.ast.value, ast.Call) and norm(n.ast.value.func) in (f'{work}.append', f'{work}.extend', f'{work}.insert')):
            late.append(n.ast)
    # the splice loop: for X in L: <splicer>(X); L is the work list or filled in order from it
    def calls_splicer(c: ast.AST) -> bool:
        return isinstance(c, ast.Call) and (attr_chain(c.func) or '').split('.')[-1] == sp.name
    loops = [n for n in walk_no_nested(fn) if isinstance(n, ast.For) and any(calls_splicer(c) for c in ast.walk(n))]
    if len(loops) != 1 or not isinstance(loops[0].iter, ast.Name):
        raise Undecided('apply_changes: splice loop not found')
    loop = loops[0]
    # which parameter of the splicer is the work item: the one bound to the loop variable at the call
    # every parameter of the splicer stands for an expression over the loop variable (the whole work item, or its fields passed one by one)
    sp_calls = [c for c in ast.walk(loop) if calls_splicer(c)]
    if len(sp_calls) != 1:
        raise Undecided(f'apply_changes: {len(sp_calls)} calls of {sp.name} in the splice loop')
    param_env: T.Dict[str, ast.AST] = {p_: _strip_cast(a_) for p_, a_ in bind_args(T.cast(ast.Call, sp_calls[0]), sp, sp_is_method).items()}
    loopvar = norm(loop.target)
    if not isinstance(loop.target, ast.Name) or not any(loopvar in {x.id for x in ast.walk(a_) if isinstance(x, ast.Name)} for a_ in param_env.values()):
        raise Undecided(f'apply_changes: cannot tell which parameter of {sp.name} receives the work item')
    # entries appended after the sort must not be positional edits.  Whatever the record looks like (dict, tuple, ...), an entry
    # carries a constant tag; the tags of positional edits are the constants the splice loop tests before it calls the splicer
    pmap = {ch: par_ for par_ in ast.walk(fn) for ch in ast.iter_child_nodes(par_)}
    positional: T.Set[T.Any] = set()

    def tag_of(k_: ast.AST) -> T.Optional[str]:
        """a constant tag: a string constant, or a member of an Enum class of the module (`Action.MODIFY`)"""
        if isinstance(k_, ast.Constant) and isinstance(k_.value, str):
            return k_.value
        ch_ = attr_chain(k_)
        if ch_ and ch_.count('.') == 1 and mod.has_cls(ch_.split('.')[0]) \
                and any((attr_chain(b_) or '').split('.')[-1] in ('Enum', 'IntEnum', 'StrEnum', 'Flag') for b_ in mod.cls(ch_.split('.')[0]).bases):
            return ch_
        return None
    for c in ast.walk(loop):
        if calls_splicer(c):
            cur: ast.AST = c
            while cur in pmap and cur is not loop:
                par = pmap[cur]
                if isinstance(par, ast.If) and cur in par.body:
                    for cmp_ in ast.walk(par.test):
                        if isinstance(cmp_, ast.Compare) and len(cmp_.ops) == 1 and isinstance(cmp_.ops[0], (ast.Eq, ast.In, ast.Is)):
                            sides_ = [cmp_.left, cmp_.comparators[0]]
                            for sd_ in sides_:
                                els_ = sd_.elts if isinstance(sd_, (ast.Set, ast.Tuple, ast.List)) else [sd_]
                                positional |= {t_ for t_ in (tag_of(k_) for k_ in els_) if t_ is not None}
                cur = par
    bad_late: T.List[ast.AST] = []
    for st_ in late:
        keys = {id(k_) for d_ in ast.walk(st_) if isinstance(d_, ast.Dict) for k_ in d_.keys}
        tags = {t_ for t_ in (tag_of(k_) for k_ in ast.walk(st_) if id(k_) not in keys) if t_ is not None}
        if not tags or not positional:
            raise Undecided(f'apply_changes: cannot tell what kind of entries `{short(st_)}` adds after the sort')
        if tags & positional:
            bad_late.append(st_)
    ctx.require(not bad_late, f'after the sort no positional edit (tags {sorted(positional)}) is appended ({len(late)} later append(s))', mod, 'Rewriter.apply_changes',
                bad_late[0] if bad_late else 'work list after sort',
                f'`{short(bad_late[0]) if bad_late else ""}` appends entries tagged {sorted(positional)} after the list was sorted: these are spliced by position, out of order',
                bad_late[0] if bad_late else None)
    lname = loop.iter.id
    ldef = [n.value for n in walk_no_nested(fn) if isinstance(n, ast.Assign) and len(n.targets) == 1 and norm(n.targets[0]) == lname]
    if lname != work and len(ldef) == 1 and isinstance(ldef[0], (ast.ListComp,)) and len(ldef[0].generators) == 1 and not ldef[0].generators[0].ifs \
            and norm(ldef[0].generators[0].iter) == work:
        # one record per work item, in the order of the work list
        lst_nodes = [n for n in cfg.nodes if n.kind == 'stmt' and isinstance(n.ast, ast.Assign) and n.ast.value is ldef[0]]
        ok = bool(lst_nodes) and all(cfg.dominated_by_any(x, sort_nodes) for x in lst_nodes)
    elif lname != work:
        writers = [n for n in ast.walk(fn) if (isinstance(n, ast.AugAssign) and norm(n.target) == lname)
                   or (isinstance(n, ast.Call) and norm(n.func) in (f'{lname}.append', f'{lname}.extend', f'{lname}.insert'))]
        feeders = [n for n in walk_no_nested(fn) if isinstance(n, ast.For) and norm(n.iter) == work and any(w in list(ast.walk(n)) for w in writers)]
        inits = [n for n in walk_no_nested(fn) if (isinstance(n, ast.Assign) and norm(n.targets[0]) == lname) or (isinstance(n, ast.AnnAssign) and norm(n.target) == lname and n.value is not None)]
        if len(writers) != 1 or len(feeders) != 1 or len(inits) != 1 or not (isinstance(inits[0].value, ast.List) and not inits[0].value.elts):
            raise Undecided(f'apply_changes: {lname} is not filled by one in-order pass over {work}')
        if isinstance(writers[0], ast.Call) and norm(writers[0].func).endswith('.insert'):
            ctx.violation(mod, 'Rewriter.apply_changes', writers[0], f'{lname} is filled with insert(): order of {work} is not kept')
        feeder_nodes = [n for n in cfg.nodes if n.kind == 'iter' and n.ast is feeders[0]]
        ok = bool(feeder_nodes) and all(cfg.dominated_by_any(f, sort_nodes) for f in feeder_nodes)
    else:
        ok = True
    loop_nodes = [n for n in cfg.nodes if n.kind == 'iter' and n.ast is loop]
    ok = ok and bool(loop_nodes) and all(cfg.dominated_by_any(l, sort_nodes) for l in loop_nodes)
    ctx.require(ok, 'every path to the splice loop passes the sort, the loop visits the work list in that order', mod, 'Rewriter.apply_changes',
                'splice loop order', 'the splice loop can be reached without the descending sort of the work list', loop)

    # ---- (b) offsets and (d) the splice itself, on the path for Array/Function nodes
    term, first_line, first_col, evid = lexer_line_model(ctx)
    r3_append_and_scan(ctx, mod, fn, loop, sp, sp_q, term, calls_splicer)
    for e in evid:
        ctx.note('lexer: ' + e)
    param = loopvar
    paths = [p for p in enumerate_paths(sp.body) if any(_is_text_store(s, F_text) for s in p.stmts())]
    chosen: T.List[Path] = []
    for p in paths:
        isin = [(k, v) for k, v in p.conds() if k.startswith('isinstance(')]
        if isin and isin[0][1] and all(x in isin[0][0] for x in SPLICED_CLASSES) and not any(e.kind == 'iter' for e in p.events):
            chosen.append(p)
    if len(chosen) != 1:
        raise Undecided(f'{sp_q}: {len(chosen)} paths for Array/Function nodes')
    p = chosen[0]
    store = [s for s in p.stmts() if _is_text_store(s, F_text)][0]
    env = sym_exec(p, stop=store, env=param_env)      # parameters read as their call-site expressions
    rhs = _strip_cast(_Subst(env).visit(copy.deepcopy(store.value)))  # type: ignore[attr-defined]
    parts = _flatten_add(rhs)
    target_base = norm(_Subst(env).visit(copy.deepcopy(store.targets[0].value)))  # type: ignore[attr-defined]
    shape_ok = len(parts) == 3 and all(isinstance(parts[i], ast.Subscript) and isinstance(parts[i].slice, ast.Slice) for i in (0, 2))  # type: ignore[attr-defined]
    if not shape_ok:
        raise Undecided(f'{sp_q}: new text is not <text>[:a] + <replacement> + <text>[b:]: {short(rhs)}')
    head, mid, tail = T.cast(ast.Subscript, parts[0]), parts[1], T.cast(ast.Subscript, parts[2])
    hs, ts = T.cast(ast.Slice, head.slice), T.cast(ast.Slice, tail.slice)
    if not (hs.lower is None and hs.upper is not None and hs.step is None and ts.upper is None and ts.lower is not None and ts.step is None):
        raise Undecided(f'{sp_q}: slices are not [:start] and [end:]')
    same_text = norm(head.value) == norm(tail.value) == f"{target_base}.{F_text}"
    # by role: the node is what the start position reads .lineno of, the line table what it indexes; both hang off the work item / the file record
    c0, _ = linear(hs.upper)
    tabs = [ast.parse(k, mode='eval').body for k in c0 if k.endswith(']')]
    tabs = [t for t in tabs if isinstance(t, ast.Subscript) and isinstance(t.value, ast.Attribute) and norm(t.value.value) == target_base]
    if len(tabs) != 1:
        raise Undecided(f'{sp_q}: start = {short(hs.upper)} does not index a field of the file record {target_base}')
    table_e = norm(tabs[0].value)
    nodes_ = {k.rsplit('.', 1)[0] for k in linear(tabs[0].slice)[0] if k.endswith('.lineno')}
    if len(nodes_) != 1 or not nodes_.copy().pop().startswith(param + '.'):
        raise Undecided(f'{sp_q}: the line index {short(tabs[0].slice)} does not read .lineno of a field of the work item `{param}`')
    node_e = nodes_.pop()
    mid_ok = isinstance(mid, ast.Attribute) and norm(mid.value) == param and norm(mid) != node_e
    ctx.require(same_text and mid_ok, f'{sp_q}: text becomes text[:start] + new + text[end:] of the same buffer', mod, sp_q, store,
                f'the splice is {short(rhs, 160)}: head/tail are not slices of the buffer that is stored back, or the middle is not the re-printed text of the work item', store)

    def position(e: ast.AST, what: str, line_attr: str, col_attr: str) -> None:
        coef, const = linear(e)
        subs = [k for k in coef if k.startswith(table_e + '[')]
        others = {k: v for k, v in coef.items() if k not in subs}
        if len(subs) != 1 or coef[subs[0]] != 1:
            raise Undecided(f'{sp_q}: {what} = {short(e)} is not <line table>[i] + column')
        idx = ast.parse(subs[0], mode='eval').body.slice  # type: ignore[attr-defined]
        icoef, iconst = linear(idx)
        want_line = {f'{node_e}.{line_attr}': 1}
        ctx.require(icoef == want_line and iconst == -first_line, f'{sp_q}: {what} uses line_table[node.{line_attr} - {first_line}]', mod, sp_q, f'{what} line index',
                    f'{what} indexes the line table with {norm(idx)}; the lexer numbers lines from {first_line} and the table is 0-based, so it must be '
                    f'node.{line_attr} - {first_line}: the edit lands on a neighbouring line', store)
        want_col = {f'{node_e}.{col_attr}': 1}
        ctx.require(others == want_col and const == first_col, f'{sp_q}: {what} adds node.{col_attr}', mod, sp_q, f'{what} column',
                    f'{what} adds {others or 0}{" + " + str(const) if const else ""} to the line offset instead of node.{col_attr}: '
                    'the replaced span does not start/end where the node does', store)
    position(hs.upper, 'start', 'lineno', 'colno')
    position(ts.lower, 'end', 'end_lineno', 'end_colno')

    # ---- (c) the line table
    F_tab = table_e.rsplit('.', 1)[1]
    def records_in(scope: ast.AST) -> T.List[T.Dict[str, ast.AST]]:
        return [r_ for r_ in (record_fields(mod, d) for d in ast.walk(scope) if isinstance(d, (ast.Dict, ast.Call))) if r_ is not None and F_tab in r_ and F_text in r_]
    rec_scope: ast.AST = fn
    rec_q = 'Rewriter.apply_changes'
    recs = records_in(fn)
    if not recs:
        # the record may be built by a helper that apply_changes calls (file loading extracted): look one level down
        for q_, f_ in mod.funcs().items():
            if q_.split('.')[-1] in called and q_ != 'Rewriter.apply_changes' and isinstance(f_, ast.FunctionDef) and q_.count('.') <= 1:
                f2_ = field_normal_form(f_)
                r2_ = records_in(f2_)
                if r2_:
                    recs, rec_scope, rec_q = recs + r2_, f2_, q_
    if len(recs) != 1:
        raise Undecided(f'apply_changes: {len(recs)} constructions of the per-file record with the fields {F_text!r} and {F_tab!r}')
    rec = recs[0]
    if not (isinstance(rec[F_tab], ast.Name) and isinstance(rec[F_text], ast.Name)):
        raise Undecided(f'apply_changes: the fields {F_tab!r}/{F_text!r} of the file record are not plain locals')
    tname, rname = rec[F_tab].id, rec[F_text].id  # type: ignore[attr-defined]
    tdefs = [n.value for n in ast.walk(rec_scope) if isinstance(n, ast.Assign) and len(n.targets) == 1 and norm(n.targets[0]) == tname]
    helper = None
    if len(tdefs) == 1 and isinstance(tdefs[0], ast.Call) and len(tdefs[0].args) == 1 and not tdefs[0].keywords and norm(tdefs[0].args[0]) == rname:
        # the table is computed by a helper of the class / module from the same text: analyse the helper (one level)
        cn = attr_chain(tdefs[0].func) or ''
        hq = 'Rewriter.' + cn.split('.', 1)[1] if cn.split('.')[0] in ('self', 'cls', 'Rewriter') and '.' in cn else cn
        if hq and mod.has_func(hq):
            helper = mod.func(hq)
            hparams = [a.arg for a in helper.args.args if a.arg not in ('self', 'cls')]
            rets = [n for n in walk_no_nested(helper) if isinstance(n, ast.Return)]
            if len(hparams) != 1 or len(rets) != 1 or not isinstance(rets[0].value, ast.Name):
                raise Undecided(f'{hq}: not a one-parameter helper returning the table it builds')
            _line_table(ctx, mod, helper, rets[0].value.id, hparams[0], hq, term)
        else:
            raise Undecided(f'apply_changes: the line table comes from {short(tdefs[0])}, which is not a helper of this module')
    else:
        _line_table(ctx, mod, rec_scope, tname, rname, rec_q, term)

    # ---- end positions of the spliced classes are exclusive ends of the closing symbol
    pm = ctx.repo.module(MPARSER)
    for cls in sorted(SPLICED_CLASSES):
        init = pm.func(f'{cls}.__init__')
        calls = [c for c in ast.walk(init) if isinstance(c, ast.Call) and norm(c.func) == 'super().__init__']
        if len(calls) != 1:
            raise Undecided(f'{cls}.__init__: super().__init__ call not found')
        el, ec = kwarg(calls[0], 'end_lineno'), kwarg(calls[0], 'end_colno')
        if el is None or ec is None:
            raise Undecided(f'{cls}.__init__ does not pass end_lineno/end_colno')
        ipaths = enumerate_paths(init.body)
        if len(ipaths) != 1:
            raise Undecided(f'{cls}.__init__ branches')
        ienv = sym_exec(ipaths[0], stop=next((st for st in ipaths[0].stmts() if any(x is calls[0] for x in ast.walk(st))), None))
        el, ec = _Subst(ienv).visit(copy.deepcopy(el)), _Subst(ienv).visit(copy.deepcopy(ec))     # locals bound first are read through
        params = [a.arg for a in init.args.args]
        closing = params[-1]
        c2, k2 = linear(ec)
        good = norm(el) in (f'{closing}.lineno', f'{closing}.end_lineno') and k2 == 1 and set(c2) <= {f'{closing}.colno', f'{closing}.end_colno'} and list(c2.values()) == [1]
        ctx.require(good, f'{cls}: end position is one past its closing symbol `{closing}`', pm, f'{cls}.__init__', calls[0],
                    f'{cls} ends at ({norm(el)}, {norm(ec)}), not one past its closing symbol: the splice raw[start:end] cuts too much or too little', calls[0])


# ---------------------------------------------------------------------------
# R4
def _list_writers(fn: ast.AST, is_list: T.Callable[[ast.AST], bool]) -> T.List[T.Tuple[ast.stmt, T.List[ast.AST]]]:
    """Statements adding elements to a list expression recognised by is_list: (statement, element expressions or [] if unknown)."""
    out: T.List[T.Tuple[ast.stmt, T.List[ast.AST]]] = []
    for st in ast.walk(fn):
        if isinstance(st, ast.AugAssign) and is_list(st.target):
            out.append((st, list(st.value.elts) if isinstance(st.value, ast.List) else []))
        elif isinstance(st, ast.Expr) and isinstance(st.value, ast.Call) and isinstance(st.value.func, ast.Attribute) \
                and st.value.func.attr in ('append', 'extend', 'insert') and is_list(st.value.func.value):
            c = st.value
            if c.func.attr == 'append' and len(c.args) == 1:
                out.append((st, [c.args[0]]))
            elif c.func.attr == 'insert' and len(c.args) == 2:
                out.append((st, [c.args[1]]))
            else:
                out.append((st, list(c.args[0].elts) if c.args and isinstance(c.args[0], ast.List) else []))
        elif isinstance(st, ast.Assign) and any(is_list(t) for t in st.targets):
            if isinstance(st.value, (ast.List,)) and not st.value.elts or (isinstance(st.value, ast.Call) and norm(st.value.func) == 'list' and not st.value.args):
                continue     # (re-)initialisation with the empty list
            v = st.value
            if isinstance(v, ast.BinOp) and isinstance(v.op, ast.Add) and is_list(v.left) and isinstance(v.right, ast.List):
                out.append((st, list(v.right.elts)))         # x = x + [a]
            elif isinstance(v, ast.List) and v.elts and isinstance(v.elts[0], ast.Starred) and is_list(v.elts[0].value):
                out.append((st, list(v.elts[1:])))           # x = [*x, a]
            else:
                out.append((st, list(v.elts) if isinstance(v, ast.List) else []))
    return out


def _mutates_args_of(fn: ast.AST, var: str) -> T.List[ast.AST]:
    """Statements of fn that change <var>.args.arguments / <var>.args.kwargs (directly or through `a = <var>.args`)."""
    aliases = {f'{var}.args'}
    for n in ast.walk(fn):
        if isinstance(n, ast.Assign) and len(n.targets) == 1 and isinstance(n.targets[0], ast.Name) and norm(n.value) == f'{var}.args':
            aliases.add(n.targets[0].id)
    chains = {f'{a}.{f}' for a in aliases for f in ('arguments', 'kwargs')}
    out: T.List[ast.AST] = []
    for n in ast.walk(fn):
        if isinstance(n, (ast.Assign, ast.AugAssign)):
            tg = n.targets if isinstance(n, ast.Assign) else [n.target]
            for t in tg:
                base = t.value if isinstance(t, ast.Subscript) else t
                if attr_chain(base) in chains:
                    out.append(n)
        elif isinstance(n, ast.Call) and isinstance(n.func, ast.Attribute) and n.func.attr in ('append', 'extend', 'insert', 'remove', 'pop', 'clear', 'update', '__setitem__', '__delitem__') \
                and attr_chain(n.func.value) in chains:
            out.append(n)
        elif isinstance(n, ast.Delete):
            for t in n.targets:
                base = t.value if isinstance(t, ast.Subscript) else t
                if attr_chain(base) in chains:
                    out.append(n)
    return out


def _strip_not(e: ast.AST) -> T.Tuple[ast.AST, bool]:
    pol = True
    while isinstance(e, ast.UnaryOp) and isinstance(e.op, ast.Not):
        e, pol = e.operand, not pol
    return e, pol


def _facts_on_edges(test: ast.AST) -> T.List[T.Tuple[ast.AST, bool, bool]]:
    """(atom, truth of the atom, edge label) for everything that is known when `test` leaves by that edge."""
    t, pol = _strip_not(test)
    out: T.List[T.Tuple[ast.AST, bool, bool]] = []
    if isinstance(t, ast.BoolOp):
        is_and = isinstance(t.op, ast.And)
        # and: on the edge where t is true every conjunct is true; or: on the edge where t is false every disjunct is false
        edge = pol if is_and else not pol
        for v in t.values:
            a, apol = _strip_not(v)
            if isinstance(a, ast.BoolOp):
                continue
            out.append((a, apol if is_and else not apol, edge))
    else:
        out.append((t, pol, True))
        out.append((t, not pol, False))
    return out


def _guarded_by(cfg: CFG, target: Node, is_guard: T.Callable[[ast.AST], T.Optional[bool]], unread: T.Optional[T.List[str]] = None) -> bool:
    """Every path entry -> target leaves some test through an edge on which the guard atom has the wanted truth value
    (or passes an `assert` of it).  is_guard(atom) -> wanted truth value, or None when the atom is not the guard."""
    pass_edges: T.Set[T.Tuple[int, T.Any]] = set()
    via_ids: T.Set[int] = set()
    # a condition named as a local first (`already = x in lst; if not already:`) is read through when the local has one definition
    # and nothing it reads is rebound between that definition and the test
    defs_of: T.Dict[str, T.List[ast.stmt]] = {}
    for n_ in ast.walk(cfg.fn):
        if isinstance(n_, (ast.Assign, ast.AugAssign, ast.AnnAssign, ast.For, ast.With)):
            # what the statement itself binds (not what the statements nested in a loop / with body bind)
            heads_ = [n_.target] if isinstance(n_, ast.For) else [i_.optional_vars for i_ in n_.items if i_.optional_vars is not None] if isinstance(n_, ast.With) else [n_]
            for x_ in [y_ for h_ in heads_ for y_ in ast.walk(h_)]:
                if isinstance(x_, ast.Name) and isinstance(x_.ctx, ast.Store):
                    defs_of.setdefault(x_.id, []).append(n_)  # type: ignore[arg-type]

    def readable(local: str, test_node: Node) -> T.Optional[ast.AST]:
        ds = defs_of.get(local, [])
        if len(ds) != 1 or not isinstance(ds[0], (ast.Assign, ast.AnnAssign)) or ds[0].value is None:
            return None
        if not isinstance(ds[0].targets[0] if isinstance(ds[0], ast.Assign) and len(ds[0].targets) == 1 else getattr(ds[0], 'target', None), ast.Name):
            return None
        v = ds[0].value
        if not isinstance(v, (ast.Compare, ast.BoolOp, ast.UnaryOp, ast.Call)):
            return None
        dn = cfg.stmt_nodes(ds[0])
        for x_ in ast.walk(v):
            if isinstance(x_, ast.Name):
                for s_ in defs_of.get(x_.id, []):
                    if s_ is ds[0]:
                        continue
                    # a re-binding between the definition and the test (a way round a loop that runs the definition again does not count)
                    if any(cfg.can_reach(d_, sn_, avoid=dn) and cfg.can_reach(sn_, test_node, avoid=dn) for d_ in dn for sn_ in cfg.stmt_nodes(s_) if sn_ not in dn):
                        return None
        return v

    def bare_flags(t_: ast.AST) -> T.Set[str]:
        # names the test reads for their truth value: `if flag`, `if not flag and ...`
        t_, _ = _strip_not(t_)
        if isinstance(t_, ast.BoolOp):
            return set().union(*[bare_flags(v_) for v_ in t_.values])
        return {t_.id} if isinstance(t_, ast.Name) else set()

    def through_locals(test: ast.AST, test_node: Node) -> ast.AST:
        env_ = {}
        flags_ = bare_flags(test)
        for x_ in ast.walk(test):
            if isinstance(x_, ast.Name) and isinstance(x_.ctx, ast.Load) and x_.id in flags_:
                r_ = readable(x_.id, test_node)
                if r_ is not None:
                    env_[x_.id] = r_
                elif unread is not None and x_.id in defs_of and cfg.can_reach(test_node, target):
                    unread.append(x_.id)        # a flag the test reads but this rule cannot read through
        return _Subst(env_).visit(copy.deepcopy(test)) if env_ else test
    for n in cfg.nodes:
        if n.kind == 'test':
            for atom, truth, edge in _facts_on_edges(through_locals(n.ast.test, n)):  # type: ignore[union-attr]
                want = is_guard(atom)
                if want is not None and want == truth:
                    pass_edges.add((n.id, edge))
        elif n.kind == 'stmt' and isinstance(n.ast, ast.Assert):
            for atom, truth, edge in _facts_on_edges(n.ast.test):
                want = is_guard(atom)
                if edge is True and want is not None and want == truth:
                    via_ids.add(n.id)
    state: T.Set[T.Tuple[int, bool]] = {(cfg.entry.id, False)}
    stack = [(cfg.entry.id, False)]
    while stack:
        a, ok = stack.pop()
        for b, lab in cfg.succ[a]:
            ok2 = ok or (a, lab) in pass_edges or b in via_ids
            if b == target.id and not ok2:
                return False
            if (b, ok2) not in state:
                state.add((b, ok2))
                stack.append((b, ok2))
    return True


def _opaque_tests(cfg: CFG, targets: T.List[Node], words: T.Set[str]) -> T.List[ast.AST]:
    """Branch conditions on a way to `targets` that could hide the guard: a helper call that receives one of `words`, or a bare
    flag whose definition is not a readable condition."""
    out: T.List[ast.AST] = []
    for n in cfg.nodes:
        if n.kind != 'test' or not any(cfg.can_reach(n, t) for t in targets):
            continue
        for x in ast.walk(n.ast.test):  # type: ignore[union-attr]
            if isinstance(x, ast.Call) and (attr_chain(x.func) or '').split('.')[-1] not in PURE_CALLS:
                mentioned = {y.id for y in ast.walk(x) if isinstance(y, ast.Name)} | {y.attr for y in ast.walk(x) if isinstance(y, ast.Attribute)}
                if mentioned & words:
                    out.append(x)
    return out


def _isinstance_of(var: str, allowed: T.Set[str]) -> T.Callable[[ast.AST], T.Optional[bool]]:
    def f(a: ast.AST) -> T.Optional[bool]:
        if isinstance(a, ast.Call) and norm(a.func) == 'isinstance' and len(a.args) == 2 and norm(a.args[0]) == var:
            t = a.args[1]
            names = {(attr_chain(x) or '?').split('.')[-1] for x in (t.elts if isinstance(t, ast.Tuple) else [t])}
            if names <= allowed:
                return True
        return None
    return f


def _annotation_ok(fn: ast.AST, var: str, allowed: T.Set[str]) -> bool:
    anns = [n.annotation for n in ast.walk(fn) if isinstance(n, ast.AnnAssign) and isinstance(n.target, ast.Name) and n.target.id == var]
    anns += [a.annotation for a in getattr(fn, 'args').args if a.arg == var and a.annotation is not None]
    if len(anns) != 1:
        return False
    names = {n.id for n in ast.walk(anns[0]) if isinstance(n, ast.Name)} | {n.attr for n in ast.walk(anns[0]) if isinstance(n, ast.Attribute)}
    names -= {'T', 'Union', 'typing'}
    return bool(names) and names <= allowed


def _demo_writer_detector() -> None:
    demo = ast.parse('def f(self, x):\n    self.modified_nodes += [x]\n    self.modified_nodes.append(x)\n')
    w = _list_writers(demo.body[0], lambda e: attr_chain(e) == 'self.modified_nodes')
    if len(w) != 2 or any(len(el) != 1 for _, el in w):
        raise Undecided('self-check of the list-writer detector failed')


PURE_CALLS = {'isinstance', 'len', 'hasattr', 'id', 'str', 'repr', 'type', 'print', 'sorted', 'min', 'max', 'bool'}


def _escapes(fn: ast.AST, var: str) -> T.List[ast.Call]:
    """Calls that receive `var` (or its argument node) and could change it out of sight."""
    names = {var, f'{var}.args', f'{var}.args.arguments', f'{var}.args.kwargs'}
    for n in ast.walk(fn):
        if isinstance(n, ast.Assign) and len(n.targets) == 1 and isinstance(n.targets[0], ast.Name) and norm(n.value) in names:
            names.add(n.targets[0].id)
    out = []
    for c in ast.walk(fn):
        if not isinstance(c, ast.Call):
            continue
        cn = attr_chain(c.func) or ''
        if cn.split('.')[-1] in PURE_CALLS or cn.startswith('mlog.'):
            continue
        if any(norm(a.value if isinstance(a, ast.Starred) else a) in names for a in c.args) or any(norm(k.value) in names for k in c.keywords):
            out.append(c)
    return out


def _callers(m: Module, fn: ast.FunctionDef, var: str) -> T.Optional[T.List[T.Tuple[str, ast.FunctionDef, ast.Call, ast.AST]]]:
    """(caller name, caller, call, argument bound to parameter `var`) for every call of `fn` in the module; None when `var` is not a parameter."""
    params = [a.arg for a in fn.args.posonlyargs + fn.args.args + fn.args.kwonlyargs]
    if var not in params or var in ('self', 'cls'):
        return None
    is_method = any(q.endswith('.' + fn.name) and f is fn and '.' in q for q, f in m.funcs().items())
    out = []
    for q, g in m.funcs().items():
        if g is fn:
            continue
        for c in walk_no_nested(g):
            if isinstance(c, ast.Call) and (attr_chain(c.func) or '').split('.')[-1] == fn.name:
                b = bind_args(c, fn, is_method)
                if var in b and isinstance(g, ast.FunctionDef):
                    out.append((q, g, c, b[var]))
    return out


def _require_mutated(ctx: RuleCtx, m: Module, qn: str, fn: ast.AST, var: str, st: ast.AST, what_ok: str, what_bad: str, effect: str) -> None:
    muts = _mutates_args_of(fn, var)
    if muts:
        ctx.ok(f'{qn}: `{var}` {what_ok} and its argument list is changed here ({len(muts)} mutation(s))')
        return
    callers = _callers(m, T.cast(ast.FunctionDef, fn), var) if isinstance(fn, ast.FunctionDef) else None
    if callers is not None:
        # the record was extracted into a helper: the change of the argument list is the caller's business
        if not callers:
            raise Undecided(f'{qn}: `{var}` is a parameter and no call of {qn} was found')
        for cq, g, c, arg in callers:
            if not isinstance(arg, ast.Name):
                raise Undecided(f'{cq}: `{short(c)}` hands over {short(arg)}')
            if _mutates_args_of(g, arg.id):
                ctx.ok(f'{cq}: `{arg.id}` {what_ok} through {qn} and its argument list is changed in {cq}')
            elif _escapes(g, arg.id)[1:] or _callers(m, g, arg.id) is not None:
                raise Undecided(f'{cq}: cannot see where the argument list of `{arg.id}` is changed')
            else:
                ctx.violation(m, cq, c, f'`{arg.id}` {what_bad} (through {qn}) but {cq} never changes {arg.id}.args.arguments / {arg.id}.args.kwargs '
                              f'and hands it to nobody who could: {effect}', c)
        return
    esc = _escapes(fn, var)
    if esc:
        raise Undecided(f'{qn}: `{var}` is not changed here but handed to `{short(esc[0])}`: cannot see whether its argument list is changed')
    ctx.violation(m, qn, st, f'`{var}` {what_bad} but {qn} never changes {var}.args.arguments / {var}.args.kwargs and hands it to nobody who could: {effect}', st)


def _declared_types(m: Module, fn: ast.AST, var: str) -> T.Optional[T.Set[str]]:
    """Class names a static annotation gives for `var`: its own annotation, or the return annotation of the function whose
    result it is unpacked from."""
    def names_of(ann: ast.AST) -> T.Set[str]:
        ns = {n.id for n in ast.walk(ann) if isinstance(n, ast.Name)} | {n.attr for n in ast.walk(ann) if isinstance(n, ast.Attribute)}
        return ns - {'T', 'Union', 'Optional', 'typing', 'Tuple', 'List', 'None'}
    for n in ast.walk(fn):
        if isinstance(n, ast.AnnAssign) and isinstance(n.target, ast.Name) and n.target.id == var:
            return names_of(n.annotation)
        if isinstance(n, ast.Assign) and len(n.targets) == 1 and isinstance(n.value, ast.Call):
            tg = n.targets[0]
            elts = tg.elts if isinstance(tg, ast.Tuple) else [tg]
            idx = [i for i, e in enumerate(elts) if norm(e) == var]
            if not idx:
                continue
            cname = (attr_chain(n.value.func) or '').split('.')[-1]
            cands = [f for q, f in m.funcs().items() if q.split('.')[-1] == cname and f.returns is not None]
            if len(cands) != 1:
                return None
            r = cands[0].returns
            if isinstance(tg, ast.Tuple):
                sl = r.slice if isinstance(r, ast.Subscript) else None
                if isinstance(sl, ast.Tuple) and len(sl.elts) == len(elts):
                    return names_of(sl.elts[idx[0]])
                return None
            return names_of(r)
    return None


def _require_typed(ctx: RuleCtx, m: Module, qn: str, fn: ast.AST, cfg: CFG, var: str, st: ast.AST, nodes: T.List[Node]) -> None:
    what = f'{qn}: `{var}` is an ArrayNode/FunctionNode on every path to the record'
    if _annotation_ok(fn, var, SPLICED_CLASSES) or all(_guarded_by(cfg, nd, _isinstance_of(var, SPLICED_CLASSES)) for nd in nodes):
        ctx.ok(what)
        return
    callers = _callers(m, T.cast(ast.FunctionDef, fn), var) if isinstance(fn, ast.FunctionDef) else None
    if callers:
        for cq, g, c, arg in callers:
            if not isinstance(arg, ast.Name):
                raise Undecided(f'{cq}: `{short(c)}` hands over {short(arg)}')
            gcfg = CFG(g)
            cn = gcfg.node_containing(c)
            if _annotation_ok(g, arg.id, SPLICED_CLASSES) or (cn and all(_guarded_by(gcfg, nd, _isinstance_of(arg.id, SPLICED_CLASSES)) for nd in cn)):
                ctx.ok(f'{cq}: `{arg.id}` is an ArrayNode/FunctionNode where it is handed to {qn}')
            else:
                raise Undecided(f'{cq}: type of `{arg.id}` handed to {qn} is not visible')
        return
    declared = _declared_types(m, fn, var)
    if declared and not declared <= SPLICED_CLASSES:
        ctx.violation(m, qn, f'type of {var} at {short(st)}',
                      f'`{var}` is declared as {sorted(declared)} and reaches `{short(st)}` on a path without an isinstance check for ArrayNode / FunctionNode: '
                      'apply_changes can only replace nodes that carry an end position (others are inserted in front of the old text)', st)
        return
    raise Undecided(f'{qn}: cannot see the type of `{var}` at `{short(st)}`')


def r4(ctx: RuleCtx) -> None:
    _demo_writer_detector()
    mod = ctx.repo.module(REWRITER)
    # -- who writes modified_nodes anywhere else? (quick: rewriter only; thorough: whole package)
    rels = [REWRITER]
    if ctx.thorough:
        rels = [r for r in ctx.repo.py_files('mesonbuild') if 'modified_nodes' in ctx.repo.read(r)]
    n_mod = n_sort = 0
    for rel in rels:
        m = ctx.repo.module(rel)
        for qn, fn0 in m.funcs().items():
            # read in normal form: effect helpers (`_append_once(lst, n)`, `self._mark(n)`) inlined, loops over constant tuples unrolled
            fn = nf_func(m, qn)
            own = [st for st, _ in _list_writers(fn, lambda e: (attr_chain(e) or '').endswith('.modified_nodes'))
                   if m.enclosing_func(st) == qn]
            if not own:
                continue
            cfg = CFG(fn)
            for st, elts in _list_writers(fn, lambda e: (attr_chain(e) or '').endswith('.modified_nodes')):
                if m.enclosing_func(st) != qn:
                    continue
                lst = norm(st.target if isinstance(st, ast.AugAssign) else st.value.func.value if isinstance(st, ast.Expr) else st.targets[0])  # type: ignore[attr-defined,union-attr]
                if len(elts) != 1 or not isinstance(elts[0], ast.Name):
                    raise Undecided(f'{rel}: {qn}: `{short(st)}` does not add exactly one named node')
                var = elts[0].id
                n_mod += 1
                _require_mutated(ctx, m, qn, fn, var, st, 'is recorded as modified', 'is put on modified_nodes', 'an untouched statement would be re-printed')
                nodes = cfg.stmt_nodes(st)
                if not nodes:
                    raise Undecided(f'{qn}: writer not in CFG')

                def not_in(a: ast.AST, var: str = var, lst: str = lst) -> T.Optional[bool]:
                    if isinstance(a, ast.Compare) and len(a.ops) == 1 and norm(a.left) == var and norm(a.comparators[0]) == lst:
                        if isinstance(a.ops[0], ast.NotIn):
                            return True
                        if isinstance(a.ops[0], ast.In):
                            return False
                    return None
                unread: T.List[str] = []
                if not all(_guarded_by(cfg, nd, not_in, unread) for nd in nodes):
                    words = {var, lst.rsplit('.', 1)[-1]}
                    opaque = _opaque_tests(cfg, nodes, words)
                    if opaque:
                        raise Undecided(f'{qn}: whether `{var}` is already recorded may be decided by `{short(opaque[0])}`, which the rule cannot read')
                    lword = {lst.rsplit('.', 1)[-1]}
                    for flag in unread:
                        for d_ in ast.walk(fn):
                            if not (isinstance(d_, (ast.Assign, ast.AnnAssign, ast.AugAssign)) and d_.value is not None
                                    and any(isinstance(x_, ast.Name) and x_.id == flag and isinstance(x_.ctx, ast.Store) for x_ in ast.walk(d_))):
                                continue
                            read_ = {y.id for y in ast.walk(d_.value) if isinstance(y, ast.Name)} | {y.attr for y in ast.walk(d_.value) if isinstance(y, ast.Attribute)}
                            helper_ = any(isinstance(c_, ast.Call) and (attr_chain(c_.func) or '').split('.')[-1] not in PURE_CALLS and var in {y.id for y in ast.walk(c_) if isinstance(y, ast.Name)}
                                          for c_ in ast.walk(d_.value))
                            # the flag is computed from the list, or by a helper that receives the node: it may be the membership test
                            if lword & read_ or helper_:
                                raise Undecided(f'{qn}: whether `{var}` is already recorded may be decided by the flag `{flag}` (`{short(d_)}`), which the rule cannot read through')
                ctx.require(all(_guarded_by(cfg, nd, not_in) for nd in nodes), f'{qn}: `{var}` is recorded at most once (guarded by `{var} not in {lst}`)', m, qn, st,
                            f'`{short(st)}` can run while `{var}` is already on the list: the node would be spliced twice, the second time at stale offsets', st)
                _require_typed(ctx, m, qn, fn, cfg, var, st, nodes)
    ctx.floor('writers of modified_nodes', n_mod, 1)

    # -- to_sort_nodes: only nodes whose argument list the command touched
    for qn in ('Rewriter.add_src_or_extra', 'Rewriter.rm_src_or_extra'):
        fn = nf_func(mod, qn)
        lists = [a.arg for a in fn.args.args if a.annotation is not None and 'to_sort' in a.arg]
        if len(lists) != 1:
            raise Undecided(f'{qn}: to_sort list parameter not found')
        for st, elts in _list_writers(fn, lambda e, l=lists[0]: norm(e) == l):
            if len(elts) != 1 or not isinstance(elts[0], ast.Name):
                raise Undecided(f'{qn}: `{short(st)}`')
            n_sort += 1
            _require_mutated(ctx, mod, qn, fn, elts[0].id, st, 'is scheduled for sorting', 'is scheduled for sorting', 'an untouched list would be re-ordered')
    ctx.floor('writers of to_sort_nodes', n_sort, 1)

    _r4_sort(ctx, mod)
    _r4_guards(ctx, mod)
    _r4_scope(ctx, mod)
    _r4_disjoint(ctx, mod)


# -- splices of one apply_changes round do not overlap (the general form of "recorded at most once") ----------------------
POS_START = ('lineno', 'colno')
POS_END = ('end_lineno', 'end_colno')


def _pos_pair(e: ast.AST) -> T.Optional[T.Tuple[str, str]]:
    """(`x`, 'start'|'end') for the tuple (x.lineno, x.colno) / (x.end_lineno, x.end_colno)."""
    if isinstance(e, ast.Tuple) and len(e.elts) == 2 and all(isinstance(x, ast.Attribute) and isinstance(x.value, ast.Name) for x in e.elts):
        a, b = T.cast(T.List[ast.Attribute], e.elts)
        if norm(a.value) == norm(b.value):
            if (a.attr, b.attr) == POS_START:
                return norm(a.value), 'start'
            if (a.attr, b.attr) == POS_END:
                return norm(a.value), 'end'
    return None


def _containment_filter(ctx: RuleCtx, mod: Module) -> bool:
    """Does apply_changes drop a recorded node that lies inside another recorded node before it splices?
    False: no expression of apply_changes relates two recorded nodes at all.  True: the filter was read.  Otherwise undecided."""
    qn = 'Rewriter.apply_changes'
    fn = mod.func(qn)
    helpers = {f.name: f for f in _nested_funcs(fn)}
    for q, f in mod.funcs().items():
        if q.startswith('Rewriter.') and q.count('.') == 1 and isinstance(f, ast.FunctionDef):
            helpers.setdefault(f.name, f)
    for q, f in mod.funcs().items():
        if '.' not in q and isinstance(f, ast.FunctionDef):
            helpers.setdefault(f.name, f)

    def over_recorded(it: ast.AST) -> bool:
        return any((attr_chain(x) or '').endswith('.modified_nodes') for x in ast.walk(it))
    # iteration variables that range over the recorded nodes
    comps = [c for c in ast.walk(fn) if isinstance(c, (ast.ListComp, ast.SetComp, ast.GeneratorExp))]
    rel: T.List[T.Tuple[ast.AST, str, str, ast.AST]] = []     # (outer comprehension, its variable, inner variable, inner comprehension)
    for c in comps:
        if len(c.generators) != 1 or not isinstance(c.generators[0].target, ast.Name) or not over_recorded(c.generators[0].iter):
            continue
        v = c.generators[0].target.id
        for cond in c.generators[0].ifs:
            for c2 in ast.walk(cond):
                if isinstance(c2, (ast.ListComp, ast.SetComp, ast.GeneratorExp)) and len(c2.generators) == 1 and isinstance(c2.generators[0].target, ast.Name) \
                        and over_recorded(c2.generators[0].iter):
                    rel.append((c, v, c2.generators[0].target.id, c2))
    loops = [n for n in ast.walk(fn) if isinstance(n, ast.For) and over_recorded(n.iter)]
    nested_loops = [n for n in loops if any(m is not n and isinstance(m, (ast.For, ast.ListComp, ast.SetComp, ast.GeneratorExp)) and
                                            over_recorded(m.iter if isinstance(m, ast.For) else m.generators[0].iter) for b in n.body for m in ast.walk(b))]
    if nested_loops:
        raise Undecided(f'{qn}: a loop over the recorded nodes holds a second pass over them (`{short(nested_loops[0])}`): a containment filter the rule cannot read')
    if not rel:
        return False
    if len(rel) != 1:
        raise Undecided(f'{qn}: {len(rel)} pairwise passes over the recorded nodes')
    outer_c, x, y, inner_c = rel[0]
    cond = outer_c.generators[0].ifs
    # shape: [.. for x in recorded if not any(<x inside y> for y in recorded)]
    if len(cond) != 1:
        raise Undecided(f'{qn}: pairwise filter with {len(cond)} conditions')
    t, pol = _strip_not(cond[0])
    if not (isinstance(t, ast.Call) and norm(t.func) == 'any' and len(t.args) == 1 and t.args[0] is inner_c and not pol and not inner_c.generators[0].ifs):
        raise Undecided(f'{qn}: pairwise filter `{short(cond[0])}` is not of the form `not any(<relation> for {y} in <recorded>)`')
    body: ast.AST = inner_c.elt
    if isinstance(body, ast.Call) and (attr_chain(body.func) or '').split('.')[-1] in helpers:
        h = helpers[(attr_chain(body.func) or '').split('.')[-1]]
        r = _single_return(h)
        if r is None:
            raise Undecided(f'{qn}: relation helper {h.name} is not a single return')
        b = bind_args(body, h, isinstance(body.func, ast.Attribute))
        body = _Subst(b).visit(copy.deepcopy(r))
    conj = body.values if isinstance(body, ast.BoolOp) and isinstance(body.op, ast.And) else [body]
    facts: T.Set[str] = set()
    for cj in conj:
        s = norm(cj)
        if s in (f'{x} is not {y}', f'{y} is not {x}', f'{x} != {y}', f'{y} != {x}'):
            facts.add('distinct')
        elif s in (f'{x}.filename == {y}.filename', f'{y}.filename == {x}.filename'):
            facts.add('same file')
        elif isinstance(cj, ast.Compare) and len(cj.ops) == 1 and isinstance(cj.ops[0], (ast.LtE, ast.GtE)):
            l, r_ = _pos_pair(cj.left), _pos_pair(cj.comparators[0])
            if l is None or r_ is None or l[1] != r_[1] or {l[0], r_[0]} != {x, y}:
                raise Undecided(f'{qn}: cannot read `{short(cj)}` of the containment relation')
            small, big = (l, r_) if isinstance(cj.ops[0], ast.LtE) else (r_, l)
            # x inside y: y.start <= x.start, x.end <= y.end
            if l[1] == 'start':
                facts.add('start ok' if (small[0], big[0]) == (y, x) else 'start reversed')
            else:
                facts.add('end ok' if (small[0], big[0]) == (x, y) else 'end reversed')
        else:
            raise Undecided(f'{qn}: cannot read `{short(cj)}` of the containment relation')
    what = f'{qn}: a recorded node that lies inside another recorded node of the same file is dropped before splicing (the outer one is re-printed with it)'
    ctx.require(facts == {'distinct', 'same file', 'start ok', 'end ok'}, what, mod, qn, 'containment filter over the recorded nodes',
                f'the filter `{short(cond[0], 100)}` does not drop exactly the nodes lying inside another recorded node of the same file (read: {sorted(facts)}; '
                'wanted: distinct, same file, outer start <= inner start, inner end <= outer end)', outer_c)
    return facts == {'distinct', 'same file', 'start ok', 'end ok'}


def _feasible_after(cfg: CFG, src: Node, dst: Node, flag: T.Optional[str]) -> bool:
    """Is there a way src -> dst (at least one edge) that no test contradicts, reading only the constant assignments of one boolean local?"""
    UNK = 'unknown'
    seen: T.Set[T.Tuple[int, T.Any]] = set()
    stack: T.List[T.Tuple[int, T.Any]] = [(src.id, UNK)]
    by_id = {n.id: n for n in cfg.nodes}
    while stack:
        a, val = stack.pop()
        na = by_id[a]
        facts: T.List[T.Tuple[ast.AST, bool, T.Any]] = []
        if na.kind == 'test' and flag is not None:
            facts = [(at, tr, ed) for at, tr, ed in _facts_on_edges(na.ast.test) if isinstance(at, ast.Name) and at.id == flag]  # type: ignore[union-attr]
        for b, lab in cfg.succ[a]:
            if val is not UNK and any(ed == lab and tr != val for _, tr, ed in facts):
                continue
            nb = by_id[b]
            v2 = val
            if flag is not None and nb.ast is not None and nb.kind in ('stmt', 'iter', 'with_enter'):
                heads = [nb.ast.target] if isinstance(nb.ast, ast.For) else [nb.ast]
                binds = any(isinstance(z, ast.Name) and z.id == flag and isinstance(z.ctx, ast.Store) for h in heads for z in ast.walk(h))
                if binds:
                    st = nb.ast
                    v2 = st.value.value if isinstance(st, ast.Assign) and len(st.targets) == 1 and isinstance(st.targets[0], ast.Name) \
                        and isinstance(st.value, ast.Constant) and isinstance(st.value.value, bool) else UNK
            if b == dst.id:
                return True
            if (b, v2) not in seen:
                seen.add((b, v2))
                stack.append((b, v2))
    return False


def _rebinds(node: Node, var: str) -> bool:
    if node.ast is None or node.kind not in ('stmt', 'iter', 'with_enter'):
        return False
    heads = [node.ast.target] if isinstance(node.ast, ast.For) else [i.optional_vars for i in node.ast.items if i.optional_vars is not None] \
        if isinstance(node.ast, ast.With) else [node.ast] if isinstance(node.ast, (ast.Assign, ast.AnnAssign, ast.AugAssign)) else []
    if isinstance(node.ast, (ast.Assign, ast.AnnAssign, ast.AugAssign)):
        heads = node.ast.targets if isinstance(node.ast, ast.Assign) else [node.ast.target]
    return any(isinstance(z, ast.Name) and z.id == var and isinstance(z.ctx, ast.Store) for h in heads for z in ast.walk(h))


def _r4_disjoint(ctx: RuleCtx, mod: Module) -> None:
    """apply_changes computes every splice range from the positions of the text as it was read; that is only right when the ranges of one
    round are pairwise disjoint.  `x not in modified_nodes` excludes the same node twice; a node *inside* another recorded node is the
    same fault (the inner splice changes the length of the outer range).  So: wherever one round can record two different nodes
    (two recording statements on one feasible path, or one recording statement on a loop that re-binds the recorded variable) either the
    pair is excluded by a flag the function itself sets, or apply_changes drops nodes lying inside another recorded node."""
    def is_list(e: ast.AST) -> bool:
        return (attr_chain(e) or '').endswith('.modified_nodes')
    handled = _containment_filter(ctx, mod)
    n_pairs = 0
    # a record extracted into a procedure that the normal form does not inline (early return): its call statements are the recording statements
    rec_helpers: T.Dict[str, T.Tuple[ast.FunctionDef, str, bool]] = {}
    for qn, f in mod.funcs().items():
        if isinstance(f, ast.FunctionDef) and 'modified_nodes' in norm(f):
            params = [a.arg for a in f.args.args if a.arg not in ('self', 'cls')]
            for st, elts in _list_writers(f, is_list):
                if mod.enclosing_func(st) == qn and len(elts) == 1 and isinstance(elts[0], ast.Name) and elts[0].id in params:
                    rec_helpers[f.name] = (f, elts[0].id, '.' in qn)
    for qn in list(mod.funcs()):
        fn0 = mod.funcs()[qn]
        if not isinstance(fn0, ast.FunctionDef) or not ('modified_nodes' in norm(fn0) or any(h in norm(fn0) for h in rec_helpers)):
            continue
        fn = nf_func(mod, qn)
        ws = [(st, elts[0].id) for st, elts in _list_writers(fn, is_list) if mod.enclosing_func(st) == qn and len(elts) == 1 and isinstance(elts[0], ast.Name)]
        for st in ast.walk(fn):
            if isinstance(st, ast.Expr) and isinstance(st.value, ast.Call) and (attr_chain(st.value.func) or '').split('.')[-1] in rec_helpers \
                    and mod.enclosing_func(st) == qn:
                h, pv, is_m = rec_helpers[(attr_chain(st.value.func) or '').split('.')[-1]]
                arg = bind_args(st.value, h, is_m).get(pv)
                if not isinstance(arg, ast.Name):
                    raise Undecided(f'{qn}: `{short(st)}` records {short(arg) if arg is not None else "?"}')
                ws.append((st, arg.id))
        if not ws:
            continue
        cfg = CFG(fn)
        flags = {z.id for n in cfg.nodes if n.kind == 'test' for at, _, _ in _facts_on_edges(n.ast.test) for z in [at] if isinstance(z, ast.Name)}  # type: ignore[union-attr]
        for st1, v1 in ws:
            for st2, v2 in ws:
                for a in cfg.stmt_nodes(st1):
                    for b in cfg.stmt_nodes(st2):
                        if not _feasible_after(cfg, a, b, None):
                            continue
                        if v1 == v2:
                            # the same variable: a different node only when it is re-bound on the way
                            mids = [m for m in cfg.nodes if _rebinds(m, v1) and _feasible_after(cfg, a, m, None) and (m is b or _feasible_after(cfg, m, b, None))]
                            if not mids:
                                continue
                        n_pairs += 1
                        what = f'{qn}: `{v1}` and then `{v2}` recorded in one round'
                        excl = [f for f in sorted(flags) if not _feasible_after(cfg, a, b, f)]
                        if excl:
                            ctx.ok(f'{what}: excluded, the second record is skipped by the flag `{excl[0]}` set after the first')
                            continue
                        if handled:
                            ctx.ok(f'{what}: apply_changes drops the one lying inside the other')
                            continue
                        words = {v1, v2, 'modified_nodes'}
                        opaque = _opaque_tests(cfg, [b], words)
                        if opaque:
                            raise Undecided(f'{what}: whether one lies inside the other may be decided by `{short(opaque[0])}`, which the rule cannot read')
                        if st1 is st2:
                            ctx.violation(mod, qn, 'two nodes recorded by different iterations of one loop may lie inside each other',
                                          f'`{short(st1)}` runs once per loop iteration with `{v1}` re-bound in between, guarded only against recording the *same* node twice; '
                                          'an ArrayNode argument of a recorded FunctionNode (or an array inside a recorded array) can be recorded as well, and '
                                          'Rewriter.apply_changes neither drops nodes lying inside another recorded node nor re-computes offsets: the inner splice changes the '
                                          'length of the text, the outer splice then cuts at its stale end offset and removes/keeps the wrong characters after the statement '
                                          "(`executable('t', ['a.c', 'c.c'], 'b.c', install_dir: 'x')` + `target t rm a.c b.c` deletes the following statement)", st1)
                        else:
                            raise Undecided(f'{what} on one path, no containment handling seen: whether the two can lie inside each other is not visible')
    ctx.floor('pairs of records of one round examined', n_pairs, 2)


def _r4_scope(ctx: RuleCtx, mod: Module) -> None:
    """must-not-flow (K3): an extra-files operation searches / extends only what feeds the `extra_files` keyword, a source
    operation only what feeds the sources: the node set handed to the dataflow query is built from the matching attribute of the
    target on every path selected by the operation constant."""
    from ..core import chains_in
    n = 0
    seen_sets: T.Set[T.Any] = set()
    for qn, dag_user in (('Rewriter.rm_src_or_extra', True), ('Rewriter.add_src_or_extra', True)):
        outer = nf_func(mod, qn)
        scopes = [outer] + [f for f in ast.walk(outer) if isinstance(f, ast.FunctionDef) and f is not outer]
        for f in scopes:
            opv = [a.arg for a in outer.args.args][1]
            # the first dataflow query whose argument set depends on the operation
            for p in enumerate_paths(f.body, unroll=0):
                ops = {k: v for k, v in p.cond_map().items() if k.startswith(f'{opv} == ')}
                chosen = [ast.literal_eval(k.split(' == ', 1)[1]) for k, v in ops.items() if v]
                if len(chosen) != 1:
                    continue
                op = chosen[0]
                env = sym_exec(p)
                for name, e in env.items():
                    if not any(isinstance(c, ast.Call) and (attr_chain(c.func) or '').endswith('dataflow_dag.reachable') for c in ast.walk(e)) and name != 'old':
                        continue
                    if name == 'old' and f is not outer:
                        continue
                    reads = chains_in(e)
                    tgt = {c for c in reads if c.startswith('target.')}
                    unknown_calls = [c for c in ast.walk(e) if isinstance(c, ast.Call) and not (attr_chain(c.func) or '').endswith('dataflow_dag.reachable')
                                     and not (isinstance(c.func, ast.Attribute) and c.func.attr in ('union', 'copy'))
                                     and norm(c.func) not in ('set', 'frozenset', 'list')]
                    if unknown_calls or not tgt:
                        continue      # not a set built directly from the target's attributes: not judged
                    key_ = (qn, f.name, op, name, norm(e))
                    if key_ in seen_sets:
                        continue
                    seen_sets.add(key_)
                    n += 1
                    extra = op.startswith('extra_files')
                    foreign = sorted(c for c in tgt if (c in ('target.node', 'target.source_nodes') if extra else c == 'target.extra_files'))
                    ctx.require(not foreign, f'{qn}{"." + f.name if f is not outer else ""}: for {op!r} the searched node set `{name}` is built from {sorted(tgt)}', mod, qn,
                                f'node set for {op}',
                                f'for the operation {op!r} the node set `{name}` = {short(e, 120)} also takes {foreign}: '
                                + ('an extra-files operation would find and change a *source* argument of the target call of the same name'
                                   if extra else 'a source operation would change the extra_files list'), p.events[-1].node if p.events else f)
    ctx.floor('operation-selected node sets', n, 2)


def _r4_sort(ctx: RuleCtx, mod: Module) -> None:
    """The sort loop keeps every argument, keeps the non-string ones (and the target name) in place and order."""
    qn = 'Rewriter.process_target'
    fn = nf_func(mod, qn)
    callers = [c for c in ast.walk(fn) if isinstance(c, ast.Call) and (attr_chain(c.func) or '').endswith(('add_src_or_extra', 'rm_src_or_extra'))]
    lists = {norm(c.args[-1]) for c in callers if c.args}
    if len(lists) != 1:
        raise Undecided(f'{qn}: the to-sort list handed to the add/rm helpers is not unique: {lists}')
    lname = next(iter(lists))
    loops = [n for n in walk_no_nested(fn) if isinstance(n, ast.For) and norm(n.iter) == lname]
    if len(loops) != 1:
        raise Undecided(f'{qn}: {len(loops)} loops over {lname}')
    loop = loops[0]
    it = norm(loop.target)
    args_e = f'{it}.args.arguments'
    n_paths = 0
    for p in enumerate_paths(loop.body):
        stores = [s for s in p.stmts() if isinstance(s, ast.Assign) and len(s.targets) == 1 and norm(s.targets[0]) == args_e]
        if len(stores) != 1:
            raise Undecided(f'{qn}: a path of the sort loop stores the arguments {len(stores)} times')
        n_paths += 1
        env = sym_exec(p, stop=stores[0])
        rhs = _strip_cast(_Subst(env).visit(copy.deepcopy(stores[0].value)))
        parts = _flatten_add(rhs)
        head = 0
        base: T.Optional[str] = None
        filters: T.List[T.Tuple[T.Any, bool, bool]] = []   # (atom, polarity, sorted?)
        for i, part in enumerate(parts):
            srt = False
            if isinstance(part, ast.Call) and norm(part.func) == 'sorted' and part.args:
                srt = True
                part = part.args[0]
            if isinstance(part, ast.List) and len(part.elts) == 1 and norm(part.elts[0]) == f'{args_e}[0]' and i == 0 and not srt:
                head = 1
                continue
            if isinstance(part, ast.List) and not part.elts:
                continue
            if isinstance(part, ast.ListComp) and len(part.generators) == 1 and len(part.generators[0].ifs) == 1 \
                    and norm(part.elt) == norm(part.generators[0].target):
                g = part.generators[0]
                b = norm(g.iter)
                if base not in (None, b):
                    raise Undecided(f'{qn}: parts of the new argument list filter different lists')
                base = b
                cond = _Subst({norm(g.target): ast.Name(id='ELT', ctx=ast.Load())}).visit(copy.deepcopy(g.ifs[0]))
                a, pol = canon(cond, True)
                filters.append((a, pol, srt))
                continue
            raise Undecided(f'{qn}: part {short(part)} of the new argument list')
        on_target = any(v for k, v in p.conds() if 'BUILD_TARGET_FUNCTIONS' in k)
        want_base = f'{args_e}[1:]' if head else args_e
        complete = base == want_base and len(filters) == 2 and filters[0][0] == filters[1][0] and filters[0][1] != filters[1][1]
        what = f'{qn}: sort loop ({"build target call" if on_target else "plain list / files()"}): '
        ctx.require(complete, what + 'new argument list is a partition of the old one', mod, qn, stores[0],
                    f'new argument list {short(rhs, 150)} is not [first] + complementary filters of the remaining arguments: arguments are dropped or duplicated', stores[0])
        only_strings = all((not srt) or (a.kind == 'isinstance' and a.args[0] == 'ELT' and a.args[1] == ('StringNode',) and pol) for a, pol, srt in filters)
        ctx.require(only_strings and (head == 1 or not on_target), what + 'only the StringNode arguments are re-ordered' + (', the target name stays first' if on_target else ''),
                    mod, qn, f'sorted part ({"target" if on_target else "list"})',
                    f'{short(rhs, 150)}: ' + ('the first argument (target name) of a build target call takes part in the sort' if on_target and head == 0
                                              else 'something other than the StringNode arguments is sorted: the order of the other arguments changes'), stores[0])
    ctx.floor('paths of the sort loop', n_paths, 1)


def _r4_guards(ctx: RuleCtx, mod: Module) -> None:
    gname = 'affects_no_other_targets'
    # the guard itself: exactly one build target is fed by the candidate
    g = mod.func(f'Rewriter.{gname}')
    rets = [n for n in walk_no_nested(g) if isinstance(n, ast.Return)]
    if len(rets) != 1 or rets[0].value is None:
        raise Undecided(f'{gname}: not a single return')
    gdefs: T.Dict[str, T.List[ast.AST]] = {}
    for n in walk_no_nested(g):
        if isinstance(n, ast.Assign) and len(n.targets) == 1 and isinstance(n.targets[0], ast.Name):
            gdefs.setdefault(n.targets[0].id, []).append(n.value)
        elif isinstance(n, ast.AnnAssign) and isinstance(n.target, ast.Name) and n.value is not None:
            gdefs.setdefault(n.target.id, []).append(n.value)
    single = {k: v[0] for k, v in gdefs.items() if len(v) == 1}

    def is_count(e: ast.AST, depth: int = 0) -> bool:
        # len(<collection>) / sum(1 for ...) / a local bound once to one of these
        if isinstance(e, ast.Name) and e.id in single and depth < 3:
            return is_count(single[e.id], depth + 1)
        if isinstance(e, ast.Call) and norm(e.func) == 'len' and len(e.args) == 1:
            return True
        if isinstance(e, ast.Call) and norm(e.func) == 'sum' and len(e.args) == 1 and isinstance(e.args[0], (ast.GeneratorExp, ast.ListComp)) \
                and isinstance(e.args[0].elt, ast.Constant) and e.args[0].elt.value == 1:
            return True
        return False
    rv = rets[0].value
    if isinstance(rv, ast.Name) and rv.id in single:
        rv = single[rv.id]
    if not (isinstance(rv, ast.Compare) or (isinstance(rv, ast.UnaryOp) and isinstance(rv.op, ast.Not) and isinstance(rv.operand, ast.Compare))):
        raise Undecided(f'{gname}: result {short(rets[0].value)} is not a comparison of a count')
    cmp_e = rv if isinstance(rv, ast.Compare) else rv.operand  # type: ignore[attr-defined]
    sides = [cmp_e.left] + list(cmp_e.comparators)
    if len(sides) != 2 or sum(1 for x in sides if is_count(x)) != 1 or not any(isinstance(x, ast.Constant) for x in sides):
        raise Undecided(f'{gname}: result {short(rets[0].value)} is not a comparison of a count with a constant')
    cnt = next(x for x in sides if is_count(x))
    a, pol = canon(_Subst({}).visit(copy.deepcopy(rv)), True)
    a = a._replace(args=tuple('COUNT' if x == norm(cnt) else x for x in a.args))
    exact = (a.args[0] == 'eq' and set(a.args[1:]) == {'COUNT', '1'} and pol) or (a.args[0] == 'lt' and a.args[1:] == ('COUNT', '2') and pol) \
        or (a.args[0] == 'lt' and a.args[1:] == ('1', 'COUNT') and not pol)
    ctx.require(exact, f'{gname}: holds only when at most one target is affected', mod, f'Rewriter.{gname}', rets[0],
                f'{gname} returns {short(rets[0].value)}: it also holds when several targets are fed by the candidate', rets[0])

    # removal
    qn = 'Rewriter.rm_src_or_extra'
    fn = nf_func(mod, qn)
    removes = [c for c in walk_no_nested(fn) if isinstance(c, ast.Call) and isinstance(c.func, ast.Attribute) and c.func.attr in ('remove', 'pop')
               and (attr_chain(c.func.value) or '').endswith('.arguments')]
    if len(removes) != 1 or len(removes[0].args) != 1:
        raise Undecided(f'{qn}: {len(removes)} removals from an argument list')
    rm = removes[0]
    victim = norm(rm.args[0])
    loops = [n for n in walk_no_nested(fn) if isinstance(n, ast.For) and any(x is rm for x in ast.walk(n))]
    if len(loops) != 1:
        raise Undecided(f'{qn}: removal is not inside one loop')
    hit = 0
    bad: T.List[str] = []
    for p in enumerate_paths(loops[0].body):
        if not any(any(x is rm for x in ast.walk(s)) for s in p.stmts()):
            continue
        hit += 1
        conds = [(k, v) for k, v in p.conds() if k == f'self.{gname}({victim})']
        if not conds or not all(v for _, v in conds):
            bad.append(p.describe())
    if not hit:
        raise Undecided(f'{qn}: no path reaches the removal')
    if bad:
        guard_calls = [c for c in ast.walk(fn) if isinstance(c, ast.Call) and (attr_chain(c.func) or '').split('.')[-1] == gname]
        in_scope = [c for c in walk_no_nested(fn) if isinstance(c, ast.Call) and (attr_chain(c.func) or '').split('.')[-1] == gname]
        helpers_on_path = [c for c in walk_no_nested(loops[0]) if isinstance(c, ast.Call) and (attr_chain(c.func) or '').split('.')[-1] not in PURE_CALLS
                           and not (attr_chain(c.func) or '').startswith(('mlog.', 'os.')) and any(norm(a_) == victim for a_ in c.args)
                           and (attr_chain(c.func) or '').split('.')[-1] not in (gname, 'remove', 'pop')]
        if len(guard_calls) != len(in_scope) or helpers_on_path:
            # the guard may be applied where this rule does not look (nested helper / a helper that receives the victim)
            raise Undecided(f'{qn}: {gname} is not a path condition of `{short(rm)}` but may be applied inside a helper')
    ctx.require(not bad, f'{qn}: {hit} path(s) reach `{short(rm)}`, each after {gname}({victim}) held', mod, qn, rm,
                f'`{short(rm)}` is reachable without {gname}({victim}) being true (path: {bad[0][:160] if bad else ""}): a source shared with another target would be removed from both', rm)

    # candidate choice
    qn = 'Rewriter.add_src_or_extra'
    fn = nf_func(mod, qn)
    cfg = CFG(fn)
    picks = [st for st in walk_no_nested(fn) if isinstance(st, ast.Assign) and isinstance(st.value, ast.Call) and norm(st.value.func) in ('min', 'max', 'next', 'sorted')
             and st.value.args and isinstance(st.value.args[0], ast.Name)]
    picks = [st for st in picks if any(isinstance(n, ast.Assign) and norm(n.targets[0]) == st.value.args[0].id and isinstance(n.value, ast.SetComp) for n in walk_no_nested(fn))]
    if len(picks) != 1:
        raise Undecided(f'{qn}: {len(picks)} candidate selections')
    pick = picks[0]
    cand = pick.value.args[0].id  # type: ignore[attr-defined]
    defs = [st for st in walk_no_nested(fn) if isinstance(st, ast.Assign) and len(st.targets) == 1 and norm(st.targets[0]) == cand]

    ldefs: T.Dict[str, T.List[ast.Assign]] = {}
    for st in walk_no_nested(fn):
        if isinstance(st, ast.Assign) and len(st.targets) == 1 and isinstance(st.targets[0], ast.Name):
            ldefs.setdefault(st.targets[0].id, []).append(st)

    def mentions(e: ast.AST, depth: int = 0) -> bool:
        for n in ast.walk(e):
            if isinstance(n, ast.Name):
                if n.id == cand:
                    return True
                ds = ldefs.get(n.id, [])
                if depth < 3 and any(mentions(d.value, depth + 1) for d in ds):
                    return True
        return False

    closures = {n.name for n in ast.walk(fn) if isinstance(n, ast.FunctionDef) and n is not fn} | {k for k, ds in ldefs.items() if any(isinstance(d.value, ast.Lambda) for d in ds)}

    def may_hide_guard(e: ast.AST) -> bool:
        """A call of code of this module (method of the class, module function, closure, local lambda) other than the guard itself:
        the guard could be applied inside it, out of this rule's sight."""
        for c in ast.walk(e):
            if not isinstance(c, ast.Call):
                continue
            cn = attr_chain(c.func) or ''
            parts = cn.split('.')
            if parts[-1] == gname:
                continue
            if not cn or (len(parts) == 1 and (parts[0] in closures or mod.has_func(parts[0]))) \
                    or (len(parts) == 2 and parts[0] in ('self', 'cls') and mod.has_func(f'Rewriter.{parts[1]}')):
                return True
        return False

    def classify(v: ast.AST, via: T.List[ast.Assign], depth: int = 0) -> str:
        """guard: only elements that passed the guard; filter: a subset of the candidate set as it was; source: elements from
        somewhere else, unguarded; unknown."""
        if depth > 4:
            return 'unknown'
        if isinstance(v, ast.Name):
            if v.id == cand:
                return 'filter'
            ds = ldefs.get(v.id, [])
            if len(ds) == 1:
                via.append(ds[0])
                k_ = classify(ds[0].value, via, depth + 1)
                if k_ == 'unknown' and isinstance(ds[0].value, ast.Call) and not mentions(ds[0].value) and not may_hide_guard(ds[0].value):
                    return 'source'      # an alias of a set that comes from somewhere else (a foreign call that cannot apply the guard)
                return k_
            return 'unknown'
        if isinstance(v, (ast.SetComp, ast.ListComp, ast.GeneratorExp)) and len(v.generators) == 1 and norm(v.elt) == norm(v.generators[0].target):
            x = norm(v.generators[0].target)
            conds: T.List[ast.AST] = []
            for c in v.generators[0].ifs:
                conds += c.values if isinstance(c, ast.BoolOp) and isinstance(c.op, ast.And) else [c]
            if any(norm(c) == f'self.{gname}({x})' for c in conds):
                return 'guard'
            sub: T.List[ast.Assign] = []
            base = classify(v.generators[0].iter, sub, depth + 1)
            if base in ('filter', 'guard'):
                via.extend(sub)
                return base
            return 'unknown' if mentions(v.generators[0].iter) or may_hide_guard(v.generators[0].iter) else 'source'     # elements taken from somewhere else
        if isinstance(v, ast.Call) and norm(v.func) in ('set', 'list', 'sorted', 'frozenset', 'tuple') and len(v.args) == 1:
            return classify(v.args[0], via, depth + 1)
        if isinstance(v, ast.Call) and isinstance(v.func, ast.Attribute) and v.func.attr in ('copy', 'intersection', 'difference') :
            return classify(v.func.value, via, depth + 1)
        if isinstance(v, ast.BinOp) and isinstance(v.op, (ast.BitAnd, ast.Sub)):
            return classify(v.left, via, depth + 1)
        if isinstance(v, ast.Call) or isinstance(v, (ast.Subscript, ast.Attribute, ast.IfExp, ast.BinOp)):
            return 'unknown'
        return 'source'
    kinds: T.List[T.Tuple[ast.Assign, str, T.List[ast.Assign]]] = []
    for st in defs:
        via: T.List[ast.Assign] = []
        kinds.append((st, classify(st.value, via), via))
    guards = [st for st, k, _ in kinds if k == 'guard']
    gnodes = [n for st in guards for n in cfg.stmt_nodes(st)]
    pnodes = cfg.stmt_nodes(pick)
    other_uses = [c for c in ast.walk(fn) if isinstance(c, ast.Call) and norm(c.func) == f'self.{gname}' and not any(c in list(ast.walk(st)) for st in guards)]
    bad_defs: T.List[ast.AST] = []
    unknown: T.List[ast.AST] = []
    for st, k, via in kinds:
        if k == 'guard':
            continue
        def reaches_choice(sites: T.List[ast.Assign]) -> bool:
            return any(cfg.can_reach(dn, pn, avoid=gnodes) for s_ in sites for dn in cfg.stmt_nodes(s_) for pn in pnodes)
        if k == 'filter':
            # narrows the set as it was: harmless where it stands; a subset computed into a local *before* the guard and
            # assigned afterwards would carry unguarded elements over
            early = [s_ for s_ in via if not (gnodes and all(cfg.dominated_by_any(dn, gnodes) for dn in cfg.stmt_nodes(s_)))]
            if early and reaches_choice(early):
                unknown.append(st)
        elif reaches_choice([st]):
            (bad_defs if k == 'source' else unknown).append(st)
    if bad_defs and not other_uses and not unknown:
        ctx.violation(mod, qn, pick, f'`{short(pick.value)}` can see candidates that did not pass {gname}: `{short(bad_defs[0])}` takes them from elsewhere and reaches the choice '
                      + ('without passing the filter' if guards else f'and no definition of {cand} applies {gname}') + ': a list shared with another target could be extended', pick)
    elif bad_defs or unknown or not guards:
        raise Undecided(f'{qn}: cannot follow how {cand} is built before `{short(pick.value)}` ({short((unknown or bad_defs or [pick])[0])})')
    else:
        ctx.ok(f'{qn}: every candidate reaching `{short(pick.value, 50)}` passed the {gname} filter ({len(defs)} definitions of {cand})')


# ---------------------------------------------------------------------------
# R6: default-options set/delete removes exactly the entries of the addressed key
def _only_anchors(text: str) -> bool:
    """The regex fragment matches the empty string at the start only (^, \\A)."""
    try:
        items = list(rx.parse(text))
    except Undecided:
        return False
    return bool(items) and all(op is rx.sre_c.AT and str(av) in ('AT_BEGINNING', 'AT_BEGINNING_STRING') for op, av in items)


def r6(ctx: RuleCtx) -> None:
    from ..consteval import Opaque
    from ..flow import Flow
    mod = ctx.repo.module(REWRITER)
    qn = 'Rewriter.process_default_options'
    fn = mod.func(qn)
    # -- the removal command: {'function': F, 'operation': OP, 'kwargs': {KW: [<pattern> for x in <keys>]}}
    recs = []
    for d in ast.walk(fn):
        if isinstance(d, ast.Dict):
            rec = {k.value: v for k, v in zip(d.keys, d.values) if isinstance(k, ast.Constant)}
            if {'function', 'operation', 'kwargs'} <= set(rec) and isinstance(rec['kwargs'], ast.Dict):
                recs.append(rec)
    if len(recs) != 1:
        raise Undecided(f'{qn}: {len(recs)} command records')
    rec = recs[0]
    if not all(isinstance(rec[k], ast.Constant) for k in ('function', 'operation')):
        raise Undecided(f'{qn}: function/operation of the removal command are not constants')
    func_c, op_c = rec['function'].value, rec['operation'].value
    kw = {k.value: v for k, v in zip(rec['kwargs'].keys, rec['kwargs'].values) if isinstance(k, ast.Constant)}
    if len(kw) != 1:
        raise Undecided(f'{qn}: removal command addresses {list(kw)}')
    kwname, pats = next(iter(kw.items()))
    if isinstance(pats, ast.Name):      # the list bound to a local first
        pd = [n.value for n in ast.walk(fn) if isinstance(n, ast.Assign) and len(n.targets) == 1 and norm(n.targets[0]) == pats.id]
        if len(pd) == 1:
            pats = pd[0]
    if not (isinstance(pats, ast.ListComp) and len(pats.generators) == 1):
        raise Undecided(f'{qn}: patterns are not [<template> for key in ...]: {short(pats)}')
    var = norm(pats.generators[0].target)
    it_ = pats.generators[0].iter
    fall: T.Dict[str, T.List[ast.AST]] = {}
    for n in ast.walk(fn):
        if isinstance(n, ast.Assign) and len(n.targets) == 1 and isinstance(n.targets[0], ast.Name):
            fall.setdefault(n.targets[0].id, []).append(n.value)
        elif isinstance(n, ast.AnnAssign) and isinstance(n.target, ast.Name) and n.value is not None:
            fall.setdefault(n.target.id, []).append(n.value)
    fdefs = {k: v[0] for k, v in fall.items() if len(v) == 1}
    it_ = _Subst(fdefs).visit(copy.deepcopy(it_))        # `requested = cmd['options']` read through
    cmdp = [a.arg for a in fn.args.args][1]
    if f"{cmdp}['options']" not in norm(it_):
        raise Undecided(f'{qn}: patterns are not built from the requested option keys')
    pieces = fold_str_names(mod, template_parts(pats.elt))       # f-string, concatenation, % or .format alike; named constants folded
    kidx = [i for i, p in enumerate(pieces) if not isinstance(p, ast.Constant) and var in {n.id for n in ast.walk(p) if isinstance(n, ast.Name)}]
    if len(kidx) != 1 or not all(isinstance(p, ast.Constant) and isinstance(p.value, str) for i, p in enumerate(pieces) if i != kidx[0]):
        raise Undecided(f'{qn}: pattern {short(pats.elt)} is not constant + key + constant')
    lead = ''.join(p.value for p in pieces[:kidx[0]])      # type: ignore[attr-defined]
    trail = ''.join(p.value for p in pieces[kidx[0] + 1:])  # type: ignore[attr-defined]
    keyexpr = pieces[kidx[0]]
    self_anchored = bool(lead) and _only_anchors(lead)
    ctx.require(lead == '' or self_anchored, f'{qn}: nothing but a start anchor precedes the key in the pattern ({lead!r} + key + {trail!r})', mod, qn, pats.elt,
                f'the removal pattern is {lead!r} + key + {trail!r}: the text before the key can match characters, so `default-options set debug` / `delete c_std` '
                'also removes entries that merely contain `<key>=` (b_ndebug=..., objc_std=...)', pats.elt)
    try:
        titems = list(rx.parse(trail))
    except Undecided:
        titems = []
    first_lit = chr(titems[0][1]) if titems and titems[0][0] is rx.sre_c.LITERAL else None
    ctx.require(first_lit == '=', f'{qn}: the key is delimited by a literal `=` in the pattern', mod, qn, f'pattern tail {trail!r}',
                f'after the key the pattern continues with {trail!r}, not with a literal `=`: a key that is a prefix of another option name (b_lto / b_lto_mode) removes that one too', pats.elt)
    escaped = isinstance(keyexpr, ast.Call) and norm(keyexpr.func) == 're.escape'
    ctx.note(f'key part of the pattern: {short(keyexpr)} ' + ('(regex-escaped)' if escaped else
             '(NOT regex-escaped; keys are user input, a `.` in a key such as python.install_env matches any character - not decided as a violation)'))

    # -- dispatch: table entry -> modifier class; operation constant -> method called by process_kwargs
    tab = fold_expr(ctx.repo, mod, mod.assign_value('rewriter_func_kwargs'))
    try:
        cls_o = tab[func_c][kwname]
    except (KeyError, TypeError):
        raise Undecided(f'rewriter_func_kwargs[{func_c!r}][{kwname!r}] not found')
    if not (isinstance(cls_o, Opaque) and cls_o.kind == 'class'):
        raise Undecided(f'rewriter_func_kwargs[{func_c!r}][{kwname!r}] is not a class')
    cmod, cdef = cls_o.node
    pk0 = mod.func('Rewriter.process_kwargs')
    pm = mod.parent_map()
    meths: T.Set[str] = set()
    cparam = [a.arg for a in pk0.args.args][1]

    def scan(pk: ast.AST, extra_defs: T.Dict[str, T.List[ast.AST]], extra_renames: T.Dict[str, ast.AST], depth: int = 0) -> None:
        pdefs: T.Dict[str, T.List[ast.AST]] = {}
        for n in ast.walk(pk):
            if isinstance(n, ast.Assign) and len(n.targets) == 1 and isinstance(n.targets[0], ast.Name):
                pdefs.setdefault(n.targets[0].id, []).append(n.value)
            elif isinstance(n, ast.AnnAssign) and isinstance(n.target, ast.Name) and n.value is not None:
                pdefs.setdefault(n.target.id, []).append(n.value)
            elif isinstance(n, ast.Name) and isinstance(n.ctx, ast.Store) and not any(n is getattr(p_, 'target', None) or n in getattr(p_, 'targets', []) for p_ in [pm.get(n)]):
                pdefs.setdefault(n.id, []).extend([ast.Constant(value=None), ast.Constant(value=None)])   # loop / with / unpacking target: not a single definition
        # single-definition locals that only re-name a field of the command (`operation = cmd['operation']`) are read through
        for k_, v_ in extra_defs.items():
            pdefs.setdefault(k_, []).extend(v_)
        renames = {k: v[0] for k, v in pdefs.items() if len(v) == 1 and isinstance(v[0], ast.Subscript) and norm(v[0].value) == cparam}
        renames.update(extra_renames)

        def is_modifier(e: ast.AST) -> bool:
            # <name> = <table>[key](...) with <table> = rewriter_func_kwargs[...]
            if not (isinstance(e, ast.Name) and len(pdefs.get(e.id, [])) == 1):
                return False
            d = pdefs[e.id][0]
            if not (isinstance(d, ast.Call) and isinstance(d.func, ast.Subscript) and isinstance(d.func.value, ast.Name)):
                return False
            t = pdefs.get(d.func.value.id, [])
            return len(t) == 1 and isinstance(t[0], ast.Subscript) and norm(t[0].value) == 'rewriter_func_kwargs'   # index: cmd['function'] or a local for it
        for c in ast.walk(pk):
            if isinstance(c, ast.Call) and isinstance(c.func, ast.Attribute) and len(c.args) == 1 and is_modifier(c.func.value):
                cur: ast.AST = c
                while cur in pm and not isinstance(cur, ast.FunctionDef):
                    par = pm[cur]
                    if isinstance(par, ast.If) and cur in par.body:
                        a, pol = canon(_Subst(renames).visit(copy.deepcopy(par.test)), True)
                        if pol and a.kind == 'cmp' and a.args[0] == 'eq' and f"{cparam}['operation']" in a.args[1:] and repr(op_c) in a.args[1:]:
                            meths.add(c.func.attr)
                        break
                    cur = par
        if not meths:
            # table dispatch: `name = TABLE[cmd['operation']]` (possibly a row unpacked into several names) ... `getattr(modifier, name)(val)`
            for c in ast.walk(pk):
                if not (isinstance(c, ast.Call) and isinstance(c.func, ast.Call) and norm(c.func.func) == 'getattr' and len(c.func.args) == 2
                        and is_modifier(c.func.args[0]) and isinstance(c.func.args[1], ast.Name)):
                    continue
                mname_var = c.func.args[1].id
                for n in ast.walk(pk):
                    if not (isinstance(n, ast.Assign) and len(n.targets) == 1):
                        continue
                    tg = n.targets[0]
                    names_ = [norm(e_) for e_ in tg.elts] if isinstance(tg, (ast.Tuple, ast.List)) else [norm(tg)]
                    if mname_var not in names_:
                        continue
                    v = _Subst(renames).visit(copy.deepcopy(n.value))
                    key_ok = isinstance(v, ast.Subscript) and isinstance(v.value, ast.Name) and norm(v.slice) == f"{cparam}['operation']"
                    if isinstance(v, ast.Call) and isinstance(v.func, ast.Attribute) and v.func.attr == 'get' and isinstance(v.func.value, ast.Name) \
                            and v.args and norm(v.args[0]) == f"{cparam}['operation']":
                        key_ok, v = True, ast.Subscript(value=v.func.value, slice=v.args[0], ctx=ast.Load())
                    if not key_ok or not mod.has_assign(v.value.id):  # type: ignore[attr-defined]
                        continue
                    tabv = fold_expr(ctx.repo, mod, mod.assign_value(v.value.id))  # type: ignore[attr-defined]
                    if isinstance(tabv, dict) and op_c in tabv:
                        row = tabv[op_c]
                        val_ = row[names_.index(mname_var)] if isinstance(tg, (ast.Tuple, ast.List)) else row
                        if isinstance(val_, str):
                            meths.add(val_)
        # the per-key work may be extracted into a method / function that receives the keyword table and the operation: read it there,
        # with its parameters bound to what the caller passes
        if depth < 2:
            for c in ast.walk(pk):
                if not isinstance(c, ast.Call):
                    continue
                cn = (attr_chain(c.func) or '').split('.')
                h: T.Any = None
                is_m = False
                if len(cn) == 2 and cn[0] in ('self', 'cls', 'Rewriter') and mod.has_func(f'Rewriter.{cn[1]}'):
                    h, is_m = mod.func(f'Rewriter.{cn[1]}'), 'staticmethod' not in [norm(d) for d in mod.func(f'Rewriter.{cn[1]}').decorator_list] or cn[0] == 'Rewriter'
                    is_m = 'staticmethod' not in [norm(d) for d in h.decorator_list]
                elif len(cn) == 1 and cn[0] and mod.has_func(cn[0]):
                    h = mod.func(cn[0])
                if not isinstance(h, ast.FunctionDef) or h is pk or h is pk0:
                    continue
                try:
                    bnd = bind_args(c, h, is_m)
                except Exception:
                    continue
                xd: T.Dict[str, T.List[ast.AST]] = {}
                xr: T.Dict[str, ast.AST] = {}
                for prm, arg in bnd.items():
                    arg2 = _Subst(renames).visit(copy.deepcopy(arg))
                    if norm(arg2) == f"{cparam}['operation']":
                        xr[prm] = arg2
                    elif isinstance(arg, ast.Name) and len(pdefs.get(arg.id, [])) == 1 and isinstance(pdefs[arg.id][0], ast.Subscript) \
                            and norm(pdefs[arg.id][0].value) == 'rewriter_func_kwargs':
                        xd[prm] = [pdefs[arg.id][0]]
                if xd and xr:
                    scan(h, xd, xr, depth + 1)

    scan(pk0, {}, {})
    if len(meths) != 1:
        raise Undecided(f'process_kwargs: operation {op_c!r} dispatches to {sorted(meths)}')
    entry = next(iter(meths))

    # -- follow the pattern from <class>.<entry>(regex) to the functions that apply it
    seen: T.Set[str] = set()
    appliers: T.List[T.Tuple[Module, str, ast.FunctionDef, str]] = []   # (module, qualified name, function, pattern parameter)

    def follow(mname: str, pparam_idx: int, depth: int = 0) -> None:
        r = ctx.repo.find_method(cmod, cdef, mname)
        if r is None or depth > 4:
            raise Undecided(f'{cdef.name}.{mname} not found')
        m2, c2, f = r
        q = f'{c2.name}.{mname}'
        if q in seen:
            return
        seen.add(q)
        params = [a.arg for a in f.args.args]
        if params and params[0] in ('self', 'cls') and 'staticmethod' not in [norm(d) for d in f.decorator_list]:
            params = params[1:]
        if pparam_idx >= len(params):
            raise Undecided(f'{q}: pattern parameter not found')
        pp = params[pparam_idx]
        fl = Flow(f)
        if any(isinstance(c, ast.Call) and _re_callee(m2, c).startswith('re.') and c.args and f'param:{pp}' in fl.origins(c.args[0]) for c in ast.walk(f)):
            appliers.append((m2, q, f, pp))
        # the work may be handed to a module-level helper: follow the pattern into it (bound by signature)
        for c in ast.walk(f):
            if isinstance(c, ast.Call) and isinstance(c.func, ast.Name) and m2.has_func(c.func.id) and c.func.id not in seen:
                hfn = m2.func(c.func.id)
                b_ = bind_args(c, T.cast(ast.FunctionDef, hfn), False)
                hit_ = [k_ for k_, a_ in b_.items() if f'param:{pp}' in fl.origins(a_)]
                if len(hit_) == 1:
                    seen.add(c.func.id)
                    hfl = Flow(hfn)
                    if any(isinstance(c2, ast.Call) and _re_callee(m2, c2).startswith('re.') and c2.args and f'param:{hit_[0]}' in hfl.origins(c2.args[0]) for c2 in ast.walk(hfn)):
                        appliers.append((m2, c.func.id, T.cast(ast.FunctionDef, hfn), hit_[0]))
        # callables handed on / called with the pattern
        fparams: T.Dict[str, str] = {}
        for c in ast.walk(f):
            if not isinstance(c, ast.Call):
                continue
            tgt = _self_meth(c.func)
            if tgt is not None and ctx.repo.find_method(cmod, cdef, tgt) is not None:
                # self.helper(<pattern>, self.matcher): pattern flows to helper param i; matcher bound to a callable param
                callee = ctx.repo.find_method(cmod, cdef, tgt)[2]  # type: ignore[index]
                cparams = [a.arg for a in callee.args.args][1:]
                pidx = [i for i, a in enumerate(c.args) if f'param:{pp}' in fl.origins(a)]
                cb = [(i, _self_meth(a)) for i, a in enumerate(c.args) if _self_meth(a) is not None]
                if pidx:
                    for i, cbname in cb:
                        # inside the callee the callable parameter is applied to (element, pattern-derived value)
                        cfl = Flow(callee)
                        for cc in ast.walk(callee):
                            if isinstance(cc, ast.Call) and isinstance(cc.func, ast.Name) and i < len(cparams) and cc.func.id == cparams[i]:
                                hits = [k for k, a in enumerate(cc.args) if f'param:{cparams[pidx[0]]}' in cfl.origins(a)]
                                if len(hits) != 1:
                                    raise Undecided(f'{c2.name}.{tgt}: cannot tell which argument of {cparams[i]}(...) is the pattern')
                                follow(T.cast(str, cbname), hits[0], depth + 1)
                    if not cb:
                        follow(tgt, pidx[0], depth + 1)
        del fparams
    follow(entry, 0)
    ctx.floor('functions applying the default-options removal pattern', len(appliers), 1)
    for m2, q, f, pp in appliers:
        fl = Flow(f)
        for c in ast.walk(f):
            if not (isinstance(c, ast.Call) and _re_callee(m2, c).startswith('re.') and c.args and f'param:{pp}' in fl.origins(c.args[0])):
                continue
            how = _re_callee(m2, c).split('.', 1)[1]
            if how in ('match', 'fullmatch'):
                ok = True
            elif how == 'search':
                ok = self_anchored
            else:
                raise Undecided(f'{q}: pattern applied with re.{how}')
            ctx.require(ok, f'{q}: `{short(c)}` anchors the pattern {lead!r}+key+{trail!r} at the start of the entry', m2, q, c,
                        f'`{short(c)}` applies the pattern {lead!r} + key + {trail!r} of process_default_options unanchored: `default-options set debug ...` / `delete c_std` '
                        'also removes entries that merely contain `<key>=` (b_ndebug=..., objc_std=...)', c)


def _re_callee(m: Module, c: ast.Call) -> str:
    """Dotted name of the function a call applies; a module-level `N = functools.partial(f)` / `N = f` alias is read through."""
    cn = attr_chain(c.func) or ''
    if isinstance(c.func, ast.Name) and m.has_assign(c.func.id):
        d = m.assign_value(c.func.id)
        if isinstance(d, ast.Call) and (attr_chain(d.func) or '').split('.')[-1] == 'partial' and len(d.args) == 1 and not d.keywords:
            return attr_chain(d.args[0]) or ''
        if isinstance(d, ast.Attribute):
            return attr_chain(d) or ''
    return cn


def _self_meth(e: ast.AST) -> T.Optional[str]:
    if isinstance(e, ast.Attribute) and isinstance(e.value, ast.Name) and e.value.id in ('self', 'cls'):
        return e.attr
    return None


# ---------------------------------------------------------------------------
# R7: the work lists apply_changes consumes are reset before it runs again (typestate K4 + sibling agreement K8)
def _work_lists(mod: Module) -> T.List[str]:
    """Attributes of Rewriter that __init__ creates as empty lists and apply_changes reads."""
    init = mod.func('Rewriter.__init__')
    ac = mod.func('Rewriter.apply_changes')
    def empty_list(v: T.Optional[ast.AST]) -> bool:
        return (isinstance(v, ast.List) and not v.elts) or (isinstance(v, ast.Call) and norm(v.func) == 'list' and not v.args and not v.keywords)
    created = {attr_chain(n.targets[0]).split('.', 1)[1] for n in walk_no_nested(init)  # type: ignore[union-attr]
               if isinstance(n, ast.Assign) and len(n.targets) == 1 and (attr_chain(n.targets[0]) or '').startswith('self.')
               and (attr_chain(n.targets[0]) or '').count('.') == 1 and empty_list(n.value)}
    created |= {attr_chain(n.target).split('.', 1)[1] for n in walk_no_nested(init)  # type: ignore[union-attr]
                if isinstance(n, ast.AnnAssign) and (attr_chain(n.target) or '').startswith('self.') and (attr_chain(n.target) or '').count('.') == 1
                and empty_list(n.value)}
    read = {n.attr for n in ast.walk(ac) if isinstance(n, ast.Attribute) and isinstance(n.value, ast.Name) and n.value.id == 'self' and isinstance(n.ctx, ast.Load)}
    return sorted(created & read)


def _reset_of(st: ast.AST, recv: str, lists: T.Iterable[str]) -> T.Optional[str]:
    """`<recv>.<list> = []` / `= list()` / `<recv>.<list>.clear()` / `del <recv>.<list>[:]` -> list name."""
    for a in lists:
        chain = f'{recv}.{a}'
        if isinstance(st, (ast.Assign, ast.AnnAssign)):
            tg = st.targets if isinstance(st, ast.Assign) else [st.target]
            v = st.value
            empty = isinstance(v, ast.List) and not v.elts or (isinstance(v, ast.Call) and norm(v.func) == 'list' and not v.args)
            if empty and any(attr_chain(t) == chain for t in tg):
                return a
        if isinstance(st, ast.Expr) and isinstance(st.value, ast.Call) and norm(st.value.func) == f'{chain}.clear' and not st.value.args:
            return a
        if isinstance(st, ast.Delete) and any(isinstance(t, ast.Subscript) and attr_chain(t.value) == chain and isinstance(t.slice, ast.Slice)
                                              and t.slice.lower is None and t.slice.upper is None for t in st.targets):
            return a
    return None


def _method_empties(mod: Module, mname: str, lst: str) -> bool:
    f = mod.func(f'Rewriter.{mname}')
    c = CFG(f)
    rs = [n for n in c.nodes if n.kind == 'stmt' and _reset_of(n.ast, 'self', [lst])]
    return bool(rs) and not c.can_reach(c.entry, c.exit_return, avoid=rs)


def r7(ctx: RuleCtx) -> None:
    mod = ctx.repo.module(REWRITER)
    lists = _work_lists(mod)
    ctx.floor('work lists created in Rewriter.__init__ and consumed by apply_changes', len(lists), 3)
    ctx.note('work lists: ' + ', '.join(lists))
    # does the consumer empty its own lists on every way out?  (then nobody else has to)
    ac = mod.func('Rewriter.apply_changes')
    acfg = CFG(ac)
    self_resetting = set()
    for a in lists:
        rs = [n for n in acfg.nodes if n.kind == 'stmt' and _reset_of(n.ast, 'self', [a])]
        if rs and not acfg.can_reach(acfg.entry, acfg.exit_return, avoid=rs):
            self_resetting.add(a)
    rels = [REWRITER]
    if ctx.thorough:
        rels = [r for r in ctx.repo.py_files('mesonbuild') if 'apply_changes' in ctx.repo.read(r)]
    n_calls = 0
    for rel in rels:
        m = ctx.repo.module(rel)
        for qn, fn in m.funcs().items():
            calls = [c for c in walk_no_nested(fn) if isinstance(c, ast.Call) and isinstance(c.func, ast.Attribute) and c.func.attr == 'apply_changes'
                     and isinstance(c.func.value, ast.Name)]
            resets_any: T.List[T.Tuple[ast.AST, str]] = []
            if not qn.endswith('.__init__'):
                for st in walk_no_nested(fn):
                    chains = {c_ for n_ in ast.walk(st) if isinstance(n_, ast.Attribute) for c_ in [attr_chain(n_)] if c_ and c_.rsplit('.', 1)[-1] in lists}
                    for ch in chains:
                        rv = ch.rsplit('.', 1)[0]
                        if isinstance(st, (ast.Assign, ast.AnnAssign, ast.Expr, ast.Delete)) and _reset_of(st, rv, lists):
                            resets_any.append((st, rv))
            if not calls and not resets_any:
                continue
            cfg = CFG(fn)
            for c in calls:
                recv = c.func.value.id  # type: ignore[attr-defined]
                cn = cfg.node_containing(c)
                if not cn:
                    continue
                n_calls += 1
                again = [x for c2 in calls if c2.func.value.id == recv for x in cfg.node_containing(c2)]  # type: ignore[attr-defined]
                repeats = any(cfg.can_reach(a_, b_) for a_ in cn for b_ in again)
                if not repeats:
                    ctx.ok(f'{qn}: `{short(c)}` runs at most once per {recv}: nothing to reset')
                    continue
                for a in lists:
                    if a in self_resetting:
                        ctx.ok(f'{qn}: apply_changes empties {a} itself')
                        continue
                    rs = [n for n in cfg.nodes if n.kind == 'stmt' and _reset_of(n.ast, recv, [a])]
                    # a method of the class called on the same object that empties the list on every way out counts too
                    for n in cfg.nodes:
                        e_ = n.expr()
                        if e_ is None:
                            continue
                        for c_ in walk_no_nested(e_):
                            if isinstance(c_, ast.Call) and isinstance(c_.func, ast.Attribute) and norm(c_.func.value) == recv \
                                    and c_.func.attr != 'apply_changes' and mod.has_func(f'Rewriter.{c_.func.attr}') and _method_empties(mod, c_.func.attr, a):
                                rs.append(n)
                    leak = any(cfg.can_reach(a_, b_, avoid=rs) for a_ in cn for b_ in again)
                    ctx.require(not leak, f'{qn}: every way from `{short(c)}` to the next one empties {recv}.{a} ({len(rs)} reset(s))', m, qn,
                                f'{recv}.{a} between two apply_changes()',
                                f'`{short(c)}` can run again without {recv}.{a} having been emptied: the nodes queued by an earlier command are '
                                + ('appended to the file again' if 'add' in a else 'spliced again at offsets of a text that has changed in between')
                                + ' by every later command of the same invocation', c)
            # sibling agreement: a block that empties one of the work lists of an object empties all of them
            by_recv: T.Dict[str, T.Set[str]] = {}
            for st, r in resets_any:
                by_recv.setdefault(r, set()).add(T.cast(str, _reset_of(st, r, lists)))
            for r, got in by_recv.items():
                missing = [a for a in lists if a not in got and a not in self_resetting]
                ctx.require(not missing, f'{qn}: empties all work lists of {r} ({", ".join(sorted(got))})', m, qn, f'work lists of {r} emptied together',
                            f'{qn} empties {sorted(got)} of {r} but not {missing}: apply_changes consumes them together, a stale {(missing or ["?"])[0]} is applied again', resets_any[0][0])
    ctx.floor('apply_changes call sites', n_calls, 1)


# ---------------------------------------------------------------------------
# R3 additions: text appended after the last line, and forward scans over the buffer
def r3_append_and_scan(ctx: RuleCtx, mod: Module, fn: ast.FunctionDef, loop: ast.For, sp: ast.FunctionDef, sp_q: str, term: T.Set[str],
                       calls_splicer: T.Callable[[ast.AST], bool]) -> None:
    # (e) entries that are not spliced by position are appended to the buffer: the buffer must be known to end with a line terminator first
    F_text = _splice_field(sp)
    appends = [st for st in ast.walk(loop) if (isinstance(st, ast.AugAssign) and isinstance(st.op, ast.Add) and isinstance(st.target, ast.Attribute) and st.target.attr == F_text)
               or (_is_text_store(st, F_text) and not any(isinstance(x, ast.Slice) for x in ast.walk(st.value)))]  # type: ignore[attr-defined]
    for st in appends:
        arm = next((n for n in ast.walk(loop) if isinstance(n, ast.If) and (st in n.body or st in n.orelse)), None)
        region: T.List[ast.stmt] = list(arm.body if arm is not None and st in arm.body else (arm.orelse if arm is not None else loop.body))
        unknown = [c for r_ in region for c in ast.walk(r_) if isinstance(c, ast.Call) and (attr_chain(c.func) or '').split('.')[-1] not in PURE_CALLS | {'endswith', 'cast'}
                   and not (attr_chain(c.func) or '').startswith(('T.', 'mlog.'))]
        checks = [c for r_ in region for c in ast.walk(r_) if isinstance(c, ast.Call) and isinstance(c.func, ast.Attribute) and c.func.attr == 'endswith'
                  and c.args and isinstance(c.args[0], ast.Constant) and c.args[0].value in term]
        lead = template_parts(st.value)
        starts_with_term = bool(lead) and isinstance(lead[0], ast.Constant) and isinstance(lead[0].value, str) and lead[0].value[:1] in term
        if checks or starts_with_term:
            ctx.ok(f'Rewriter.apply_changes: `{short(st, 70)}` appends after the buffer is known to end with a line terminator')
        elif unknown:
            raise Undecided(f'apply_changes: `{short(st)}` appends to the buffer next to `{short(unknown[0])}`, which the rule cannot read')
        else:
            ctx.violation(mod, 'Rewriter.apply_changes', st, f'`{short(st)}` appends the new statements right behind the last character of the file without making sure the file '
                          f'ends with {sorted(term)!r}: a build file without a final newline gets the new text glued onto its last statement and no longer parses', st)
    # (f) forward scans `while buf[i] ...: i += 1` need a bound
    for w in [n for n in ast.walk(sp) if isinstance(n, ast.While)]:
        subs = [x for x in ast.walk(w.test) if isinstance(x, ast.Subscript) and isinstance(x.slice, ast.Name)]
        for sb in subs:
            idx = sb.slice.id  # type: ignore[attr-defined]
            grows = any(isinstance(b_, ast.AugAssign) and norm(b_.target) == idx and isinstance(b_.op, ast.Add) for b_ in ast.walk(w))
            if not grows:
                continue
            # only scans that go on *while the character matches* (skip blanks ...) can run off the end on valid input; a search
            # `while buf[i] != c` relies on c being there, which is not judged
            cont = [c for c in ast.walk(w.test) if isinstance(c, ast.Compare) and c.left is sb and len(c.ops) == 1 and isinstance(c.ops[0], (ast.In, ast.Eq))]
            if not cont:
                continue
            bounded = any(isinstance(c, ast.Compare) and len(c.ops) == 1 and (
                (isinstance(c.ops[0], ast.Lt) and norm(c.left) == idx and norm(c.comparators[0]) == f'len({norm(sb.value)})') or
                (isinstance(c.ops[0], ast.Gt) and norm(c.comparators[0]) == idx and norm(c.left) == f'len({norm(sb.value)})')) for c in ast.walk(w.test))
            # keyed on the anchored entry point, so that moving the splicing code does not change the finding key
            ctx.require(bounded, f'{sp_q}: the scan `while {short(w.test, 50)}` stops at the end of the buffer', mod, 'Rewriter.apply_changes', w.test,
                        f'`while {short(w.test)}: {idx} += 1` walks forward over the text with no `{idx} < len(...)` bound: when the statement that is removed is the last thing in '
                        'the file (no trailing newline) the scan runs off the end and the command dies with IndexError', w)


# ---------------------------------------------------------------------------
# R8: synthesised values are linked to every operand in the dataflow DAG
def r8(ctx: RuleCtx) -> None:
    from . import c17_ladder as LD
    rel = 'mesonbuild/ast/interpreter.py'
    mod = ctx.repo.module(rel)
    pm = ctx.repo.module(MPARSER)
    classes = LD.node_classes(pm)
    # built-in positive example
    demo = ast.parse("def f(self, a, b):\n    n = mparser.ArithmeticNode(operation='+', left=a, operator=s, right=b)\n    self.dataflow_dag.add_edge(b, n)\n").body[0]
    if _unlinked_operands(ctx, pm, classes, T.cast(ast.FunctionDef, demo)) != [('n', 'left', 'a')]:
        raise Undecided('self-check of the DAG linkage detector failed')
    n = 0
    for qn, fn in mod.funcs().items():
        if not isinstance(fn, ast.FunctionDef) or not any(isinstance(c, ast.Call) and (attr_chain(c.func) or '').endswith('add_edge') for c in ast.walk(fn)):
            continue
        res = _unlinked_operands(ctx, pm, classes, fn, count=True)
        for item in res:
            if item[0] == '#':
                n += T.cast(int, item[1])
                ctx.ok(f'{qn}: {item[1]} synthesised node(s) linked to every operand on every path')
            else:
                name, attr, op = item
                ctx.violation(mod, qn, f'{name}.{attr} = {op}', f'`{name}` is built with {attr}={op} and put into the dataflow graph, but on some path no edge {op} -> {name} is '
                              f'added: the rewriter no longer sees that {op} flows into the variable (affects_no_other_targets undercounts, a shared list is edited)', fn)
                n += 1
    ctx.floor('synthesised operator nodes registered in the dataflow graph', n, 1)


def _unlinked_operands(ctx: RuleCtx, pm: Module, classes: T.Dict[str, T.List[str]], fn: ast.FunctionDef, count: bool = False) -> T.List[T.Any]:
    from . import c17_ladder as LD
    out: T.List[T.Any] = []
    judged = 0
    seen: T.Set[T.Tuple[str, str, str]] = set()
    for p in enumerate_paths(fn.body, unroll=0):
        built: T.Dict[str, T.Dict[str, str]] = {}
        edges: T.Set[T.Tuple[str, str]] = set()
        handed: T.Set[str] = set()
        for st in p.stmts():
            if isinstance(st, ast.Assign) and len(st.targets) == 1 and isinstance(st.targets[0], ast.Name) and isinstance(st.value, ast.Call):
                cn = (attr_chain(st.value.func) or '').split('.')[-1]
                if cn in classes and cn in ('ArithmeticNode', 'OrNode', 'AndNode', 'ComparisonNode', 'NotNode', 'UMinusNode', 'TernaryNode', 'IndexNode', 'MethodNode'):
                    params, amap = LD.init_map(ctx.repo, pm, cn)
                    bound = {params[i]: a for i, a in enumerate(st.value.args) if i < len(params)}
                    bound.update({k.arg: k.value for k in st.value.keywords if k.arg})
                    ops = {amap[p_]: norm(a) for p_, a in bound.items() if p_ in amap and amap[p_] in ('left', 'right', 'value', 'condition', 'trueblock', 'falseblock', 'iobject', 'source_object')}
                    built[st.targets[0].id] = ops
                    continue
            for c in ast.walk(st):
                if isinstance(c, ast.Call) and (attr_chain(c.func) or '').endswith('add_edge') and len(c.args) == 2:
                    edges.add((norm(c.args[0]), norm(c.args[1])))
                elif isinstance(c, ast.Call) and not (attr_chain(c.func) or '').endswith(('add_edge', 'append', 'copy')):
                    handed |= {a.id for a in c.args if isinstance(a, ast.Name)}
        for name, ops in built.items():
            if not any(t == name for _, t in edges):
                continue       # not registered in the graph on this path (or registered elsewhere): not judged
            if name in handed:
                raise Undecided(f'{fn.name}: `{name}` is handed to another function that may link it')
            judged += 1
            for attr, op in ops.items():
                if (op, name) not in edges and (name, attr, op) not in seen:
                    seen.add((name, attr, op))
                    out.append((name, attr, op))
    if count and not out and judged:
        out.append(('#', len({1})))
    return out


# ---------------------------------------------------------------------------
# R9: a requested keyword value given as text is not turned into a boolean by truthiness
def r9(ctx: RuleCtx) -> None:
    mod = ctx.repo.module(REWRITER)
    demo = ast.parse("def new_node(cls, value: T.Optional[str] = None):\n    return BooleanNode(Token('', '', 0, 0, 0, None, bool(value)))\n").body[0]
    if len(_truthiness_of_text(T.cast(ast.FunctionDef, demo))) != 1:
        raise Undecided('self-check of the truthiness detector failed')
    n = 0
    for qn, fn in mod.funcs().items():
        if not isinstance(fn, ast.FunctionDef) or not any(isinstance(c, ast.Call) and norm(c.func) == 'bool' for c in ast.walk(fn)):
            continue
        if not any(isinstance(c, ast.Call) and (attr_chain(c.func) or '').split('.')[-1] == 'BooleanNode' for c in ast.walk(fn)):
            continue
        n += 1
        cname = qn.split('.')[0] if '.' in qn and mod.has_cls(qn.split('.')[0]) else None
        fenv: T.Dict[str, T.Any] = {}
        if cname is not None:
            from ..consteval import Opaque
            fenv = {x: Opaque('class', cname, (mod, mod.cls(cname))) for x in ('cls', 'self', cname)}
        bad = _truthiness_of_text(fn, lambda e, _c=cname, _e=fenv: fold_expr(ctx.repo, mod, e, cls=_c, env=_e))
        ctx.require(not bad, f'{qn}: no text value reaches bool() on its way into a BooleanNode', mod, qn, bad[0] if bad else fn,
                    f'`{short(bad[0]) if bad else ""}` takes the truthiness of a value declared as text: `kwargs set <fn> <id> install false` (the command line delivers the text '
                    "'false') stores `install : true` - every non-empty text is true", bad[0] if bad else None)
    ctx.floor('BooleanNode constructions from a requested value', n, 1)


_STR_TO_STR = {'lower', 'upper', 'strip', 'lstrip', 'rstrip', 'casefold', 'title', 'capitalize', 'swapcase', 'replace', 'format', 'removeprefix',
               'removesuffix', 'translate', 'expandtabs', 'center', 'ljust', 'rjust', 'zfill', 'join'}
_NOT_TEXT_BUILTINS = {'bool', 'int', 'float', 'len', 'isinstance', 'hash', 'ord', 'any', 'all'}
_STR_PREDICATES = {'startswith', 'endswith', 'isdigit', 'isalpha', 'isalnum', 'isspace', 'islower', 'isupper', 'isidentifier', 'isnumeric', 'isdecimal',
                   'find', 'rfind', 'index', 'rindex', 'count'}


def _truthiness_of_text(fn: ast.FunctionDef, folder: T.Optional[T.Callable[[ast.AST], T.Any]] = None) -> T.List[ast.Call]:
    """bool(<expression>) reached on a path where the expression can still be (derived text of) a parameter annotated as str.
    Every local is classified along the path: 'text' (the parameter, a str method / slice / str() of text, a text constant, an entry of
    a constant table with text values), 'other' (comparison, not, a bool/None/number constant, an entry of a constant table without text
    values, int()/len()/bool()..., anything that does not depend on a text value), 'unknown' (depends on a text value in a way that is not read:
    bool() of it ends Undecided)."""
    textual = {a.arg for a in fn.args.args + fn.args.kwonlyargs if a.annotation is not None and 'str' in {n.id for n in ast.walk(a.annotation) if isinstance(n, ast.Name)}}
    out: T.List[ast.Call] = []

    def join(cs: T.Iterable[str]) -> str:
        cs = list(cs)
        return 'text' if 'text' in cs else 'unknown' if 'unknown' in cs else 'other'

    def table(e: ast.AST) -> T.Optional[str]:
        """class of the values of a constant dict (None: not a constant dict)"""
        tab: T.Any = None
        if isinstance(e, ast.Dict) and all(k is not None for k in e.keys):
            return join(classify(v, {}) for v in e.values)
        if folder is not None and isinstance(e, (ast.Name, ast.Attribute)):
            try:
                tab = folder(e)
            except Undecided:
                tab = None
        if isinstance(tab, dict):
            return 'text' if any(isinstance(v, str) for v in tab.values()) else 'other' if all(v is None or isinstance(v, (bool, int, float)) for v in tab.values()) else 'unknown'
        return None

    def classify(e: ast.AST, env: T.Dict[str, str]) -> str:
        if isinstance(e, ast.Constant):
            return 'text' if isinstance(e.value, str) else 'other'
        if isinstance(e, ast.JoinedStr):
            return 'text'
        if isinstance(e, ast.Name):
            return env.get(e.id, 'other')
        if isinstance(e, (ast.Compare,)) or (isinstance(e, ast.UnaryOp) and isinstance(e.op, ast.Not)):
            return 'other'
        if isinstance(e, ast.BoolOp):
            return join(classify(v, env) for v in e.values)
        if isinstance(e, ast.IfExp):
            return join([classify(e.body, env), classify(e.orelse, env)])
        if isinstance(e, ast.NamedExpr):
            return classify(e.value, env)
        tainted = any(isinstance(n, ast.Name) and env.get(n.id) in ('text', 'unknown') for n in ast.walk(e))
        if isinstance(e, ast.Call):
            fname = norm(e.func)
            if fname in _NOT_TEXT_BUILTINS:
                return 'other'
            if fname == 'str' and len(e.args) == 1:
                return 'text' if tainted else 'other'
            if isinstance(e.func, ast.Attribute):
                recv = e.func.value
                if e.func.attr == 'get' and 1 <= len(e.args) <= 2:
                    t = table(recv)
                    if t is not None:
                        return join([t] + [classify(a, env) for a in e.args[1:]])
                if e.func.attr in _STR_TO_STR and classify(recv, env) == 'text':
                    return 'text'
                if e.func.attr in _STR_PREDICATES and classify(recv, env) == 'text':
                    return 'other'
            return 'unknown' if tainted else 'other'
        if isinstance(e, ast.Subscript):
            t = table(e.value)
            if t is not None:
                return t
            if classify(e.value, env) == 'text':
                return 'text'
            return 'unknown' if tainted else 'other'
        if isinstance(e, ast.BinOp) and isinstance(e.op, (ast.Add, ast.Mod, ast.Mult)) and 'text' in (classify(e.left, env), classify(e.right, env)):
            return 'text'
        return 'unknown' if tainted else 'other'

    for p in enumerate_paths(fn.body, unroll=0):
        not_text = {k[len('isinstance('):].split(',')[0] for k, v in p.conds() if k.startswith('isinstance(') and k.rstrip(')').endswith(', str') and not v}
        env: T.Dict[str, str] = {v: ('other' if v in not_text else 'text') for v in textual}
        for ev in p.events:
            if ev.kind != 'stmt' or ev.node is None:
                continue
            for c in ast.walk(ev.node):
                if isinstance(c, ast.Call) and norm(c.func) == 'bool' and len(c.args) == 1:
                    k = classify(c.args[0], env)
                    if k == 'unknown':
                        raise Undecided(f'{fn.name}: `{short(c)}` takes the truthiness of a value derived from a text parameter in a way that is not read')
                    if k == 'text' and not any(c is x for x in out):
                        out.append(c)
            st = ev.node
            if isinstance(st, ast.Assign) and all(isinstance(t, ast.Name) for t in st.targets):
                k = classify(st.value, env)
                for t in st.targets:
                    env[T.cast(ast.Name, t).id] = k
            elif isinstance(st, ast.AnnAssign) and isinstance(st.target, ast.Name) and st.value is not None:
                env[st.target.id] = classify(st.value, env)
            else:
                tainted = any(isinstance(n, ast.Name) and isinstance(n.ctx, ast.Load) and env.get(n.id) in ('text', 'unknown') for n in ast.walk(st))
                for n in ast.walk(st):
                    if isinstance(n, ast.Name) and isinstance(n.ctx, (ast.Store, ast.Del)):
                        env[n.id] = 'unknown' if tainted else 'other'
    return out


# ---------------------------------------------------------------------------
# R10: a list is not changed while a loop walks over it
MUTATING = {'remove', 'pop', 'insert', 'append', 'extend', 'clear', 'sort', 'reverse'}


def _mutated_while_iterated(fn: ast.AST) -> T.List[T.Tuple[ast.For, ast.AST]]:
    out: T.List[T.Tuple[ast.For, ast.AST]] = []
    for loop in ast.walk(fn):
        if not isinstance(loop, ast.For):
            continue
        it = loop.iter
        chain = attr_chain(it)
        if chain is None:
            continue          # a copy (list(x), x[:], sorted(x)), a call or a display is safe to walk
        aliases = {chain}
        for st in loop.body:
            for n in ast.walk(st):
                if isinstance(n, ast.Call) and isinstance(n.func, ast.Attribute) and n.func.attr in MUTATING and attr_chain(n.func.value) in aliases:
                    # `x.remove(i)` followed by break/return in the same block is the search-and-remove idiom: the walk ends there
                    ends = False
                    for par_ in ast.walk(loop):
                        for f_ in ('body', 'orelse'):
                            blk = getattr(par_, f_, None)
                            if isinstance(blk, list):
                                pos = [i for i, s_ in enumerate(blk) if isinstance(s_, ast.stmt) and any(x is n for x in ast.walk(s_))
                                       and not isinstance(s_, (ast.If, ast.For, ast.While, ast.With, ast.Try))]
                                if pos and any(isinstance(s_, (ast.Break, ast.Return, ast.Raise)) for s_ in blk[pos[0]:pos[0] + 3]):
                                    ends = True
                    if not ends:
                        out.append((loop, n))
                elif isinstance(n, ast.Delete) and any(isinstance(t, ast.Subscript) and attr_chain(t.value) in aliases for t in n.targets):
                    out.append((loop, n))
    return out


def r10(ctx: RuleCtx) -> None:
    demo = ast.parse("def f(self, xs):\n    for i in self.node.args.arguments:\n        if bad(i):\n            self.node.args.arguments.remove(i)\n").body[0]
    if len(_mutated_while_iterated(demo)) != 1:
        raise Undecided('self-check of the mutate-while-iterating detector failed')
    n = 0
    for rel in (REWRITER, 'mesonbuild/ast/interpreter.py', 'mesonbuild/ast/introspection.py'):
        mod = ctx.repo.module(rel)
        for qn, fn in mod.funcs().items():
            if not isinstance(fn, ast.FunctionDef):
                continue
            loops = [l for l in walk_no_nested(fn) if isinstance(l, ast.For) and attr_chain(l.iter) is not None]
            if not loops:
                continue
            n += len(loops)
            inner = ast.Module(body=[s_ for s_ in fn.body], type_ignores=[])
            bad = [(l, c) for l, c in _mutated_while_iterated(inner) if l in loops]
            for l, c in bad:
                ctx.violation(mod, qn, c, f'`{short(c)}` changes `{norm(l.iter)}` inside `for {norm(l.target)} in {norm(l.iter)}`: after a removal the walk skips the next element '
                              '(two adjacent matches: only the first is handled), after an insertion it sees elements twice', c)
            if not bad:
                ctx.ok(f'{qn}: {len(loops)} loop(s) over a named list, none changes the list it walks', nontrivial=False)
    ctx.floor('loops over named lists in the rewriter and the AST interpreter', n, 10)


# ---------------------------------------------------------------------------
# R11: keyword type table of the rewriter vs the keyword declarations of the interpreter (list-ness)
def r11(ctx: RuleCtx) -> None:
    from ..consteval import Opaque
    mod = ctx.repo.module(REWRITER)
    imod = ctx.repo.module('mesonbuild/interpreter/interpreter.py')
    tab = fold_expr(ctx.repo, mod, mod.assign_value('rewriter_func_kwargs'))
    if not isinstance(tab, dict):
        raise Undecided('rewriter_func_kwargs does not fold to a dict')
    n = 0
    for fname, kws in sorted(tab.items()):
        decl: T.Dict[str, ast.Call] = {}
        for q, f in imod.funcs().items():
            for d in getattr(f, 'decorator_list', []):
                if isinstance(d, ast.Call) and (attr_chain(d.func) or '').split('.')[-1] == 'typed_kwargs' and d.args \
                        and isinstance(d.args[0], ast.Constant) and d.args[0].value == fname:
                    for a in d.args[1:]:
                        if isinstance(a, ast.Call) and (attr_chain(a.func) or '').split('.')[-1] == 'KwargInfo' and len(a.args) >= 2 and isinstance(a.args[0], ast.Constant):
                            decl[a.args[0].value] = a
        for key, cls_o in sorted(kws.items()):
            if key not in decl or not (isinstance(cls_o, Opaque) and cls_o.kind == 'class'):
                continue         # declared through a shared constant or elsewhere: not compared
            cmod, cdef = cls_o.node
            is_list_mod = any(c.name == 'MTypeList' for _, c in ctx.repo.mro(cmod, cdef))
            types = decl[key].args[1]
            declared_list = any(isinstance(x, ast.Call) and (attr_chain(x.func) or '').split('.')[-1] == 'ContainerTypeInfo' and x.args and norm(x.args[0]) == 'list'
                                for x in ast.walk(types))
            n += 1
            ctx.require(is_list_mod == declared_list, f'{fname}({key}): modifier {cdef.name} and declared type {short(types, 50)} agree on being a list', mod, '<module>',
                        f"rewriter_func_kwargs[{fname!r}][{key!r}] = {cdef.name}",
                        f'{fname}() declares `{key}` as {short(types, 60)} but the rewriter edits it with {cdef.name}: '
                        + ('an existing list value is "too complex to modify" and a list given to `set` is written as one string' if declared_list
                           else 'a single value is wrapped into / edited as a list'), decl[key])
    ctx.floor('keyword types compared with the interpreter declarations', n, 3)
