"""C06 helper: name registries filled in directory-listing order (R6).

A table `T` that maps names to providers and is filled while iterating a directory listing (directly, or through a dict that was
itself filled in listing order) is independent of the listing order only if a name that is already registered is an error.  A
guarded store `if k not in T: T[k] = v` whose complementary path (k already in T) neither raises nor is excluded by a flag the
caller binds to a constant lets the first (or last) registration win: which provider survives depends on readdir order.

Read structurally: listing-derived names (def-use, one function), registry attributes (keyed store inside a listing loop), loops over
those, `self.m(...)` calls followed with constant flag binding, and the decision paths of the statements between the membership test
and the store (sa.paths).  Anything else on a tolerated-collision path is Undecided.
"""
from __future__ import annotations

import ast
import re
import typing as T

from ..core import Module, Undecided, attr_chain, norm, short, walk_no_nested
from ..report import RuleCtx
from .. import paths as pathsmod
from .c06_order import unordered_source

FuncNode = T.Union[ast.FunctionDef, ast.AsyncFunctionDef]
_LISTING_TEXT = re.compile(r'iterdir\(|listdir|scandir|i?glob\(|os\.walk')
UNKNOWN = object()
MAX_DEPTH = 3


def _is_listing(e: ast.AST) -> bool:
    for n in ast.walk(e):
        if isinstance(n, ast.Call):
            s = unordered_source(n)
            if s is not None and 'directory-listing' in s:
                return True
    return False


def _sorted_wrapped(e: ast.AST) -> bool:
    return isinstance(e, ast.Call) and isinstance(e.func, ast.Name) and e.func.id == 'sorted'


def _names(t: ast.AST) -> T.Set[str]:
    return {n.id for n in ast.walk(t) if isinstance(n, ast.Name)}


def _carries(val: ast.AST, out: T.Set[str]) -> bool:
    """val is a listing-ordered local, an element / slice of one (the tuple os.walk yields), a display of those, or a
    comprehension / list() / filter() over one."""
    if isinstance(val, ast.Name):
        return val.id in out
    if isinstance(val, ast.Subscript):
        return _carries(val.value, out)
    if isinstance(val, (ast.Tuple, ast.List)):
        return any(_carries(x, out) for x in val.elts)
    if isinstance(val, (ast.ListComp, ast.GeneratorExp)):
        return any(_carries(g.iter, out) for g in val.generators)
    if isinstance(val, ast.Call) and isinstance(val.func, ast.Name) and val.func.id in ('list', 'tuple', 'filter', 'reversed', 'iter', 'next'):
        return any(_carries(a, out) for a in val.args)
    return False


def listing_names(fn: FuncNode) -> T.Set[str]:
    """Locals whose element order is that of a directory listing (assigned / unpacked / looped from a listing call, or derived from
    such a local by a comprehension / list() / filter()); sorted(...) ends the derivation, an in-place .sort() removes the name."""
    out: T.Set[str] = set()
    nodes = [n for st in fn.body for n in walk_no_nested(st)]
    for _ in range(3):
        before = len(out)
        for n in nodes:
            val: T.Optional[ast.AST] = None
            tgts: T.List[ast.AST] = []
            if isinstance(n, ast.Assign):
                val, tgts = n.value, list(n.targets)
            elif isinstance(n, ast.AnnAssign) and n.value is not None:
                val, tgts = n.value, [n.target]
            elif isinstance(n, (ast.For, ast.AsyncFor)) and _is_listing(n.iter) and not _sorted_wrapped(n.iter):
                # `for root, dirs, files in os.walk(..)`: the unpacked lists are in listing order
                if isinstance(n.target, (ast.Tuple, ast.List)):
                    out |= _names(n.target)
                continue
            if val is None or _sorted_wrapped(val):
                continue
            derived = _is_listing(val) or _carries(val, out)
            if derived:
                for t in tgts:
                    out |= _names(t) if isinstance(t, (ast.Name, ast.Tuple, ast.List)) else set()
        if len(out) == before:
            break
    for n in nodes:
        if isinstance(n, ast.Call) and isinstance(n.func, ast.Attribute) and n.func.attr == 'sort' and isinstance(n.func.value, ast.Name):
            out.discard(n.func.value.id)
    return out


def _loop_in_listing_order(loop: T.Union[ast.For, ast.AsyncFor], lnames: T.Set[str], registries: T.Set[str]) -> T.Optional[str]:
    it = loop.iter
    if _sorted_wrapped(it):
        return None
    if _is_listing(it):
        return f'`{short(it, 40)}` is a directory listing'
    if isinstance(it, ast.Name) and it.id in lnames:
        return f'`{it.id}` holds a directory listing'
    base = it
    if isinstance(it, ast.Call) and isinstance(it.func, ast.Attribute) and it.func.attr in ('values', 'items', 'keys') and not it.args:
        base = it.func.value
    c = attr_chain(base)
    if c and c in registries:
        return f'`{c}` was filled in directory-listing order'
    return None


def _keyed_stores(body: T.Sequence[ast.stmt]) -> T.Iterator[ast.Assign]:
    for st in body:
        for n in walk_no_nested(st):
            if isinstance(n, ast.Assign) and len(n.targets) == 1 and isinstance(n.targets[0], ast.Subscript) and attr_chain(n.targets[0].value):
                yield n


def _membership(atom: ast.AST, val: bool, defs: T.Dict[str, ast.AST]) -> T.Optional[T.Tuple[str, str, bool]]:
    """(table, key, present) when the atom with truth value `val` says whether key is in table."""
    if isinstance(atom, ast.Compare) and len(atom.ops) == 1:
        op, left, right = atom.ops[0], atom.left, atom.comparators[0]
        if isinstance(op, (ast.In, ast.NotIn)):
            if isinstance(right, ast.Call) and isinstance(right.func, ast.Attribute) and right.func.attr == 'keys' and not right.args:
                right = right.func.value
            c = attr_chain(right)
            if c:
                return c, norm(left), isinstance(op, ast.In) == val
        if isinstance(op, (ast.Is, ast.IsNot)) and isinstance(right, ast.Constant) and right.value is None:
            got = left
            if isinstance(got, ast.Name) and got.id in defs:
                got = defs[got.id]
            if isinstance(got, ast.Call) and isinstance(got.func, ast.Attribute) and got.func.attr == 'get' and len(got.args) == 1 and not got.keywords:
                c = attr_chain(got.func.value)
                if c:
                    return c, norm(got.args[0]), isinstance(op, ast.IsNot) == val
    return None


def _mentions_membership(st: ast.stmt, table: str, key: str, defs: T.Dict[str, ast.AST]) -> bool:
    for n in ast.walk(st):
        if isinstance(n, ast.Compare):
            m = _membership(n, True, defs)
            if m is not None and m[0] == table and m[1] == key:
                return True
    return False


def _segment(fn: FuncNode, store: ast.Assign, table: str, key: str, defs: T.Dict[str, ast.AST]) -> T.Optional[T.List[ast.stmt]]:
    """The statements from the first membership test on (table, key) to the store, inside the innermost block that holds both."""
    best: T.Optional[T.List[ast.stmt]] = None

    def visit(block: T.List[ast.stmt]) -> bool:
        nonlocal best
        for j, st in enumerate(block):
            inside = st is store
            if not inside:
                for fld in ('body', 'orelse', 'finalbody'):
                    sub = getattr(st, fld, None)
                    if isinstance(sub, list) and sub and isinstance(sub[0], ast.stmt) and not isinstance(st, (ast.FunctionDef, ast.AsyncFunctionDef, ast.ClassDef)):
                        if visit(sub):
                            inside = True
                for h in getattr(st, 'handlers', []):
                    if visit(h.body):
                        inside = True
            if inside:
                if best is None:
                    for i in range(j + 1):
                        if _mentions_membership(block[i], table, key, defs):
                            best = block[i:j + 1]
                            break
                return True
        return False
    visit(fn.body)
    return best


def _local_defs(fn: FuncNode, store: ast.AST) -> T.Tuple[T.Dict[str, ast.AST], T.Set[str]]:
    """Single definitions of locals inside the innermost loop body (else the function body) that holds the store."""
    scope: T.List[ast.stmt] = fn.body
    for st in fn.body:
        for n in walk_no_nested(st):
            if isinstance(n, (ast.For, ast.AsyncFor, ast.While)) and any(x is store for b in n.body for x in walk_no_nested(b)):
                scope = n.body      # walk order is outer before inner: the last hit is the innermost loop
    defs: T.Dict[str, ast.AST] = {}
    multi: T.Set[str] = set()
    for st in scope:
        for n in walk_no_nested(st):
            tgt: T.Optional[ast.AST] = None
            if isinstance(n, ast.Assign) and len(n.targets) == 1:
                tgt, val = n.targets[0], n.value
            elif isinstance(n, ast.NamedExpr):
                tgt, val = n.target, n.value
            if isinstance(tgt, ast.Name):
                if tgt.id in defs:
                    multi.add(tgt.id)
                defs[tgt.id] = val
            elif isinstance(n, (ast.For, ast.AsyncFor)):
                multi |= _names(n.target)
    for k in multi:
        defs.pop(k, None)
    return defs, multi


class Registry:
    def __init__(self, ctx: RuleCtx, mod: Module, cls: T.Optional[ast.ClassDef]):
        self.ctx = ctx
        self.mod = mod
        self.cls = cls
        self.judged = 0
        self.seen: T.Set[T.Tuple[int, T.Tuple[T.Tuple[str, T.Any], ...]]] = set()

    def method(self, name: str) -> T.Optional[FuncNode]:
        if self.cls is None:
            return None
        for st in self.cls.body:
            if isinstance(st, (ast.FunctionDef, ast.AsyncFunctionDef)) and st.name == name:
                return st
        return None

    def qual(self, fn: FuncNode) -> str:
        return f'{self.cls.name}.{fn.name}' if self.cls is not None else fn.name

    # -------------------------------------------------------------- flag binding
    @staticmethod
    def bind(call: ast.Call, fn: FuncNode, env: T.Dict[str, T.Any]) -> T.Dict[str, T.Any]:
        a = fn.args
        pos = [p.arg for p in a.posonlyargs + a.args]
        if pos and pos[0] in ('self', 'cls'):
            pos = pos[1:]
        out: T.Dict[str, T.Any] = {}
        defaults = a.defaults
        with_def = (a.posonlyargs + a.args)[len(a.posonlyargs + a.args) - len(defaults):] if defaults else []
        for p, d in zip(with_def, defaults):
            out[p.arg] = d.value if isinstance(d, ast.Constant) else UNKNOWN
        for p, d in zip(a.kwonlyargs, a.kw_defaults):
            if d is not None:
                out[p.arg] = d.value if isinstance(d, ast.Constant) else UNKNOWN

        def value(e: ast.AST) -> T.Any:
            if isinstance(e, ast.Constant):
                return e.value
            if isinstance(e, ast.Name) and e.id in env:
                return env[e.id]
            return UNKNOWN
        for i, x in enumerate(call.args):
            if isinstance(x, ast.Starred):
                return {k: UNKNOWN for k in out}
            if i < len(pos):
                out[pos[i]] = value(x)
        for k in call.keywords:
            if k.arg is None:
                return {n: UNKNOWN for n in out}
            out[k.arg] = value(k.value)
        return out

    # -------------------------------------------------------------- the decision
    def judge_function(self, fn: FuncNode, env: T.Dict[str, T.Any], why: str, depth: int) -> None:
        key = (id(fn), tuple(sorted((k, repr(v)) for k, v in env.items())))
        if key in self.seen:
            return
        self.seen.add(key)
        self.judge_block(fn, fn.body, env, why)
        if depth >= MAX_DEPTH:
            return
        for st in fn.body:
            for n in walk_no_nested(st):
                if isinstance(n, ast.Call):
                    self.follow(n, env, why, depth)

    def follow(self, call: ast.Call, env: T.Dict[str, T.Any], why: str, depth: int) -> None:
        f = call.func
        if isinstance(f, ast.Attribute) and isinstance(f.value, ast.Name) and f.value.id in ('self', 'cls'):
            m = self.method(f.attr)
            if m is not None:
                self.judge_function(m, self.bind(call, m, env), why, depth + 1)
        elif isinstance(f, ast.Name) and self.mod.has_func(f.id):
            m2 = self.mod.func(f.id)
            self.judge_function(m2, self.bind(call, m2, env), why, depth + 1)

    def judge_block(self, fn: FuncNode, body: T.Sequence[ast.stmt], env: T.Dict[str, T.Any], why: str) -> None:
        params = {p.arg for p in fn.args.posonlyargs + fn.args.args + fn.args.kwonlyargs}
        q = self.qual(fn)
        for store in _keyed_stores(body):
            tgt = store.targets[0]
            assert isinstance(tgt, ast.Subscript)
            table, keytxt = attr_chain(tgt.value) or '', norm(tgt.slice)
            defs, multi = _local_defs(fn, store)
            seg = _segment(fn, store, table, keytxt, defs)
            if seg is None:
                self.ctx.note(f'{self.mod.rel} {q}: `{short(store, 50)}` in listing order is not guarded by a membership test (last registration wins; '
                              f'whether keys can collide is value level: not decided)')
                continue
            paths = pathsmod.enumerate_paths(seg, unroll=1)
            tolerated: T.List[str] = []
            collisions = 0
            for p in paths:
                present: T.Optional[bool] = None
                others: T.List[T.Tuple[ast.AST, bool]] = []
                for e in p.events:
                    if e.kind != 'cond' or e.node is None:
                        continue
                    m = _membership(e.node, bool(e.val), defs)
                    if m is not None and m[0] == table and m[1] == keytxt:
                        if present is None:
                            present = m[2]
                    else:
                        others.append((e.node, bool(e.val)))
                if present is not True:
                    continue
                collisions += 1
                if p.outcome == 'raise':
                    continue
                infeasible = False
                unread: T.List[str] = []
                for atom, val in others:
                    if isinstance(atom, ast.Name) and atom.id in params and atom.id not in defs and atom.id not in multi:
                        b = env.get(atom.id, UNKNOWN)
                        if b is UNKNOWN:
                            unread.append(f'{atom.id} (not bound to a constant by the caller)')
                        elif bool(b) != val:
                            infeasible = True
                    else:
                        unread.append(norm(atom))
                if infeasible:
                    continue
                if unread:
                    raise Undecided(f'{self.mod.rel} {q}: a name already in {table} is tolerated on a path guarded by {unread[:3]}, which this rule '
                                    f'does not read ({why})')
                tolerated.append(p.describe()[:160])
            if not collisions:
                raise Undecided(f'{self.mod.rel} {q}: no decision path of `{short(seg[0], 50)}` reaches the case "{keytxt} already in {table}"')
            self.judged += 1
            flags = ', '.join(f'{k}={v!r}' for k, v in sorted(env.items()) if v is not UNKNOWN)
            self.ctx.require(not tolerated,
                             f'{self.mod.rel} {q}: registering a name that is already in {table} raises ({why}{"; " + flags if flags else ""})',
                             self.mod, q, f'{table}[<name>] registered in directory-listing order',
                             f'{why}, and a name that is already in {table} is tolerated instead of being an error '
                             f'(path: {tolerated[0] if tolerated else ""}): which provider is registered for it depends on the order in which the '
                             f'directory is listed', store)


def check_module(ctx: RuleCtx, mod: Module) -> int:
    """-> number of registrations judged in this module."""
    judged = 0
    lines = mod.src.splitlines()
    classes: T.List[T.Optional[ast.ClassDef]] = [None] + [c for c in mod.tree.body if isinstance(c, ast.ClassDef)]
    for cls in classes:
        fns: T.List[FuncNode] = [st for st in (cls.body if cls is not None else mod.tree.body) if isinstance(st, (ast.FunctionDef, ast.AsyncFunctionDef))]
        # text pre-filter (which functions are worth walking): a listing call is spelled in the function
        lists = {id(f) for f in fns if _LISTING_TEXT.search('\n'.join(lines[f.lineno - 1:f.end_lineno]))}
        if not lists:
            continue
        per_fn = {id(f): (listing_names(f) if id(f) in lists else set()) for f in fns}
        # registry attributes: keyed store into self.X inside a loop that runs in listing order
        registries: T.Set[str] = set()
        for f in fns:
            if id(f) not in lists:
                continue
            for st in f.body:
                for n in walk_no_nested(st):
                    if isinstance(n, (ast.For, ast.AsyncFor)) and _loop_in_listing_order(n, per_fn[id(f)], set()):
                        for s in _keyed_stores(n.body):
                            c = attr_chain(s.targets[0].value)    # type: ignore[attr-defined]
                            if c and c.startswith('self.'):
                                registries.add(c)
        reg = Registry(ctx, mod, cls)
        for f in fns:
            if id(f) not in lists and not registries:
                continue
            for st in f.body:
                for n in walk_no_nested(st):
                    if not isinstance(n, (ast.For, ast.AsyncFor)):
                        continue
                    why = _loop_in_listing_order(n, per_fn[id(f)], registries)
                    if why is None:
                        continue
                    why = f'{reg.qual(f)} loops in listing order ({why})'
                    reg.judge_block(f, n.body, {}, why)
                    for s2 in n.body:
                        for c2 in walk_no_nested(s2):
                            if isinstance(c2, ast.Call):
                                reg.follow(c2, {}, why, 0)
        judged += reg.judged
    return judged
