"""C08 — option state persists across the build-directory lifecycle (DESIGN §2 C08).

The property is a statement about command histories; what is decided here are the
structural clauses R1..R7 of the design (decision tables of the -D/-U and the
option-file-edit code, guarded-writer/ordering facts of setup/configure/wipe, and
the per-subproject data dependence of the option file that is (re)loaded).
"""
from __future__ import annotations

import ast
import copy
import typing as T

from ..core import (AnalysisError, Module, Undecided, attr_chain, call_method, call_name, names_in, norm, short,
                    walk_no_nested)
from ..report import Rule, RuleCtx
from .. import paths, tables
from ..cfg import CFG, Node, _may_raise
from ..flow import Flow
from ..tables import Atom


EXPLANATION = (
    'Decides structural clauses of C08: R1 the decision table of OptionStore.set_from_configure_command (-D sets through '
    'set_user_option and accumulates the dirty flag; -U drops an augment; -U without augment raises for an unknown key, else '
    're-yields to the parent) and CoreData forwards options.cmd_line_options and returns the flag; R2a on every path of '
    'update_project_options a new key is added, a redeclared key (type or choices differ) ends with the NEW object stored and the '
    'old value carried over only through a guarded set_value (also on the exception edge out of the carry-over), an unchanged key is untouched; R1b update_cmd_line_file records every value that is not None as str(value) and erases exactly when the value is None (same canonical atom as R1); R2c every comparison of choices_are_different has the same projection on both sides, one side per parameter, and covers choices/min_value/max_value for every option class declaring them; R2b keys are removed exactly when '
    'undeclared & project option & of this subproject; R3a every persistent writer and every may-raise statement after the '
    'coredata dump in MesonApp._generate is guarded by the handler that restores coredata.dat.prev/unlinks and re-raises '
    '(suffix agrees with coredata.save); R3d on every path of coredata.save that publishes over an existing coredata.dat the backup copy precedes the publish (no other condition gates it); R2b also: every normal path of update_project_options passes the removal loop; R3c no statement that may raise follows a cmd_line.txt write inside that try (the handler restores coredata only); R3b in mconf.run_impl cmd_line.txt/coredata are written only after '
    'set_from_configure_command returned normally and its result decides the save; R4 --wipe copies cmd_line.txt and *.ini and '
    'reads the command line before deleting, restores in a finally inside the temporary directory scope; R4b in read_cmd_line_file the mapping assigned to options.cmd_line_options is merged from the recorded table and the current options with the current ones last (highest priority); R5a-c the option file '
    'handed to OptionInterpreter.process for a subproject is its recorded file / depends on per-subproject data, and the same '
    'subproject key is used for the interpreter, the store update and the recorded hash; R5a also: a path of the mconf reload loop with a usable recorded file that skips the reload has decided an equality test of the recorded hash (with what it is compared is not read; no other test - timestamp, size - may skip it). '
    'R2d also reads the loop that re-points the children of a replaced declaration as a table over every field of the child it tests: a child of the replaced object is re-linked whatever its other state (yielding or detached). '
    'Normal forms: a functools.singledispatch generic function with module-level @register(Class) implementations is read as the isinstance chain it dispatches like (most-derived class first; closed world over mesonbuild); a method called on `self.accessor(k)` / on a parameter or loop variable whose annotation names classes of the module is analysed in place when all those classes inherit one definition. '
    'R2d the object installed for a redeclared option gets the parent link (parent/yielding) that add_project_option gives a new one; R5d every normal path of _load_option_file calls update_project_options for self.subproject, with no declarations when there is no option file. R6 in Environment every option writer fed from self.options (the initial sources) is unreachable when first_invocation is false. R4c every [properties] key read_cmd_line_file restores into options.K is recorded by write_cmd_line_file exactly when options.K is set (all worlds); R4d in MesonApp._generate the options object handed to Interpreter is dominated by read_cmd_line_file on it (or every caller merges into self.options). R7 in the interpreter (func_project and the helpers it is split into) initialize_from_top_level_project_call is reached only on paths where first_invocation is known true, initialize_from_subproject_call(S, ..) only where first_invocation is known true or S is known to be missing from coredata.initialized_subprojects, and every normal path through it adds the same S to that set (gate key = initialised subproject = recorded key), so default_options are applied once per (sub)project. Does NOT decide: the precedence between the sources of one initial value (machine file < command line for prefix in first_handle_prefix) and the order in which the options of one command line are applied (buildtype before debug/optimization in parse_cmd_line_options) - C07 owns both; who else may remove entries of initialized_subprojects outside the interpreter; what set_option/set_value do with a value (e.g. whether set_option detaches a yielding option only when the value changes - C07 owns set_option); agreement with a reference model over command histories, nor what set_user_option/set_value accept.')
ASSUMPTIONS = [
    'OptionStore.set_option(key, v) validates and stores v on the object currently in self.options[key]',
    'UserOption.set_value raises MesonException (and keeps the previous value) for an invalid value',
    'coredata.save returns the coredata.dat path after copying the previous file to <path>.prev',
    'the persistent writers of setup/configure are dump_coredata/coredata.save, build.save, write_cmd_line_file, update_cmd_line_file',
    'return/parameter annotations naming option classes (AnyOptionType, MutableKeyedOptionDictType) state which objects arrive (used only to resolve a method called on such an object)',
]
TECHNIQUE = ('decision tables by path enumeration over canonical atoms + world enumeration, row effects compared symbolically '
             '(normalised statement shape, after copy propagation by reaching definitions along the path); typestate of '
             'self.options[key] (old/new declaration installed) over enumerated paths; CFG dominance/reachability and try/handler '
             'nesting; def-use origin flow; no repository code is evaluated on input values')


# ---------------------------------------------------------------------------
# small shared helpers

# ---------------------------------------------------------------------------
# Normal forms applied ONCE to every module this pack reads (in place on the parsed tree, positions kept), so that all rules
# see the same spelling:
#   * keyword arguments of calls to repository functions are bound to the callee's parameters and made positional,
#   * string templates (f-string, '%s' % x, '{}'.format(x)) become the concatenation  a + 'lit' + b,
#   * a condition bound to a named local just before the `if` that tests it is tested directly.

INDEX_MODULES = (OPTIONS, COREDATA, MSETUP, MCONF, IBASE, CMDLINE) = (
    'mesonbuild/options.py', 'mesonbuild/coredata.py', 'mesonbuild/msetup.py', 'mesonbuild/mconf.py',
    'mesonbuild/interpreterbase/interpreterbase.py', 'mesonbuild/cmdline.py')


def _template_pieces(e: ast.AST) -> T.Optional[T.List[ast.AST]]:
    """Pieces of a text template (constants and spliced expressions) or None."""
    import re as _re
    if isinstance(e, ast.JoinedStr):
        out: T.List[ast.AST] = []
        for v in e.values:
            if isinstance(v, ast.Constant) and isinstance(v.value, str):
                out.append(v)
            elif isinstance(v, ast.FormattedValue) and v.format_spec is None and v.conversion in (-1, 115):
                out.append(v.value)
            else:
                return None
        return out
    if isinstance(e, ast.BinOp) and isinstance(e.op, ast.Mod) and isinstance(e.left, ast.Constant) and isinstance(e.left.value, str):
        fmt = e.left.value
        args = list(e.right.elts) if isinstance(e.right, ast.Tuple) else [e.right]
        parts = _re.split(r'(%s)', fmt)
        if '%' in fmt.replace('%s', '') or parts.count('%s') != len(args) or isinstance(e.right, (ast.Dict, ast.Name)) and len(args) == 1 and not isinstance(e.right, ast.Name):
            return None
        out = []
        it = iter(args)
        for p_ in parts:
            out.append(next(it) if p_ == '%s' else ast.Constant(value=p_))
        return out
    if isinstance(e, ast.Call) and isinstance(e.func, ast.Attribute) and e.func.attr == 'format' and isinstance(e.func.value, ast.Constant) \
            and isinstance(e.func.value.value, str) and not e.keywords and not any(isinstance(a, ast.Starred) for a in e.args):
        fmt = e.func.value.value
        parts = _re.split(r'(\{\})', fmt)
        if '{' in fmt.replace('{}', '') or '}' in fmt.replace('{}', '') or parts.count('{}') != len(e.args):
            return None
        out = []
        it = iter(e.args)
        for p_ in parts:
            out.append(next(it) if p_ == '{}' else ast.Constant(value=p_))
        return out
    return None


class _Normalise(ast.NodeTransformer):
    def __init__(self, repo: T.Any, mod: Module, light: bool = False):
        self.repo = repo
        self.mod = mod
        self.light = light      # resolve callees only in this module and in INDEX_MODULES (no other module is parsed for it)
        self._index: T.Optional[T.Dict[str, T.List[T.Tuple[ast.AST, bool]]]] = None

    # -- string templates -------------------------------------------------------------------
    def _concat(self, node: ast.AST) -> ast.AST:
        pieces = _template_pieces(node)
        if pieces is None:
            return node
        pieces = [p_ for p_ in pieces if not (isinstance(p_, ast.Constant) and p_.value == '')]
        if len(pieces) < 2 or not any(isinstance(p_, ast.Constant) for p_ in pieces):
            return node
        acc = pieces[0]
        for p_ in pieces[1:]:
            acc = ast.copy_location(ast.BinOp(left=acc, op=ast.Add(), right=p_), node)
        return ast.fix_missing_locations(acc)

    def visit_JoinedStr(self, node: ast.JoinedStr) -> ast.AST:
        self.generic_visit(node)
        return self._concat(node)

    def visit_BinOp(self, node: ast.BinOp) -> ast.AST:
        self.generic_visit(node)
        return self._concat(node) if isinstance(node.op, ast.Mod) else node

    # -- keyword -> positional ----------------------------------------------------------------
    def _method_index(self) -> T.Dict[str, T.List[T.Tuple[ast.AST, bool]]]:
        if self._index is None:
            idx: T.Dict[str, T.List[T.Tuple[ast.AST, bool]]] = {}
            for rel in INDEX_MODULES:
                if not self.repo.exists(rel):
                    continue
                m = self.repo.module(rel)
                for q, f in m.funcs().items():
                    if '#' in q:
                        continue
                    idx.setdefault(q.rsplit('.', 1)[-1], []).append((f, '.' in q and q.rsplit('.', 1)[0] in m.classes()))
            self._index = idx
        return self._index

    def _may_load(self, dotted: str) -> bool:
        return not self.light or dotted.replace('.', '/') + '.py' in INDEX_MODULES

    def _candidates(self, call: ast.Call) -> T.List[T.List[str]]:
        return [ps for _, ps in self._candidate_functions(call)]

    def _candidate_functions(self, call: ast.Call) -> T.List[T.Tuple[ast.AST, T.List[str]]]:
        """(function, positional parameter list with the receiver dropped) of the functions the call may refer to."""
        f = call.func
        found: T.List[T.Tuple[ast.AST, bool]] = []
        if isinstance(f, ast.Name):
            if self.mod.has_func(f.id):
                found = [(self.mod.func(f.id), False)]
            else:
                origin = self.mod.imports().get(f.id)
                if origin and '.' in origin and self._may_load(origin.rsplit('.', 1)[0]):
                    m2 = self.repo.module_by_dotted(origin.rsplit('.', 1)[0])
                    if m2 is not None and m2.has_func(origin.rsplit('.', 1)[1]):
                        found = [(m2.func(origin.rsplit('.', 1)[1]), False)]
        elif isinstance(f, ast.Attribute):
            base = attr_chain(f.value)
            if base is not None and '.' not in base and base in self.mod.imports() and self._may_load(self.mod.imports()[base]):
                m2 = self.repo.module_by_dotted(self.mod.imports()[base])
                if m2 is not None and m2.has_func(f.attr):
                    found = [(m2.func(f.attr), False)]
            if not found and not (base is not None and '.' not in base and base in self.mod.imports()):
                found = [c for c in self._method_index().get(f.attr, []) if c[1]]
        out = []
        for fn, is_method in found:
            a = fn.args  # type: ignore[attr-defined]
            if a.vararg is not None:
                continue
            ps = [x.arg for x in a.posonlyargs + a.args]
            if is_method and ps and ps[0] in ('self', 'cls') and 'staticmethod' not in [attr_chain(d) for d in fn.decorator_list]:  # type: ignore[attr-defined]
                ps = ps[1:]
            out.append((fn, ps))
        return out

    def visit_Call(self, node: ast.Call) -> ast.AST:
        self.generic_visit(node)
        t = self._concat(node)
        if t is not node:
            return t
        f = node.func
        if isinstance(f, ast.Attribute) and isinstance(f.value, ast.Name) and self.mod.has_cls(f.value.id) and f.attr in self.mod.methods(f.value.id) \
                and node.args and isinstance(node.args[0], ast.Name) and node.args[0].id == 'self':
            # Class.m(self, ...)  ->  self.m(...)
            node.func = ast.copy_location(ast.Attribute(value=node.args[0], attr=f.attr, ctx=ast.Load()), f)
            node.args = node.args[1:]
        self._bind_keywords(node)
        self._drop_defaults(node)
        return node

    def _drop_defaults(self, node: ast.Call) -> None:
        """Trailing positional arguments that spell the callee's default are dropped (explicit default <-> omitted)."""
        if node.keywords or any(isinstance(a, ast.Starred) for a in node.args) or not node.args:
            return
        fs = self._candidate_functions(node)
        if not fs:
            return
        cut: T.Optional[int] = None
        for fn, ps in fs:
            a = fn.args  # type: ignore[attr-defined]
            allp = [x.arg for x in a.posonlyargs + a.args]
            off = len(allp) - len(ps)
            dmap = {allp[len(allp) - len(a.defaults) + i]: d for i, d in enumerate(a.defaults)}
            n = len(node.args)
            if n > len(ps):
                return
            while n > 0 and ps[n - 1] in dmap and norm(dmap[ps[n - 1]]) == norm(node.args[n - 1]) and isinstance(node.args[n - 1], ast.Constant):
                n -= 1
            del off
            if cut is not None and cut != n:
                return
            cut = n
        if cut is not None and cut < len(node.args):
            node.args = node.args[:cut]

    def _bind_keywords(self, node: ast.Call) -> ast.AST:
        if not node.keywords or any(k.arg is None for k in node.keywords) or any(isinstance(a, ast.Starred) for a in node.args):
            return node
        results = []
        for ps in self._candidates(node):
            kws = {k.arg: k.value for k in node.keywords}
            if len(node.args) > len(ps) or any(k not in ps for k in kws) or any(ps.index(k) < len(node.args) for k in kws):
                continue
            top = max(ps.index(k) for k in kws)
            if any(ps[i] not in kws for i in range(len(node.args), top + 1)):
                continue        # a defaulted parameter in between is not given: cannot be written positionally
            results.append(list(node.args) + [kws[ps[i]] for i in range(len(node.args), top + 1)])
        if results and all([norm(x) for x in r] == [norm(x) for x in results[0]] for r in results):
            node.args = results[0]
            node.keywords = []
        return node


def _is_condition(e: ast.AST) -> bool:
    if isinstance(e, ast.BoolOp):
        return True
    if isinstance(e, ast.UnaryOp) and isinstance(e.op, ast.Not):
        return True
    return isinstance(e, ast.Compare)


def _test_named_conditions(block: T.List[ast.stmt]) -> None:
    """`c = <condition>; ...plain local bindings...; if [not] c:`  ->  the `if` tests the condition itself (the binding stays).
    Only when c has no other use or binding in the block, so evaluation order is unchanged."""
    for i, st in enumerate(block):
        for field in ('body', 'orelse', 'finalbody'):
            sub = getattr(st, field, None)
            if isinstance(sub, list) and sub and isinstance(sub[0], ast.stmt):
                _test_named_conditions(sub)
        for h in getattr(st, 'handlers', []):
            _test_named_conditions(h.body)
        if not (isinstance(st, ast.Assign) and len(st.targets) == 1 and isinstance(st.targets[0], ast.Name) and _is_condition(st.value)):
            continue
        name = st.targets[0].id
        for j in range(i + 1, len(block)):
            nxt = block[j]
            if isinstance(nxt, ast.If) and name in names_in(nxt.test):
                uses = sum(1 for b in block for n in ast.walk(b) if isinstance(n, ast.Name) and n.id == name)
                if uses == 2 and sum(1 for n in ast.walk(nxt.test) if isinstance(n, ast.Name) and n.id == name) == 1:
                    nxt.test = _subst(nxt.test, {name: st.value})
                    ast.fix_missing_locations(ast.copy_location(nxt.test, nxt))
                    block[i] = ast.copy_location(ast.Pass(), st)      # the binding has no other use
                break
            plain = isinstance(nxt, (ast.Assign, ast.AnnAssign)) and all(isinstance(t, ast.Name) and t.id != name for t in
                                                                         (nxt.targets if isinstance(nxt, ast.Assign) else [nxt.target])) \
                and getattr(nxt, 'value', None) is not None and _transparent(nxt.value) and name not in names_in(nxt)  # type: ignore[arg-type]
            if not plain:
                break


def _fold_named_constants(mod: Module) -> None:
    """A module-level (or class-level) name bound exactly once to a str/int/None literal and never rebound anywhere in the
    module is replaced by the literal where it is read (`filename + _BACKUP_SUFFIX` == `filename + '.prev'`)."""
    stores: T.Dict[str, int] = {}
    for n in ast.walk(mod.tree):
        if isinstance(n, ast.Name) and isinstance(n.ctx, (ast.Store, ast.Del)):
            stores[n.id] = stores.get(n.id, 0) + 1
        elif isinstance(n, ast.arg):
            stores[n.arg] = stores.get(n.arg, 0) + 1
        elif isinstance(n, (ast.Import, ast.ImportFrom)):
            for a in n.names:
                nm = a.asname or a.name.split('.')[0]
                stores[nm] = stores.get(nm, 0) + 1
    consts: T.Dict[str, ast.Constant] = {}
    for st in mod.tree.body:
        tv = None
        if isinstance(st, ast.Assign) and len(st.targets) == 1 and isinstance(st.targets[0], ast.Name):
            tv = (st.targets[0].id, st.value)
        elif isinstance(st, ast.AnnAssign) and isinstance(st.target, ast.Name) and st.value is not None:
            tv = (st.target.id, st.value)
        if tv and isinstance(tv[1], ast.Constant) and isinstance(tv[1].value, (str, int)) and not isinstance(tv[1].value, bool) and stores.get(tv[0]) == 1:
            consts[tv[0]] = tv[1]
    if not consts:
        return

    class Fold(ast.NodeTransformer):
        def visit_Name(self, n: ast.Name) -> ast.AST:
            if isinstance(n.ctx, ast.Load) and n.id in consts:
                return ast.copy_location(ast.Constant(value=consts[n.id].value), n)
            return n
    for f in mod.funcs().values():
        Fold().visit(f)


def _is_table_leaf(e: ast.AST) -> bool:
    if isinstance(e, (ast.Tuple, ast.List)):
        return all(_is_table_leaf(x) for x in e.elts)
    return isinstance(e, ast.Constant) or attr_chain(e) is not None


def _unroll_constant_tables(mod: Module) -> None:
    """Table-driven code back to the chain it abbreviates:
      * `for a, b in TABLE: body` where TABLE is a module constant tuple/list display (<= 8 rows, never rebound, body without
        break/continue)                                      ->  body[a,b := row 1]; body[a,b := row 2]; ...
      * `any(E for x in (c1, c2))` / `all(...)`              ->  `E[x:=c1] or E[x:=c2]` / `... and ...`
      * `getattr(o, 'name')` / `setattr(o, 'name', v)`       ->  `o.name` / `o.name = v`"""
    stores: T.Dict[str, int] = {}
    for n in ast.walk(mod.tree):
        if isinstance(n, ast.Name) and isinstance(n.ctx, (ast.Store, ast.Del)):
            stores[n.id] = stores.get(n.id, 0) + 1
        elif isinstance(n, ast.arg):
            stores[n.arg] = stores.get(n.arg, 0) + 1
    tables_: T.Dict[str, ast.AST] = {}
    for st in mod.tree.body:
        tv = None
        if isinstance(st, ast.Assign) and len(st.targets) == 1 and isinstance(st.targets[0], ast.Name):
            tv = (st.targets[0].id, st.value)
        elif isinstance(st, ast.AnnAssign) and isinstance(st.target, ast.Name) and st.value is not None:
            tv = (st.target.id, st.value)
        if tv and isinstance(tv[1], (ast.Tuple, ast.List)) and 0 < len(tv[1].elts) <= 8 and _is_table_leaf(tv[1]) and stores.get(tv[0]) == 1:
            tables_[tv[0]] = tv[1]

    def rows_of(e: ast.AST) -> T.Optional[T.List[ast.AST]]:
        if isinstance(e, ast.Name) and e.id in tables_:
            e = tables_[e.id]
        if isinstance(e, (ast.Tuple, ast.List)) and 0 < len(e.elts) <= 8 and _is_table_leaf(e):
            return list(e.elts)
        return None

    def bind(target: ast.AST, row: ast.AST) -> T.Optional[T.Dict[str, ast.AST]]:
        if isinstance(target, ast.Name):
            return {target.id: row}
        if isinstance(target, (ast.Tuple, ast.List)) and isinstance(row, (ast.Tuple, ast.List)) and len(target.elts) == len(row.elts):
            out: T.Dict[str, ast.AST] = {}
            for t, r in zip(target.elts, row.elts):
                b = bind(t, r)
                if b is None:
                    return None
                out.update(b)
            return out
        return None

    class Expr(ast.NodeTransformer):
        def visit_Call(self, node: ast.Call) -> ast.AST:
            self.generic_visit(node)
            if isinstance(node.func, ast.Name) and node.func.id in ('any', 'all') and len(node.args) == 1 and not node.keywords \
                    and isinstance(node.args[0], (ast.GeneratorExp, ast.ListComp)) and len(node.args[0].generators) == 1:
                g = node.args[0].generators[0]
                rows = rows_of(g.iter)
                if rows is not None and not g.ifs and not g.is_async:
                    vals = []
                    for r in rows:
                        b = bind(g.target, r)
                        if b is None:
                            return node
                        vals.append(Expr().visit(_subst(node.args[0].elt, b)))
                    out = vals[0] if len(vals) == 1 else ast.BoolOp(op=ast.Or() if node.func.id == 'any' else ast.And(), values=vals)
                    return ast.fix_missing_locations(ast.copy_location(out, node))
            if isinstance(node.func, ast.Name) and node.func.id == 'getattr' and len(node.args) == 2 and not node.keywords \
                    and isinstance(node.args[1], ast.Constant) and isinstance(node.args[1].value, str) and node.args[1].value.isidentifier():
                return ast.copy_location(ast.Attribute(value=node.args[0], attr=node.args[1].value, ctx=ast.Load()), node)
            return node

    def unroll(block: T.List[ast.stmt]) -> None:
        i = 0
        while i < len(block):
            st = block[i]
            for field in ('body', 'orelse', 'finalbody'):
                sub = getattr(st, field, None)
                if isinstance(sub, list) and sub and isinstance(sub[0], ast.stmt) and not isinstance(st, (ast.FunctionDef, ast.AsyncFunctionDef, ast.ClassDef)):
                    unroll(sub)
            for h in getattr(st, 'handlers', []):
                unroll(h.body)
            if isinstance(st, ast.For) and not st.orelse:
                rows = rows_of(st.iter)
                jumps = any(isinstance(n, (ast.Break, ast.Continue)) for b in st.body for n in walk_no_nested(b))
                stored_in_body = {n.id for b in st.body for n in ast.walk(b) if isinstance(n, ast.Name) and isinstance(n.ctx, ast.Store)}
                tnames = {n.id for n in ast.walk(st.target) if isinstance(n, ast.Name)}
                if rows is not None and not jumps and not (stored_in_body & tnames):
                    new: T.List[ast.stmt] = []
                    ok = True
                    for r in rows:
                        b = bind(st.target, r)
                        if b is None:
                            ok = False
                            break
                        new.extend(_Sub(b).visit(copy.deepcopy(x)) for x in st.body)
                    if ok:
                        for x in new:
                            ast.fix_missing_locations(x)
                        block[i:i + 1] = new
                        i += len(new) - 1
            i += 1

    for f in mod.funcs().values():
        unroll(f.body)
        Expr().visit(f)
        for blk in _blocks(f.body):
            for j, st in enumerate(blk):
                if isinstance(st, ast.Expr) and isinstance(st.value, ast.Call) and isinstance(st.value.func, ast.Name) and st.value.func.id == 'setattr' \
                        and len(st.value.args) == 3 and isinstance(st.value.args[1], ast.Constant) and isinstance(st.value.args[1].value, str) \
                        and st.value.args[1].value.isidentifier():
                    blk[j] = ast.fix_missing_locations(ast.copy_location(ast.Assign(
                        targets=[ast.Attribute(value=st.value.args[0], attr=st.value.args[1].value, ctx=ast.Store())], value=st.value.args[2]), st))


def _select_callee(block: T.List[ast.stmt]) -> None:
    """`f = a if c else b; ...; f(x)`  and  `(a if c else b)(x)`  ->  `if c: a(x) else: b(x)` (callable selected first, called later)."""
    i = 0
    while i < len(block):
        st = block[i]
        for field in ('body', 'orelse', 'finalbody'):
            sub = getattr(st, field, None)
            if isinstance(sub, list) and sub and isinstance(sub[0], ast.stmt):
                _select_callee(sub)
        for h in getattr(st, 'handlers', []):
            _select_callee(h.body)
        call = st.value if isinstance(st, (ast.Expr, ast.Assign)) and isinstance(getattr(st, 'value', None), ast.Call) else None
        if call is not None:
            sel: T.Optional[ast.IfExp] = None
            drop: T.Optional[int] = None
            if isinstance(call.func, ast.IfExp):
                sel = call.func
            elif isinstance(call.func, ast.Name):
                nm = call.func.id
                for j in range(i - 1, -1, -1):
                    p_ = block[j]
                    if isinstance(p_, ast.Assign) and len(p_.targets) == 1 and isinstance(p_.targets[0], ast.Name) and p_.targets[0].id == nm:
                        uses = sum(1 for b in block for n in ast.walk(b) if isinstance(n, ast.Name) and n.id == nm)
                        if isinstance(p_.value, ast.IfExp) and uses == 2:
                            sel, drop = p_.value, j
                        break
                    if not (isinstance(p_, (ast.Assign, ast.AnnAssign)) and getattr(p_, 'value', None) is not None and _transparent(p_.value)):  # type: ignore[arg-type]
                        break
            if sel is not None and attr_chain(sel.body) is not None and attr_chain(sel.orelse) is not None:
                def with_func(f: ast.AST) -> ast.stmt:
                    st2 = copy.deepcopy(st)
                    st2.value.func = copy.deepcopy(f)  # type: ignore[attr-defined]
                    return st2
                new = ast.fix_missing_locations(ast.copy_location(ast.If(test=sel.test, body=[with_func(sel.body)], orelse=[with_func(sel.orelse)]), st))
                block[i] = new
                if drop is not None:
                    del block[drop]
                    i -= 1
        i += 1


def _blocks(block: T.List[ast.stmt]) -> T.Iterator[T.List[ast.stmt]]:
    yield block
    for st in block:
        if isinstance(st, (ast.FunctionDef, ast.AsyncFunctionDef, ast.ClassDef)):
            continue
        for field in ('body', 'orelse', 'finalbody'):
            sub = getattr(st, field, None)
            if isinstance(sub, list) and sub and isinstance(sub[0], ast.stmt):
                yield from _blocks(sub)
        for h in getattr(st, 'handlers', []):
            yield from _blocks(h.body)


def _statement_forms(fn: ast.AST) -> None:
    """Statement-level normal forms inside one function (in place):
      * `if E: flag = True` (flag initialised to False in the function)      ->  `flag |= E`
      * `x = a if c else b` / `x: T = a if c else b`                          ->  `if c: x = a  else: x = b`
      * `if (n := e) ...:` with the walrus evaluated first                    ->  `n = e; if n ...:`
      * `x += [e]`, `x.extend([e])`                                           ->  `x.append(e)`"""
    flags = {st.targets[0].id for st in ast.walk(fn) if isinstance(st, ast.Assign) and len(st.targets) == 1 and isinstance(st.targets[0], ast.Name)
             and isinstance(st.value, ast.Constant) and st.value.value is False}
    for block in _blocks(fn.body):  # type: ignore[attr-defined]
        i = 0
        while i < len(block):
            st = block[i]
            new: T.Optional[T.List[ast.stmt]] = None
            if isinstance(st, ast.AnnAssign) and st.value is not None and not isinstance(st.value, ast.IfExp):
                # `x: T = e` executes exactly `x = e` (a local annotation is never evaluated)
                block[i] = st = ast.fix_missing_locations(ast.copy_location(ast.Assign(targets=[st.target], value=st.value), st))
            elif (isinstance(st, ast.AnnAssign) and st.value is None and isinstance(st.target, ast.Name)) \
                    or (isinstance(st, ast.Expr) and isinstance(st.value, ast.Constant)):
                # a bare declaration `x: T` binds nothing; a docstring / constant expression statement does nothing
                if len(block) > 1:
                    del block[i]
                    continue
                block[i] = st = ast.copy_location(ast.Pass(), st)
            if isinstance(st, ast.If) and not st.orelse and len(st.body) == 1 and isinstance(st.body[0], ast.Assign) and len(st.body[0].targets) == 1 \
                    and isinstance(st.body[0].targets[0], ast.Name) and st.body[0].targets[0].id in flags \
                    and isinstance(st.body[0].value, ast.Constant) and st.body[0].value.value is True \
                    and st.body[0].targets[0].id not in names_in(st.test) and not any(isinstance(n, ast.NamedExpr) for n in ast.walk(st.test)):
                new = [ast.AugAssign(target=ast.Name(id=st.body[0].targets[0].id, ctx=ast.Store()), op=ast.BitOr(), value=st.test)]
            elif isinstance(st, (ast.Assign, ast.AnnAssign)) and isinstance(getattr(st, 'value', None), ast.IfExp) \
                    and (isinstance(st, ast.AnnAssign) or len(st.targets) == 1) \
                    and attr_chain(st.targets[0] if isinstance(st, ast.Assign) else st.target) is not None:
                tgt = st.targets[0] if isinstance(st, ast.Assign) else st.target
                v = st.value
                callee_sel = isinstance(tgt, ast.Name) and attr_chain(v.body) is not None and attr_chain(v.orelse) is not None and not isinstance(v.body, ast.Name)
                if not callee_sel and not (names_in(tgt) & names_in(v.test)):   # callee selection is handled separately
                    mk = lambda val: ast.Assign(targets=[copy.deepcopy(tgt)], value=val)  # noqa: E731
                    new = [ast.If(test=v.test, body=[mk(v.body)], orelse=[mk(v.orelse)])]
            elif isinstance(st, ast.If):
                w = [n for n in ast.walk(st.test) if isinstance(n, ast.NamedExpr)]
                if len(w) == 1 and isinstance(w[0].target, ast.Name):
                    # the walrus must be what is evaluated first: walk down the leftmost spine of the test
                    n: ast.AST = st.test
                    first = False
                    while True:
                        if n is w[0]:
                            first = True
                            break
                        if isinstance(n, ast.UnaryOp):
                            n = n.operand
                        elif isinstance(n, ast.BoolOp):
                            n = n.values[0]
                        elif isinstance(n, ast.Compare):
                            n = n.left
                        elif isinstance(n, ast.Call) and attr_chain(n.func) is not None and n.args:
                            n = n.args[0]
                        elif isinstance(n, ast.Attribute):
                            n = n.value
                        else:
                            break
                    if first:
                        bind = ast.Assign(targets=[ast.Name(id=w[0].target.id, ctx=ast.Store())], value=w[0].value)
                        st.test = _ReplaceNode(w[0], ast.Name(id=w[0].target.id, ctx=ast.Load())).visit(st.test)
                        new = [bind, st]
            elif isinstance(st, ast.For) and isinstance(st.iter, ast.Call) and (call_name(st.iter) or '').split('.')[-1] in ('filter', 'filterfalse') \
                    and len(st.iter.args) == 2 and not st.iter.keywords and isinstance(st.target, ast.Name) and not st.orelse \
                    and (attr_chain(st.iter.args[0]) is not None or (isinstance(st.iter.args[0], ast.Lambda) and len(st.iter.args[0].args.args) == 1)):
                # `for k in filter(pred, X): body`  ->  `for k in X: if pred(k): body`   (filterfalse: `if not pred(k)`)
                pred = st.iter.args[0]
                if isinstance(pred, ast.Lambda):
                    test: ast.AST = _subst(pred.body, {pred.args.args[0].arg: ast.Name(id=st.target.id, ctx=ast.Load())})
                else:
                    test = ast.Call(func=pred, args=[ast.Name(id=st.target.id, ctx=ast.Load())], keywords=[])
                if (call_name(st.iter) or '').endswith('filterfalse'):
                    test = ast.UnaryOp(op=ast.Not(), operand=test)
                new = [ast.For(target=st.target, iter=st.iter.args[1], body=[ast.If(test=test, body=st.body, orelse=[])], orelse=[])]
            elif isinstance(st, ast.AugAssign) and isinstance(st.op, ast.Add) and isinstance(st.value, ast.List) and len(st.value.elts) == 1 \
                    and not isinstance(st.value.elts[0], ast.Starred) and attr_chain(st.target) is not None:
                recv = copy.deepcopy(st.target)
                for n_ in ast.walk(recv):
                    if hasattr(n_, 'ctx'):
                        n_.ctx = ast.Load()  # type: ignore[attr-defined]
                new = [ast.Expr(value=ast.Call(func=ast.Attribute(value=recv, attr='append', ctx=ast.Load()), args=[st.value.elts[0]], keywords=[]))]
            elif isinstance(st, ast.Expr) and isinstance(st.value, ast.Call) and isinstance(st.value.func, ast.Attribute) and st.value.func.attr == 'extend' \
                    and len(st.value.args) == 1 and isinstance(st.value.args[0], ast.List) and len(st.value.args[0].elts) == 1 \
                    and not isinstance(st.value.args[0].elts[0], ast.Starred):
                st.value.func.attr = 'append'
                st.value.args = [st.value.args[0].elts[0]]
            if new is not None:
                for x in new:
                    ast.fix_missing_locations(ast.copy_location(x, st))
                block[i:i + 1] = new
                i += len(new) - 1
            i += 1


_BUILTIN_SUPERS = {'bool': ('int',), 'int': (), 'str': (), 'list': (), 'dict': (), 'tuple': (), 'float': (), 'set': (), 'frozenset': (), 'bytes': ()}


def _lower_singledispatch(ctx: RuleCtx, mod: Module) -> None:
    """`@functools.singledispatch def g(a, ..): DEFAULT` + `@g.register(C) def impl(a, ..)` (module level)  ->
       `def g(a, ..): if isinstance(a, C): return impl(a, ..) ... DEFAULT`, the registered classes tested most-derived first
    (singledispatch picks the registered class that comes first in the MRO of type(a)).  Closed world: every use of
    `g.register`/`g.dispatch`/`g.registry` in mesonbuild must be one of these module-level decorators, the registered classes
    must resolve, and no class of the module may inherit from two unrelated registered classes - else Undecided."""
    top = [st for st in mod.tree.body if isinstance(st, ast.FunctionDef)]
    for g in top:
        sd = [d for d in g.decorator_list if (attr_chain(d) or '').split('.')[-1] == 'singledispatch']
        if not sd:
            continue
        ps = _pos_params(g)
        if not ps or g.args.vararg or g.args.kwarg or g.args.kwonlyargs:
            raise Undecided(f'{g.name}: singledispatch generic function with an unusual signature')
        regs: T.List[T.Tuple[str, ast.FunctionDef]] = []
        understood = 0
        for f in top:
            for d in f.decorator_list:
                if isinstance(d, ast.Call) and attr_chain(d.func) == f'{g.name}.register' and len(d.args) == 1 and not d.keywords \
                        and isinstance(d.args[0], ast.Name):
                    regs.append((d.args[0].id, f))
                    understood += 1
                elif attr_chain(d) == f'{g.name}.register' and f.args.args and isinstance(f.args.args[0].annotation, ast.Name):
                    regs.append((f.args.args[0].annotation.id, f))
                    understood += 1
        uses = 0
        for rel in ctx.repo.py_files('mesonbuild'):
            src = mod.src if rel == mod.rel else ctx.repo.read(rel)
            for w in ('.register', '.dispatch', '.registry'):
                uses += src.count(g.name + w)
        if uses != understood:
            raise Undecided(f'{g.name}: singledispatch generic function with {uses} uses of register/dispatch/registry, {understood} of them '
                            'module-level `@register(Class)` decorators in its own module')
        supers: T.Dict[str, T.Set[str]] = {}
        for cname, _ in regs:
            if cname in _BUILTIN_SUPERS:
                supers[cname] = set(_BUILTIN_SUPERS[cname]) | {cname}
            elif mod.has_cls(cname):
                supers[cname] = {c.name for _, c in ctx.repo.mro(mod, mod.cls(cname))}
            else:
                raise Undecided(f'{g.name}: singledispatch implementation registered for `{cname}`, which is not a class of the module')
        if len(supers) != len(regs):
            raise Undecided(f'{g.name}: two singledispatch implementations registered for one class')
        names = set(supers)
        for cname, cnode in mod.classes().items():
            mine = [n for n in names if n in {c.name for _, c in ctx.repo.mro(mod, cnode)}]
            for x in mine:
                for y in mine:
                    if x not in supers[y] and y not in supers[x]:
                        raise Undecided(f'{g.name}: class {cname} inherits from the unrelated registered classes {x} and {y}')
        regs.sort(key=lambda r: -len(supers[r[0]]))
        for _, f in regs:
            fp = _pos_params(f)
            if len(fp) != len(ps) or f.args.vararg or f.args.kwarg or f.args.kwonlyargs:
                raise Undecided(f'{g.name}: singledispatch implementation {f.name} has another signature')
        arms: T.List[ast.stmt] = []
        for cname, f in regs:
            arms.append(ast.If(
                test=ast.Call(func=ast.Name(id='isinstance', ctx=ast.Load()), args=[ast.Name(id=ps[0], ctx=ast.Load()), ast.Name(id=cname, ctx=ast.Load())], keywords=[]),
                body=[ast.Return(value=ast.Call(func=ast.Name(id=f.name, ctx=ast.Load()), args=[ast.Name(id=p, ctx=ast.Load()) for p in ps], keywords=[]))],
                orelse=[]))
        for a in arms:
            ast.fix_missing_locations(ast.copy_location(a, g.body[0]))
        g.body[:0] = arms
        g.decorator_list = [d for d in g.decorator_list if d not in sd]
        for _, f in regs:       # the registration is now expressed by the arms: the implementation is a plain helper
            f.decorator_list = [d for d in f.decorator_list if attr_chain(d.func if isinstance(d, ast.Call) else d) != f'{g.name}.register']


def _m(ctx: RuleCtx, rel: str) -> Module:
    """The module in the pack's normal form (see above)."""
    mod = ctx.repo.module(rel)
    if not getattr(mod, '_c08_normal', False):
        _lower_singledispatch(ctx, mod)     # may raise Undecided: then for every rule that reads the module
        mod._c08_normal = True  # type: ignore[attr-defined]
        _Normalise(ctx.repo, mod).visit(mod.tree)
        _fold_named_constants(mod)
        _unroll_constant_tables(mod)
        for f in mod.funcs().values():
            _select_callee(f.body)
            _statement_forms(f)
            _test_named_conditions(f.body)
        mod._parents = None
    return mod


def _m_funcs(ctx: RuleCtx, mod: Module, quals: T.Iterable[str]) -> Module:
    """The per-function normal forms of `_m` applied to the named functions only (for a big module of which a rule reads a
    few functions; the module-wide forms - named constants, constant tables - are not applied)."""
    if getattr(mod, '_c08_normal', False):
        return mod
    done: T.Set[str] = mod.__dict__.setdefault('_c08_normal_funcs', set())
    nrm = _Normalise(ctx.repo, mod, light=True)
    for q in quals:
        if q in done:
            continue
        done.add(q)
        f = mod.func(q)
        nrm.generic_visit(f)
        _select_callee(f.body)
        _statement_forms(f)
        _test_named_conditions(f.body)
    mod._parents = None  # type: ignore[attr-defined]
    return mod


class _Rename(ast.NodeTransformer):
    def __init__(self, m: T.Dict[str, str]):
        self.m = m

    def visit_Name(self, n: ast.Name) -> ast.AST:
        if n.id in self.m:
            return ast.copy_location(ast.Name(id=self.m[n.id], ctx=n.ctx), n)
        return n

    def visit_ExceptHandler(self, n: ast.ExceptHandler) -> ast.AST:
        self.generic_visit(n)
        if n.name in self.m:
            n.name = self.m[n.name]
        return n


def _renamed(stmts: T.Sequence[ast.AST], m: T.Dict[str, str], outer: T.Optional[ast.AST] = None) -> T.List[T.Any]:
    """Deep copy of a block with canonical names; with `outer` (the enclosing function) single-definition locals bound outside
    the block to call-free expressions (`stored = config['options']`) are substituted first (unique reaching definition)."""
    out = [copy.deepcopy(s) for s in stmts]
    if outer is not None:
        inside = {id(n) for s in stmts for n in ast.walk(s)}
        stored = {n.id for s in stmts for n in ast.walk(s) if isinstance(n, ast.Name) and isinstance(n.ctx, (ast.Store, ast.Del))}
        env = {}
        for k, v in _single_defs(outer).items():
            if id(v) not in inside and k not in stored and k not in m and _transparent(v) and not isinstance(v, (ast.List, ast.Dict, ast.Set, ast.ListComp, ast.Constant)):
                env[k] = v
        for _ in range(2):
            env = {k: _subst(v, {a: b for a, b in env.items() if a != k}) for k, v in env.items()}
        out = [_Sub(env).visit(s) for s in out]
    return [_Rename(m).visit(s) for s in out]


class _Sub(ast.NodeTransformer):
    """Substitute loaded names by the expressions that reach them on the current path."""
    def __init__(self, env: T.Dict[str, ast.AST]):
        self.env = env

    def visit_Name(self, n: ast.Name) -> ast.AST:
        if isinstance(n.ctx, ast.Load) and n.id in self.env:
            return copy.deepcopy(self.env[n.id])
        return n


def _subst(e: ast.AST, env: T.Dict[str, ast.AST]) -> ast.AST:
    return _Sub(env).visit(copy.deepcopy(e))


def _parent_map(root: ast.AST) -> T.Dict[ast.AST, T.Tuple[ast.AST, str]]:
    pm: T.Dict[ast.AST, T.Tuple[ast.AST, str]] = {}
    for n in ast.walk(root):
        for field, val in ast.iter_fields(n):
            if isinstance(val, list):
                for x in val:
                    if isinstance(x, ast.AST):
                        pm[x] = (n, field)
            elif isinstance(val, ast.AST):
                pm[val] = (n, field)
    return pm


def _stmt_of(pm: T.Dict[ast.AST, T.Tuple[ast.AST, str]], node: ast.AST) -> ast.stmt:
    while not isinstance(node, ast.stmt):
        node = pm[node][0]
    return node


def _contexts(pm: T.Dict[ast.AST, T.Tuple[ast.AST, str]], node: ast.AST, kinds: T.Tuple[type, ...]) -> T.Iterator[T.Tuple[ast.AST, str]]:
    """(ancestor, field through which `node` hangs below it) for ancestors of the given kinds, innermost first.
    A statement in an except-handler body reports its Try with field 'handlers'."""
    cur = node
    while cur in pm:
        par, field = pm[cur]
        if isinstance(par, ast.ExceptHandler):
            cur = par
            continue
        if isinstance(par, kinds):
            yield par, field
        cur = par


def _covers(h: ast.ExceptHandler, names: T.Set[str]) -> bool:
    if h.type is None:
        return True
    ts = h.type.elts if isinstance(h.type, ast.Tuple) else [h.type]
    return any((attr_chain(t) or '').split('.')[-1] in names for t in ts)


def _always_reraises(h: ast.ExceptHandler) -> bool:
    ps = paths.enumerate_paths(h.body)
    return bool(ps) and all(p.outcome == 'raise' for p in ps)


def _helper_of(mod: Module, cls: T.Optional[str], call: ast.Call) -> T.Optional[ast.FunctionDef]:
    """The repository helper a bare call statement refers to: `self.m(...)` of the same class or `f(...)` of the same module."""
    f = call.func
    if isinstance(f, ast.Attribute) and isinstance(f.value, ast.Name) and f.value.id in ('self', 'cls') and cls is not None:
        return T.cast(ast.FunctionDef, mod.methods(cls).get(f.attr))
    if isinstance(f, ast.Attribute) and isinstance(f.value, ast.Name) and cls is not None and f.value.id == cls.rsplit('.', 1)[-1]:
        m = mod.methods(cls).get(f.attr)       # Class.static_helper(...)
        if m is not None and 'staticmethod' in [attr_chain(d) for d in m.decorator_list]:
            return T.cast(ast.FunctionDef, m)
    if isinstance(f, ast.Attribute) and isinstance(f.value, ast.Name) and f.value.id in _LOCAL_TYPES:
        return T.cast(ast.FunctionDef, mod.methods(_LOCAL_TYPES[f.value.id]).get(f.attr))
    if isinstance(f, ast.Name) and f.id in _CLOSURES:
        return _CLOSURES[f.id]
    if isinstance(f, ast.Name) and mod.has_func(f.id):
        return T.cast(ast.FunctionDef, mod.func(f.id))
    if isinstance(f, ast.Attribute) and isinstance(f.value, ast.Call) and cls is not None:
        # `self.accessor(..).m(..)`: the classes named by the accessor's return annotation all inherit ONE definition of m
        acc = f.value.func
        if isinstance(acc, ast.Attribute) and isinstance(acc.value, ast.Name) and acc.value.id == 'self' and acc.attr in mod.methods(cls):
            return _one_method(mod, _annotation_classes(mod, mod.methods(cls)[acc.attr].returns, 0), f.attr)
    if isinstance(f, ast.Attribute) and isinstance(f.value, ast.Name) and f.value.id in _LOCAL_CLASSES:
        return _one_method(mod, _LOCAL_CLASSES[f.value.id], f.attr)
    return None


def _mapping_annotation(mod: Module, ann: T.Optional[ast.AST], depth: int = 0) -> T.Optional[T.Tuple[ast.AST, ast.AST]]:
    """(key annotation, value annotation) of `Dict[K, V]` / `Mapping[K, V]` / ..., through quoting and module-level aliases."""
    if ann is None or depth > 4:
        return None
    if isinstance(ann, ast.Constant) and isinstance(ann.value, str):
        try:
            return _mapping_annotation(mod, ast.parse(ann.value, mode='eval').body, depth + 1)
        except SyntaxError:
            return None
    if isinstance(ann, ast.Name) and not mod.has_cls(ann.id) and mod.has_assign(ann.id):
        return _mapping_annotation(mod, mod.assign_value(ann.id), depth + 1)
    if isinstance(ann, ast.Subscript) and (attr_chain(ann.value) or '').split('.')[-1] in ('Dict', 'dict', 'Mapping', 'MutableMapping', 'OrderedDict') \
            and isinstance(ann.slice, ast.Tuple) and len(ann.slice.elts) == 2:
        return ann.slice.elts[0], ann.slice.elts[1]
    return None


def _local_class_sets(mod: Module, cls: T.Optional[str], fn: ast.AST) -> T.Dict[str, T.Set[str]]:
    """Names of fn with ONE binding whose declared type names classes of this module: an annotated parameter, the targets of
    `for k, v in P.items()` over a parameter annotated as a mapping, a local bound once to `self.accessor(..)` with a return
    annotation.  (The annotation is the closed-world statement of which objects arrive; see ASSUMPTIONS.)"""
    nbind: T.Dict[str, int] = {}
    for n in ast.walk(fn):
        if isinstance(n, ast.Name) and isinstance(n.ctx, (ast.Store, ast.Del)):
            nbind[n.id] = nbind.get(n.id, 0) + 1
    out: T.Dict[str, T.Set[str]] = {}
    pann = {a.arg: a.annotation for a in fn.args.posonlyargs + fn.args.args if a.arg not in nbind}  # type: ignore[attr-defined]
    for name, ann in pann.items():
        cs = _annotation_classes(mod, ann, 0)
        if cs and name not in ('self', 'cls'):
            out[name] = cs
    for st in ast.walk(fn):
        if isinstance(st, ast.For):
            il = _items_loop(st)
            if il is not None and isinstance(il[2], ast.Name) and il[2].id in pann:
                kv = _mapping_annotation(mod, pann[il[2].id])
                for name, ann in zip(il[:2], kv or ()):
                    cs = _annotation_classes(mod, ann, 0)
                    if cs and nbind.get(name) == 1:
                        out[name] = cs
        elif isinstance(st, ast.Assign) and len(st.targets) == 1 and isinstance(st.targets[0], ast.Name) and nbind.get(st.targets[0].id) == 1 \
                and isinstance(st.value, ast.Call) and isinstance(st.value.func, ast.Attribute) and isinstance(st.value.func.value, ast.Name) \
                and st.value.func.value.id == 'self' and cls is not None and st.value.func.attr in mod.methods(cls):
            cs = _annotation_classes(mod, mod.methods(cls)[st.value.func.attr].returns, 0)
            if cs:
                out[st.targets[0].id] = cs
    return out


def _one_method(mod: Module, classes: T.Optional[T.Set[str]], name: str) -> T.Optional[ast.FunctionDef]:
    """The single definition of method `name` that every class of the set inherits (None when there are several or one lacks it)."""
    if not classes:
        return None
    res = [mod.repo.find_method(mod, mod.cls(c), name) for c in sorted(classes)]
    if any(r is None for r in res) or len({id(r[2]) for r in res if r is not None}) != 1:
        return None
    # no subclass (in the module) of these classes may override it either
    target = res[0][2]  # type: ignore[index]
    for cname, cnode in mod.classes().items():
        if {c.name for _, c in mod.repo.mro(mod, cnode)} & classes:
            r = mod.repo.find_method(mod, cnode, name)
            if r is None or r[2] is not target:
                return None
    return T.cast(ast.FunctionDef, target)


def _annotation_classes(mod: Module, ann: T.Optional[ast.AST], depth: int) -> T.Optional[T.Set[str]]:
    """The classes of the module a return annotation names: a class, a quoted class, a module-level alias of these, a Union
    of these; None when any part is something else (Optional, a foreign class, a type variable ...)."""
    if ann is None or depth > 4:
        return None
    if isinstance(ann, ast.Constant) and isinstance(ann.value, str):
        try:
            return _annotation_classes(mod, ast.parse(ann.value, mode='eval').body, depth + 1)
        except SyntaxError:
            return None
    if isinstance(ann, ast.Name):
        if mod.has_cls(ann.id):
            return {ann.id}
        return _annotation_classes(mod, mod.assign_value(ann.id), depth + 1) if mod.has_assign(ann.id) else None
    if isinstance(ann, ast.Subscript) and (attr_chain(ann.value) or '').split('.')[-1] == 'Union':
        elts = ann.slice.elts if isinstance(ann.slice, ast.Tuple) else [ann.slice]
        out: T.Set[str] = set()
        for e in elts:
            sub = _annotation_classes(mod, e, depth + 1)
            if sub is None:
                return None
            out |= sub
        return out
    if isinstance(ann, ast.BinOp) and isinstance(ann.op, ast.BitOr):
        l, r = _annotation_classes(mod, ann.left, depth + 1), _annotation_classes(mod, ann.right, depth + 1)
        return None if l is None or r is None else l | r
    return None


_CLOSURES: T.Dict[str, ast.FunctionDef] = {}
_LOCAL_CLASSES: T.Dict[str, T.Set[str]] = {}      # name with one binding -> classes of the module its annotation names (see _local_class_sets)
_LOCAL_TYPES: T.Dict[str, str] = {}      # local name -> class of the same module it is an instance of (all its non-None bindings are `Cls(...)`)


def _local_types(mod: Module, fn: ast.AST) -> T.Dict[str, str]:
    binds: T.Dict[str, T.List[ast.AST]] = {}
    for st in ast.walk(fn):
        if isinstance(st, ast.Assign) and len(st.targets) == 1 and isinstance(st.targets[0], ast.Name):
            binds.setdefault(st.targets[0].id, []).append(st.value)
        elif isinstance(st, ast.AnnAssign) and isinstance(st.target, ast.Name) and st.value is not None:
            binds.setdefault(st.target.id, []).append(st.value)
        elif isinstance(st, (ast.For, ast.With, ast.AugAssign, ast.NamedExpr, ast.comprehension)):
            for n in ast.walk(getattr(st, 'target', None) or ast.Pass()):
                if isinstance(n, ast.Name):
                    binds.setdefault(n.id, []).append(ast.Pass())
    out: T.Dict[str, str] = {}
    for name, vals in binds.items():
        real = [v for v in vals if not (isinstance(v, ast.Constant) and v.value is None)]
        if real and all(isinstance(v, ast.Call) and isinstance(v.func, ast.Name) and mod.has_cls(v.func.id) for v in real) \
                and len({v.func.id for v in real}) == 1:  # type: ignore[attr-defined]
            out[name] = real[0].func.id  # type: ignore[attr-defined]
    # parameters annotated with a class of the module
    for a in fn.args.posonlyargs + fn.args.args:  # type: ignore[attr-defined]
        ann = attr_chain(a.annotation) if a.annotation is not None else None
        if isinstance(a.annotation, ast.Constant) and isinstance(a.annotation.value, str):
            ann = a.annotation.value
        if ann and mod.has_cls(ann) and a.arg not in binds and a.arg not in ('self', 'cls'):
            out[a.arg] = ann
    return out


def _has_return(st: ast.AST) -> bool:
    return any(isinstance(n, ast.Return) for n in walk_no_nested(st))


def _elim_returns(stmts: T.List[ast.stmt], k: T.Callable[[T.Optional[ast.AST]], T.List[ast.stmt]], budget: T.List[int]) -> T.Optional[T.List[ast.stmt]]:
    """Structured return elimination in continuation-passing style: every `return e` becomes k(e) (the caller's statement with
    the call replaced by e), falling off the end becomes k(None); the rest of a block after an `if` that may return is
    pushed into its branches.  Returns inside loops/try/with are not handled (None)."""
    if not stmts:
        return k(None)
    st, rest = stmts[0], stmts[1:]
    if isinstance(st, ast.Return):
        return k(st.value)
    if isinstance(st, ast.Raise):
        return [st]
    if not _has_return(st):
        tail = _elim_returns(rest, k, budget)
        return None if tail is None else [st] + tail
    if isinstance(st, ast.If):
        budget[0] -= 1
        if budget[0] < 0:
            return None
        b = _elim_returns(st.body + rest, k, budget)
        o = _elim_returns(st.orelse + rest, k, budget)
        if b is None or o is None:
            return None
        return [ast.copy_location(ast.If(test=st.test, body=b or [ast.Pass()], orelse=o), st)]
    return None


def _instantiate(callee: ast.FunctionDef, call: ast.Call, tag: str,
                 k: T.Optional[T.Callable[[T.Optional[ast.AST]], T.List[ast.stmt]]] = None) -> T.Optional[T.List[ast.stmt]]:
    """Body of `callee` with its parameters replaced by the call's arguments, its locals renamed apart and its returns replaced
    by the continuation `k` (default: a bare call statement - the value is dropped); None when the helper is not of a form
    that can be analysed in place."""
    a = callee.args
    if a.vararg or a.kwarg or a.kwonlyargs or any(isinstance(x, ast.Starred) for x in call.args) or any(kw.arg is None for kw in call.keywords):
        return None
    decos = [attr_chain(d) for d in callee.decorator_list]
    if isinstance(callee, ast.AsyncFunctionDef) or any(d not in ('staticmethod', 'classmethod') for d in decos):
        return None
    params = [x.arg for x in a.posonlyargs + a.args]
    recv_env: T.Dict[str, ast.AST] = {}
    if params and params[0] in ('self', 'cls') and isinstance(call.func, ast.Attribute) and 'staticmethod' not in decos:
        if isinstance(call.func.value, ast.Name) and call.func.value.id not in ('self', 'cls') and \
                (call.func.value.id in _LOCAL_TYPES or call.func.value.id in _LOCAL_CLASSES):
            recv_env[params[0]] = call.func.value        # method of another object of this module: `self` is that object
        elif isinstance(call.func.value, ast.Call):
            recv_env[params[0]] = call.func.value        # `self.accessor(k).m(..)`: `self` is what the (primitive) accessor names
        params = params[1:]
    body = list(callee.body)
    if body and isinstance(body[0], ast.Expr) and isinstance(body[0].value, ast.Constant) and isinstance(body[0].value.value, str):
        body = body[1:]
    for st in body:
        for n in walk_no_nested(st):
            if isinstance(n, (ast.Yield, ast.YieldFrom, ast.Global, ast.Nonlocal, ast.FunctionDef, ast.Lambda)):
                return None
    given: T.Dict[str, ast.AST] = {}
    if len(call.args) > len(params):
        return None
    for p_, x in zip(params, call.args):
        given[p_] = x
    for kw in call.keywords:
        if kw.arg not in params or kw.arg in given:
            return None
        given[kw.arg] = kw.value  # type: ignore[index]
    defaults = dict(zip(params[len(params) - len(a.defaults):], a.defaults)) if a.defaults else {}
    for p_ in params:
        if p_ not in given:
            if p_ not in defaults:
                return None
            given[p_] = defaults[p_]
    stored = {n.id for st in body for n in ast.walk(st) if isinstance(n, ast.Name) and isinstance(n.ctx, (ast.Store, ast.Del))}
    pre: T.List[ast.stmt] = []
    env: T.Dict[str, ast.AST] = dict(recv_env)
    ren: T.Dict[str, str] = {x: f'{x}__{tag}' for x in stored}
    for p_, x in given.items():
        simple = attr_chain(x) is not None or isinstance(x, ast.Constant)
        if simple and p_ not in stored:
            env[p_] = x
        else:
            ren[p_] = f'{p_}__{tag}'
            pre.append(ast.copy_location(ast.Assign(targets=[ast.Name(id=ren[p_], ctx=ast.Store())], value=copy.deepcopy(x), lineno=call.lineno), call))
    inst = [_Sub(env).visit(s_) for s_ in _renamed(body, ren)]
    out = _elim_returns(inst, k or (lambda v: []), [6])
    if out is None:
        return None
    return [ast.fix_missing_locations(x) for x in pre + out]


def _single_helper_call(mod: Module, cls: T.Optional[str], st: ast.stmt, keep: T.Set[str]) -> T.Optional[T.Tuple[ast.Call, ast.FunctionDef]]:
    """The helper call in a simple statement `x = h(..)`, `x op= h(..)`, `x = h(..) or x`, `return h(..)`, `h(..)` when it is the
    only call of the statement (so evaluating the helper's body first does not reorder anything observable)."""
    if not isinstance(st, (ast.Expr, ast.Assign, ast.AnnAssign, ast.AugAssign, ast.Return)) or getattr(st, 'value', None) is None:
        return None
    calls = [c for c in ast.walk(st.value) if isinstance(c, ast.Call)]  # type: ignore[arg-type]
    if len(calls) == 2 and isinstance(calls[0].func, ast.Attribute) and calls[0].func.value is calls[1] and call_method(calls[1]) in keep \
            and all(attr_chain(a) is not None for a in calls[1].args) and not calls[1].keywords:
        # `self.accessor(k).m(..)`: the receiver is named by an accessor the rule treats as a primitive (its text denotes the object)
        calls = calls[:1]
    if len(calls) != 1 or call_method(calls[0]) in keep:
        return None
    if isinstance(st, ast.Assign) and not all(isinstance(t, ast.Name) for t in st.targets):
        return None
    v = st.value  # type: ignore[union-attr]
    direct = v is calls[0] or (isinstance(v, ast.BoolOp) and calls[0] in v.values and all(isinstance(o, (ast.Name, ast.Constant)) for o in v.values if o is not calls[0])) \
        or (isinstance(v, ast.BinOp) and calls[0] in (v.left, v.right) and all(isinstance(o, (ast.Name, ast.Constant)) for o in (v.left, v.right) if o is not calls[0]))
    if not direct:
        return None        # the helper's value is only an operand of something else: leave the call opaque
    callee = _helper_of(mod, cls, calls[0])
    return (calls[0], callee) if callee is not None else None


class _ReplaceNode(ast.NodeTransformer):
    def __init__(self, old: ast.AST, new: ast.AST):
        self.old, self.new = old, new

    def visit(self, node: ast.AST) -> ast.AST:
        if node is self.old:
            return self.new
        return super().visit(node)


def _inline_helpers(mod: Module, cls: T.Optional[str], stmts: T.List[ast.stmt], keep: T.Iterable[str] = (), depth: int = 2,
                    _n: T.Optional[T.List[int]] = None) -> T.List[ast.stmt]:
    """Analyse extracted blocks where they are called: a simple statement whose only call is a call of a same-class /
    same-module helper is replaced by the helper's instantiated body, every `return e` of the helper continuing with the
    statement in which the call is replaced by e.  Calls the rules treat as primitives are listed in `keep`."""
    keep = set(keep)
    cnt = _n if _n is not None else [0]
    out: T.List[ast.stmt] = []
    for st in stmts:
        hc = _single_helper_call(mod, cls, st, keep) if depth > 0 else None
        if hc is not None:
            call, callee = hc
            cnt[0] += 1
            if isinstance(st, ast.Expr):
                k = None
            else:
                def k(v: T.Optional[ast.AST], st: ast.stmt = st, call: ast.Call = call) -> T.List[ast.stmt]:
                    st2 = copy.deepcopy(st)
                    # locate the copied call by position in a parallel walk
                    olds, news = list(ast.walk(st)), list(ast.walk(st2))
                    tgt = news[[i for i, o in enumerate(olds) if o is call][0]]
                    val = copy.deepcopy(v) if v is not None else ast.Constant(value=None)
                    return [ast.fix_missing_locations(_ReplaceNode(tgt, val).visit(st2))]
            body = _instantiate(callee, call, f'h{cnt[0]}', k)
            if body is not None:
                out.extend(_inline_helpers(mod, cls, body, keep | {callee.name}, depth - 1, cnt))
                continue
        if isinstance(st, (ast.With, ast.AsyncWith)) and depth > 0 and len(st.items) == 1 and st.items[0].optional_vars is None \
                and isinstance(st.items[0].context_expr, ast.Call) and call_method(st.items[0].context_expr) not in keep:
            # `with self._cm(args): BODY` where _cm is a @contextmanager helper `pre; try: yield finally: F` (or `pre; yield; post`)
            #   ->  `pre; try: BODY finally: F`  (the bracket the helper abbreviates)
            cm_call = st.items[0].context_expr
            callee = _helper_of(mod, cls, cm_call)
            if callee is not None and [(attr_chain(d) or '').split('.')[-1] for d in callee.decorator_list] == ['contextmanager']:
                ys = [n for n in ast.walk(callee) if isinstance(n, (ast.Yield, ast.YieldFrom))]
                ystmts = [b for blk in _blocks(callee.body) for b in blk if isinstance(b, ast.Expr) and isinstance(b.value, ast.Yield) and b.value.value is None]
                if len(ys) == 1 and len(ystmts) == 1:
                    cnt[0] += 1
                    fake = copy.deepcopy(callee)
                    fake.decorator_list = []
                    for blk in _blocks(fake.body):
                        for j, b in enumerate(blk):
                            if isinstance(b, ast.Expr) and isinstance(b.value, ast.Yield):
                                blk[j] = ast.copy_location(ast.Expr(value=ast.Name(id='__WITH_BODY__', ctx=ast.Load())), b)
                    inst = _instantiate(fake, cm_call, f'h{cnt[0]}')
                    if inst is not None:
                        wbody = _inline_helpers(mod, cls, st.body, keep, depth, cnt)
                        done = False
                        for blk in _blocks(inst):
                            for j, b in enumerate(blk):
                                if isinstance(b, ast.Expr) and isinstance(b.value, ast.Name) and b.value.id == '__WITH_BODY__':
                                    blk[j:j + 1] = wbody
                                    done = True
                                    break
                            if done:
                                break
                        if done:
                            out.extend(_inline_helpers(mod, cls, inst, keep | {callee.name}, depth - 1, cnt))
                            continue
        if isinstance(st, ast.If) and depth > 0:
            # `if h(..):` / `if not h(..):` - the helper's body runs first, each of its results selects the branch
            t = st.test.operand if isinstance(st.test, ast.UnaryOp) and isinstance(st.test.op, ast.Not) else st.test
            callee = _helper_of(mod, cls, t) if isinstance(t, ast.Call) and call_method(t) not in keep and \
                not any(isinstance(c, ast.Call) for a_ in list(t.args) + [k_.value for k_ in t.keywords] for c in ast.walk(a_)) else None
            if callee is not None:
                cnt[0] += 1
                neg = t is not st.test
                ib = _inline_helpers(mod, cls, st.body, keep, depth, cnt)
                io = _inline_helpers(mod, cls, st.orelse, keep, depth, cnt)

                def kif(v: T.Optional[ast.AST], st: ast.If = st, neg: bool = neg, ib: T.List[ast.stmt] = ib, io: T.List[ast.stmt] = io) -> T.List[ast.stmt]:
                    val: ast.AST = copy.deepcopy(v) if v is not None else ast.Constant(value=None)
                    if neg:
                        val = ast.UnaryOp(op=ast.Not(), operand=val)
                    return [ast.fix_missing_locations(ast.copy_location(ast.If(test=val, body=copy.deepcopy(ib), orelse=copy.deepcopy(io)), st))]
                body = _instantiate(callee, t, f'h{cnt[0]}', kif)
                if body is not None:
                    out.extend(_inline_helpers(mod, cls, body, keep | {callee.name}, depth - 1, cnt))
                    continue
        if isinstance(st, (ast.If, ast.For, ast.AsyncFor, ast.While, ast.With, ast.AsyncWith, ast.Try)):
            st = copy.copy(st)
            for field in ('body', 'orelse', 'finalbody'):
                sub = getattr(st, field, None)
                if isinstance(sub, list) and sub:
                    setattr(st, field, _inline_helpers(mod, cls, sub, keep, depth, cnt))
            if isinstance(st, ast.Try):
                hs = []
                for h in st.handlers:
                    h = copy.copy(h)
                    h.body = _inline_helpers(mod, cls, h.body, keep, depth, cnt)
                    hs.append(h)
                st.handlers = hs
        out.append(st)
    return out


def _inlined(mod: Module, qn: str, keep: T.Iterable[str] = ()) -> ast.FunctionDef:
    """Copy of function `qn` in which extracted helper blocks are analysed in place."""
    fn = mod.func(qn)
    cls = qn.rsplit('.', 1)[0] if '.' in qn else None
    fn2 = copy.copy(fn)
    _CLOSURES.clear()
    _CLOSURES.update({st.name: st for st in ast.walk(fn) if isinstance(st, ast.FunctionDef) and st is not fn})
    _LOCAL_TYPES.clear()
    _LOCAL_TYPES.update(_local_types(mod, fn))
    _LOCAL_CLASSES.clear()
    _LOCAL_CLASSES.update({k: v for k, v in _local_class_sets(mod, cls, fn).items() if k not in _LOCAL_TYPES})
    try:
        fn2.body = _inline_helpers(mod, cls, fn.body, set(keep) | {fn.name})
    finally:
        _CLOSURES.clear()
        _LOCAL_TYPES.clear()
        _LOCAL_CLASSES.clear()
    _statement_forms(fn2)       # statement normal forms again: the instantiated helper bodies may introduce `x = a if c else b` etc.
    return T.cast(ast.FunctionDef, fn2)


def _single_defs(fn: ast.AST) -> T.Dict[str, ast.AST]:
    """Locals with exactly one binding in fn, that binding being `x = e` / `x: T = e` outside any loop."""
    count: T.Dict[str, int] = {}
    val: T.Dict[str, ast.AST] = {}

    def visit(stmts: T.List[ast.stmt], in_loop: bool) -> None:
        for st in stmts:
            if isinstance(st, (ast.FunctionDef, ast.AsyncFunctionDef, ast.ClassDef)):
                continue
            simple = None
            if isinstance(st, ast.Assign) and len(st.targets) == 1 and isinstance(st.targets[0], ast.Name):
                simple = (st.targets[0].id, st.value)
            elif isinstance(st, ast.AnnAssign) and isinstance(st.target, ast.Name) and st.value is not None:
                simple = (st.target.id, st.value)
            if simple is not None:
                count[simple[0]] = count.get(simple[0], 0) + (1 if not in_loop else 2)
                val[simple[0]] = simple[1]
            else:
                hdr = [st] if not hasattr(st, 'body') else [getattr(st, 'target', None), *[i.optional_vars for i in getattr(st, 'items', [])]]
                for h in hdr:
                    if h is None:
                        continue
                    for n in walk_no_nested(h):
                        if isinstance(n, ast.Name) and isinstance(n.ctx, (ast.Store, ast.Del)):
                            count[n.id] = count.get(n.id, 0) + 2
            loop = in_loop or isinstance(st, (ast.For, ast.AsyncFor, ast.While))
            for field in ('body', 'orelse', 'finalbody'):
                sub = getattr(st, field, None)
                if isinstance(sub, list) and sub and isinstance(sub[0], ast.stmt):
                    visit(sub, loop)
            for h in getattr(st, 'handlers', []):
                visit(h.body, loop)
    visit(fn.body, False)  # type: ignore[attr-defined]
    params = {a.arg for a in fn.args.posonlyargs + fn.args.args + fn.args.kwonlyargs}  # type: ignore[attr-defined]
    out = {k: v for k, v in val.items() if count.get(k) == 1 and k not in params}
    # `if c: x = a  else: x = b` (the statement form of `x = a if c else b`) is one definition of x
    for st in ast.walk(fn):
        if isinstance(st, ast.If) and len(st.body) == 1 and len(st.orelse) == 1:
            a, b = st.body[0], st.orelse[0]
            if isinstance(a, ast.Assign) and isinstance(b, ast.Assign) and len(a.targets) == 1 and len(b.targets) == 1 and isinstance(a.targets[0], ast.Name) \
                    and isinstance(b.targets[0], ast.Name) and a.targets[0].id == b.targets[0].id and count.get(a.targets[0].id) == 2 \
                    and a.targets[0].id not in params:
                out[a.targets[0].id] = ast.IfExp(test=st.test, body=a.value, orelse=b.value)
    return out


def _resolve_deep(fn: ast.AST, e: ast.AST, rounds: int = 3) -> ast.AST:
    """Substitute single-definition locals (reaching definition is unique) into e."""
    defs = _single_defs(fn)
    for _ in range(rounds):
        if not (names_in(e) & set(defs)):
            break
        e = _subst(e, defs)
    return e


def _pos_params(fn: ast.AST) -> T.List[str]:
    return [a.arg for a in fn.args.posonlyargs + fn.args.args if a.arg not in ('self', 'cls')]  # type: ignore[attr-defined]


def _items_loop(loop: ast.For, over: T.Optional[str] = None) -> T.Optional[T.Tuple[str, str, ast.AST]]:
    """`for a, b in X.items()` -> (a, b, X)."""
    it = loop.iter
    if not (isinstance(it, ast.Call) and isinstance(it.func, ast.Attribute) and it.func.attr == 'items' and not it.args):
        return None
    t = loop.target
    if not (isinstance(t, ast.Tuple) and len(t.elts) == 2 and all(isinstance(e, ast.Name) for e in t.elts)):
        return None
    if over is not None and norm(it.func.value) != over:
        return None
    return t.elts[0].id, t.elts[1].id, it.func.value  # type: ignore[attr-defined]


def _run_table(ctx: RuleCtx, mod: Module, qn: str, fn: ast.AST, tab: tables.Table, sem: T.Dict[Atom, str],
               ref: T.Callable[[T.Dict[str, bool]], T.Optional[str]],
               judge: T.Callable[[tables.Row, str], T.Optional[str]], extra: T.Iterable[Atom] = ()) -> None:
    """Compare every row firing in every world of the semantic atoms with the reference.
    judge(row, want) -> None when the row realises `want`, else a description of what it does instead."""
    unknown = [a for a in tab.atoms() if a not in sem]
    if unknown:
        raise Undecided(f'{qn}: atoms outside the reference vocabulary: {unknown}')
    bad: T.Dict[str, T.Tuple[tables.Row, str, str, T.Dict[str, bool]]] = {}
    good: T.Dict[str, str] = {}
    n = 0
    for w in tab.worlds(extra):
        v: T.Dict[str, bool] = {}
        clash = False
        for a, x in w.items():
            k = sem[a]
            neg = k.startswith('!')
            k = k.lstrip('!')
            x = (not x) if neg else x
            if k in v and v[k] != x:
                clash = True
            v[k] = x
        if clash:
            continue
        want = ref(v)
        if want is None:
            continue
        rows = tab.fire(w)
        if not rows:
            raise Undecided(f'{qn}: no row fires for {v}')
        n += 1
        for r in rows:
            why = judge(r, want)
            if why is None:
                good.setdefault(repr(r), want)
            else:
                bad.setdefault(repr(r), (r, why, want, v))
    for key, (row, why, want, v) in bad.items():
        node = _row_node(row, fn)
        ctx.violation(mod, qn, _row_construct(row), f'for {_fmt(v)} the reference requires `{want}`, but the path {why}', node)
    for key, want in good.items():
        if key not in bad:
            ctx.ok(f'{qn}: row `{short(key, 150)}` realises `{want}`')
    ctx.note(f'{qn}: {len(tab.rows)} rows compared on {n} worlds')


def _fmt(v: T.Dict[str, bool]) -> str:
    return ', '.join(f'{k}={"T" if x else "F"}' for k, x in v.items())


def _row_node(row: tables.Row, fn: ast.AST) -> ast.AST:
    for ev in reversed(row.path.events):
        if ev.node is not None and ev.kind == 'stmt':
            return ev.node
    return row.path.events[-1].node if row.path.events and row.path.events[-1].node is not None else fn


def _row_construct(row: tables.Row) -> str:
    """Position-free identity of a row: its effect list (or its conditions when it has no effect)."""
    if row.effects:
        return '; '.join(row.effects)
    return 'no effect when ' + (' & '.join(('' if v else 'not ') + repr(a) for a, v in row.conds.items()) or 'always')


TRANSPARENT_CALLS = {'get_value_object', 'join', 'type', 'len', 'bool', 'str', 'keys'}


def _transparent(v: ast.AST) -> bool:
    for n in ast.walk(v):
        if isinstance(n, ast.Call) and call_method(n) not in TRANSPARENT_CALLS:
            return False
        if isinstance(n, (ast.Await, ast.Yield, ast.YieldFrom, ast.NamedExpr, ast.Lambda)):
            return False
    return True


def _kill(env: T.Dict[str, ast.AST], st: ast.AST) -> T.List[T.Tuple[str, ast.AST]]:
    """A write to a container / attribute changes what expressions reading it denote: such locals can no longer be replaced
    by their defining expression.  Returns the (name, expression) pairs dropped from env."""
    before = dict(env)
    _kill_(env, st)
    return [(k, v) for k, v in before.items() if k not in env]


def _kill_(env: T.Dict[str, ast.AST], st: ast.AST) -> None:
    tgts: T.List[ast.AST] = []
    if isinstance(st, ast.Assign):
        tgts = list(st.targets)
    elif isinstance(st, (ast.AugAssign, ast.AnnAssign)):
        tgts = [st.target]
    elif isinstance(st, ast.Delete):
        tgts = list(st.targets)
    elif isinstance(st, ast.Expr) and isinstance(st.value, ast.Call) and isinstance(st.value.func, ast.Attribute) \
            and st.value.func.attr in ('pop', 'clear', 'update', 'setdefault', 'remove', 'add_project_option'):
        tgts = [ast.Subscript(value=st.value.func.value, slice=ast.Constant(value=0), ctx=ast.Store())]
    for t in tgts:
        if isinstance(t, ast.Subscript):
            c = attr_chain(t.value) or norm(t.value)
            for k in [k for k, v in env.items() if c in norm(v) or (c in ('self.options', 'self') and 'get_value_object' in norm(v))]:
                del env[k]
        elif isinstance(t, ast.Name):
            for k in [k for k, v in env.items() if t.id in names_in(v)]:
                del env[k]
            env.pop(t.id, None)
        elif isinstance(t, ast.Attribute):
            for k in [k for k, v in env.items() if any(isinstance(n, ast.Attribute) and n.attr == t.attr for n in ast.walk(v))]:
                del env[k]


def _ptable(body: T.List[ast.stmt], eff: T.Callable[[ast.AST], T.Optional[str]], keep: T.Iterable[str] = (), name: str = '',
            **kw: T.Any) -> tables.Table:
    """Decision table with *path-sensitive* copy propagation: a local bound to a call-free expression (or to a stored-object
    lookup) is substituted into the conditions and effects that follow it on the same path (tables.extract only inlines
    definitions at the top level of the body)."""
    keep = set(keep)
    rows: T.List[tables.Row] = []
    for p in paths.Enumerator(**kw).run(body):
        env: T.Dict[str, ast.AST] = {}
        conds: T.Dict[Atom, bool] = {}
        effs: T.List[str] = []
        bound_at: T.Dict[str, int] = {}
        feasible = True

        def kill(st: ast.AST) -> None:
            # a local whose defining expression is invalidated keeps its value: its binding becomes a visible effect at the
            # place where it was bound
            for nm, val in _kill(env, st):
                if nm in bound_at:
                    pos = bound_at.pop(nm)
                    effs.insert(pos, f'{nm}:={norm(val)}')
                    for o in bound_at:
                        if bound_at[o] >= pos:
                            bound_at[o] += 1
        for ev in p.events:
            if ev.kind == 'cond':
                a, v = tables.canon(_subst(ev.node, env), ev.val)
                if a in conds and conds[a] != v:
                    feasible = False
                    break
                conds[a] = v
            elif ev.kind == 'stmt':
                st = _subst(ev.node, env)
                tgt = None
                if isinstance(st, ast.Assign) and len(st.targets) == 1 and isinstance(st.targets[0], ast.Name):
                    tgt = st.targets[0].id
                elif isinstance(st, ast.AnnAssign) and isinstance(st.target, ast.Name) and st.value is not None:
                    tgt = st.target.id
                if tgt is not None and tgt not in keep and _transparent(st.value):  # type: ignore[attr-defined]
                    kill(st)
                    env[tgt] = st.value  # type: ignore[attr-defined]
                    bound_at[tgt] = len(effs)
                    continue
                kill(st)
                s = eff(st)
                if s:
                    effs.append(s)
            elif ev.kind in ('iter', 'with') and ev.node is not None:
                s = eff(ev.node)
                if s:
                    effs.append(s)
        if feasible:
            rows.append(tables.Row(conds, tables.default_outcome(p, lambda e: _subst(e, env)), tuple(effs), p))
    return tables.Table(rows, name)


# ---------------------------------------------------------------------------
# C08.R1  -D / -U decision table

def _r1_eff(st: ast.AST) -> T.Optional[str]:
    if isinstance(st, ast.AugAssign) and isinstance(st.target, ast.Name):
        if isinstance(st.op, ast.BitOr):
            return f'{st.target.id}|={norm(st.value)}'
        return f'{st.target.id}:={norm(st)}'
    if isinstance(st, (ast.Assign, ast.AnnAssign)):
        tgts = st.targets if isinstance(st, ast.Assign) else [st.target]
        if st.value is None:
            return None
        if len(tgts) != 1:
            return 'OTHER ' + norm(st)
        t = tgts[0]
        if isinstance(t, ast.Name):
            v = st.value
            # accumulation spelled without |= :  x = e or x / x = x | e / x = e | x / x = True if e else x   ->   x |= e
            if isinstance(v, ast.BoolOp) and isinstance(v.op, ast.Or) and len(v.values) >= 2 and norm(v.values[-1]) == t.id \
                    and t.id not in {n for o in v.values[:-1] for n in names_in(o)}:
                rest = v.values[:-1]
                return f'{t.id}|={norm(rest[0] if len(rest) == 1 else ast.BoolOp(op=ast.Or(), values=rest))}'
            if isinstance(v, ast.BinOp) and isinstance(v.op, ast.BitOr) and t.id in (norm(v.left), norm(v.right)):
                other = v.right if norm(v.left) == t.id else v.left
                if t.id not in names_in(other):
                    return f'{t.id}|={norm(other)}'
            if isinstance(v, ast.IfExp) and norm(v.orelse) == t.id and isinstance(v.body, ast.Constant) and v.body.value is True:
                return f'{t.id}|={norm(v.test)}'
            return f'{t.id}:={norm(v)}'
        return f'SET {norm(t)} := {norm(st.value)}'
    if isinstance(st, ast.Delete):
        return '; '.join('DEL ' + norm(t) for t in st.targets)
    if isinstance(st, ast.Expr):
        if isinstance(st.value, ast.Constant):
            return None
        return 'CALL ' + norm(st.value)
    if isinstance(st, (ast.Raise, ast.Pass, ast.Return)):
        return None
    return 'OTHER ' + norm(st)


_STORED = ('self.get_value_object(KEY)', 'self.options[KEY]')


def _is_yield_change(text: str) -> bool:
    """`not G.yielding and bool(G.parent)` in either operand order, G the stored object of KEY."""
    try:
        e = ast.parse(text, mode='eval').body
    except SyntaxError:
        return False
    if not (isinstance(e, ast.BoolOp) and isinstance(e.op, ast.And) and len(e.values) == 2):
        return False
    ops = {norm(v) for v in e.values}
    # in a truth context `bool(p)`, `p` and `p is not None` (p an option object or None) are the same test
    return any(ops == {f'not {g}.yielding', pf} for g in _STORED for pf in (f'bool({g}.parent)', f'{g}.parent', f'{g}.parent is not None'))


def _r1_acts(row: tables.Row) -> T.List[str]:
    acts: T.List[str] = []
    effs: T.List[str] = []
    pending: T.Dict[str, int] = {}
    for e in row.effects:
        effs.extend(x.strip() for x in e.split('; '))
    for e in effs:
        if e.startswith('DIRTY|='):
            v = e[len('DIRTY|='):]
            if v == 'self.set_user_option(KEY, VAL)':
                acts.append('set+dirty')
            elif v == 'True':
                acts.append('dirty')
            elif _is_yield_change(v):
                acts.append('dirty-if-yielding-changes')
            elif v in pending:
                acts[pending.pop(v)] = 'dirty-if-yielding-changes'
            elif 'set_user_option' in v:
                acts.append(f'other set_user_option call `{v}`')
            else:
                acts.append(f'dirty only if `{v}`')
        elif e.startswith('DIRTY:='):
            v = e[len('DIRTY:='):]
            if v == 'True':
                acts.append('dirty')
            else:
                acts.append(f'dirty flag overwritten (`{e}` forgets changes of earlier keys)')
        elif ':=' in e and e.split(':=')[0].isidentifier() and _is_yield_change(e.split(':=', 1)[1]):
            # a local holding "yielding changes", computed here (before/after the re-yield as its position says)
            pending[e.split(':=')[0]] = len(acts)
            acts.append('<pending>')
        elif e == 'DEL self.augments[KEY]' or e.startswith('CALL self.augments.pop(KEY') or \
                (':=self.augments.pop(KEY' in e and e.split(':=')[0].isidentifier() and e.split(':=')[0] != 'DIRTY'):
            acts.append('drop-augment')
        elif e.startswith('SET ') and '.yielding := ' in e:
            tgt, val = e[4:].split(' := ', 1)
            g = tgt[:-len('.yielding')]
            if g in _STORED and val == f'bool({g}.parent)':
                acts.append('re-yield')
            else:
                acts.append(f'yielding set differently (`{e[4:]}`)')
        elif e.startswith('CALL self.set_user_option('):
            acts.append('set_user_option result discarded' if e == 'CALL self.set_user_option(KEY, VAL)' else f'other set_user_option call `{e[5:]}`')
        elif e.startswith('CALL mlog.'):
            continue
        else:
            raise Undecided(f'set_from_configure_command: unknown effect `{e}`')
    acts = [a for a in acts if a != '<pending>']
    if row.outcome[0] == 'raise':
        acts.append('raise')
    elif row.outcome[0] not in ('fall', 'continue'):
        acts.append(f'leaves the key loop by {row.outcome[0]} (later keys are skipped)')
    return acts


def _r1_judge(row: tables.Row, want: str) -> T.Optional[str]:
    acts = _r1_acts(row)
    ok = {
        'set': [['set+dirty']],
        'drop-augment': [['drop-augment', 'dirty'], ['dirty', 'drop-augment']],
        'raise': [['raise']],
        're-yield': [['dirty-if-yielding-changes', 're-yield'], ['dirty', 're-yield'], ['re-yield', 'dirty']],
    }[want]
    if acts in ok:
        return None
    cond = [a for a in acts if a.startswith('dirty only if')]
    if cond and want != 'drop-augment':
        # only for a dropped augment is the reference "unconditionally dirty" (the augments table itself is persisted state)
        raise Undecided(f'set_from_configure_command: unknown dirty update {cond[0]} on the `{want}` row')
    return 'does [' + ', '.join(acts) + ']' if acts else 'does nothing'


def r1(ctx: RuleCtx) -> None:
    mod = _m(ctx, OPTIONS)
    qn = 'OptionStore.set_from_configure_command'
    fn = _inlined(mod, qn, ('set_user_option', 'get_value_object', 'set_option'))
    params = _pos_params(fn)
    loops = [s for s in fn.body if isinstance(s, ast.For)]
    if len(params) != 1 or len(loops) != 1:
        raise Undecided(f'{qn}: expected one parameter and one loop over it')
    il = _items_loop(loops[0], params[0])
    if il is None:
        raise Undecided(f'{qn}: loop is not `for key, value in {params[0]}.items()`')
    rets = [n for n in walk_no_nested(fn) if isinstance(n, ast.Return)]
    accs = {norm(r.value) for r in rets}
    if len(accs) != 1 or not all(isinstance(r.value, ast.Name) for r in rets):
        raise Undecided(f'{qn}: result is not one accumulator variable: {sorted(accs)}')
    acc = next(iter(accs))
    ctx.require(not any(isinstance(n, ast.Return) for st in loops[0].body for n in walk_no_nested(st)) and rets[-1] in fn.body,
                f'{qn}: returns the accumulated flag `{acc}` after the loop', mod, qn, 'return inside key loop',
                'a return inside the key loop skips the remaining -D/-U arguments')
    body = _renamed(loops[0].body, {il[0]: 'KEY', il[1]: 'VAL', acc: 'DIRTY'}, fn)
    tab = _ptable(body, _r1_eff, keep={'DIRTY'}, name=qn + ':loop')
    sem = {Atom('is', ('VAL', 'None')): 'unset', Atom('in', ('KEY', 'self.augments')): 'augment',
           Atom('in', ('KEY', 'self.options')): 'known'}

    def ref(v: T.Dict[str, bool]) -> T.Optional[str]:
        if not v['unset']:
            return 'set'
        if v['augment']:
            return 'drop-augment'
        return 're-yield' if v['known'] else 'raise'
    _run_table(ctx, mod, qn, fn, tab, sem, ref, _r1_judge, list(sem))
    ctx.floor(f'{qn}: rows', len(tab.rows), 1)

    # CoreData forwards the parsed -D/-U dictionary and returns the flag
    cmod = _m(ctx, COREDATA)
    cqn = 'CoreData.set_from_configure_command'
    cfn = cmod.func(cqn)
    ctab = tables.extract(cfn, name=cqn)
    want = ('return', 'self.optstore.set_from_configure_command(ARG1.cmd_line_options)')
    for r in ctab.rows:
        if r.outcome == want and not r.conds:
            ctx.ok(f'{cqn}: returns optstore.set_from_configure_command(options.cmd_line_options)')
        elif r.outcome[0] in ('return', 'fall') and 'set_from_configure_command' not in ' '.join(str(x) for x in r.outcome):
            # the row ends with a value that is not derived from the store call: the dirty flag is lost
            ctx.violation(cmod, cqn, ' '.join(str(x) for x in r.outcome), f'row `{r!r}` ends with `{" ".join(str(x) for x in r.outcome)}`: the result of the '
                          'store call is not returned (mconf.run_impl saves only when the result is true)', _row_node(r, cfn))
        else:
            raise Undecided(f'{cqn}: unknown forwarding form `{r!r}`')


# ---------------------------------------------------------------------------
# C08.R1b  cmd_line.txt records -D and erases -U with the same discriminator as the option store

def r1b(ctx: RuleCtx) -> None:
    mod = _m(ctx, CMDLINE)
    qn = 'update_cmd_line_file'
    fn = mod.func(qn)
    params = _pos_params(fn)
    if len(params) != 2:
        raise Undecided(f'{qn}: expected (build_dir, options)')
    loops = [s_ for s_ in fn.body if isinstance(s_, ast.For) and _items_loop(s_, f'{params[1]}.cmd_line_options') is not None]
    if len(loops) != 1:
        raise Undecided(f'{qn}: expected one loop over {params[1]}.cmd_line_options.items()')
    loop = loops[0]
    k, v, _ = _items_loop(loop)  # type: ignore[misc]
    cfgs = [st.targets[0].id for st in fn.body if isinstance(st, ast.Assign) and len(st.targets) == 1 and isinstance(st.targets[0], ast.Name)
            and isinstance(st.value, ast.Call) and call_method(st.value) == 'CmdLineFileParser']
    if len(cfgs) != 1:
        raise Undecided(f'{qn}: the parsed cmd_line.txt is not held in one variable')
    body = _renamed(loop.body, {k: 'KEY', v: 'VAL', cfgs[0]: 'CFG'}, fn)
    tab = _ptable(body, _r1_eff, name=qn + ':loop')
    rec = "CFG['options']"
    sem = {Atom('is', ('VAL', 'None')): 'unset', Atom('truth', ('VAL',)): 'truthy',
           Atom('in', ('str(KEY)', rec)): 'recorded',
           # configparser: SectionProxy.__contains__/__setitem__ ARE parser.has_option / parser.set (library identities)
           Atom('truth', ("CFG.has_option('options', str(KEY))",)): 'recorded'}

    def ref(w: T.Dict[str, bool]) -> T.Optional[str]:
        if w['unset'] and w['truthy']:
            return None          # None is falsy
        if not w['unset']:
            return 'record'
        return 'erase' if w['recorded'] else 'nothing'

    def judge(row: tables.Row, want: str) -> T.Optional[str]:
        effs: T.List[str] = []
        for e in row.effects:
            effs.extend(x.strip() for x in e.split('; '))
        acts = []
        for e in effs:
            if e in (f'SET {rec}[str(KEY)] := str(VAL)', "CALL CFG.set('options', str(KEY), str(VAL))"):
                acts.append('record')
            elif e.startswith("CALL CFG.set('options', str(KEY), "):
                acts.append(f'records `{e[len("CALL CFG.set(") + 21:-1]}` instead of str(value)')
            elif e == "CALL CFG.remove_option('options', str(KEY))":
                acts.append('erase-if-recorded')
            elif e.startswith(f'SET {rec}[str(KEY)] := '):
                acts.append(f'records `{e.split(" := ", 1)[1]}` instead of str(value)')
            elif e == f'DEL {rec}[str(KEY)]':
                acts.append('erase')
            elif e in (f'CALL {rec}.pop(str(KEY), None)', f'CALL {rec}.pop(str(KEY), \'\')'):
                acts.append('erase-if-recorded')
            elif e.startswith('CALL mlog.'):
                continue
            else:
                raise Undecided(f'{qn}: unknown effect `{e}`')
        if row.outcome[0] not in ('fall', 'continue'):
            acts.append(f'leaves the loop by {row.outcome[0]}')
        okacts = {'record': [['record']], 'erase': [['erase'], ['erase-if-recorded']], 'nothing': [[], ['erase-if-recorded']]}[want]
        if acts in okacts:
            return None
        return ('does [' + ', '.join(acts) + ']') if acts else 'does nothing'
    _run_table(ctx, mod, qn, fn, tab, sem, ref, judge, list(sem))
    ctx.floor(f'{qn}: rows', len(tab.rows), 1)
    # the updated table is written back after the loop
    cfg = CFG(fn)
    it = [n for n in cfg.nodes if n.kind == 'iter' and n.ast is loop]
    readers = ('read', 'read_file', 'read_string', 'has_section', 'has_option', 'get', 'items', 'keys', 'values', 'sections', 'options',
               'set', 'remove_option', 'add_section', 'read_dict')     # in-memory updates of the table are not the write-back
    wr = cfg.nodes_with_call(lambda c: call_method(c) not in readers and (cfgs[0] in {a.id for a in c.args if isinstance(a, ast.Name)}
                                                                          or (isinstance(c.func, ast.Attribute) and norm(c.func.value) == cfgs[0])))
    wr = [n for n in wr if n.ast is not loop and it and cfg.can_reach(it[0], n)]
    ctx.require(bool(wr) and all(cfg.must_pass(i, cfg.exit_return, wr) for i in it), f'{qn}: the updated table is written back after the loop', mod, qn,
                'write-back after the recording loop', 'after the recording loop the function can return without writing the updated table', loop)


# ---------------------------------------------------------------------------
# C08.R2a  update_project_options: typestate of self.options[KEY] (which declaration object is installed: OLD/NEW)
# along every enumerated path of the first loop; locals are resolved to OLD/NEW by reaching definitions (aliases), the
# conditions are canonical atoms, the effects are classified by statement shape.  Nothing is evaluated on input values.

class _StoredRead(ast.NodeTransformer):
    def __init__(self, stored: str):
        self.stored = stored

    def generic_visit(self, node: ast.AST) -> ast.AST:
        node = super().generic_visit(node)
        if isinstance(node, (ast.Call, ast.Subscript)) and norm(node) in _STORED and isinstance(getattr(node, 'ctx', ast.Load()), ast.Load):
            return ast.Name(id=self.stored, ctx=ast.Load())
        return node


class _R2Path:
    def __init__(self) -> None:
        self.view: T.Dict[str, bool] = {}
        self.stored = 'OLD'
        self.added = False
        self.acts: T.List[T.Tuple[str, ast.AST]] = []     # (what, original stmt)
        self.handler: T.Optional[ast.ExceptHandler] = None
        self.outcome = ''
        self.text = ''


_R2_SEM: T.Dict[Atom, str] = {
    Atom('in', ('KEY', 'self.options')): 'known',
    Atom('cmp', ('eq', 'KEY.subproject', 'ARG2')): 'own', Atom('cmp', ('eq', 'ARG2', 'KEY.subproject')): 'own',
    Atom('is', ('type(OLD)', 'type(NEW)')): 'same_type', Atom('is', ('type(NEW)', 'type(OLD)')): 'same_type',
    Atom('cmp', ('eq', 'type(NEW)', 'type(OLD)')): 'same_type', Atom('cmp', ('eq', 'type(OLD)', 'type(NEW)')): 'same_type',
    Atom('truth', ('choices_are_different(OLD, NEW)',)): 'diff_choices', Atom('truth', ('choices_are_different(NEW, OLD)',)): 'diff_choices',
    Atom('is', ('KEY.machine', 'MachineChoice.HOST')): 'host',
}


def _r2_walk(qn: str, body: T.List[ast.stmt], p: paths.Path, pm: T.Dict[ast.AST, T.Tuple[ast.AST, str]],
             handlers: T.Dict[int, ast.ExceptHandler]) -> _R2Path:
    out = _R2Path()
    env: T.Dict[str, ast.AST] = {}

    def sym(e: ast.AST) -> ast.AST:
        return _StoredRead(out.stored).visit(_subst(e, env))

    for ev in p.events:
        if ev.kind == 'cond':
            if isinstance(ev.node, ast.Call) and isinstance(ev.node.func, ast.Name) and ev.node.func.id == '__exc__':
                if ev.val:      # exception edge out of this statement of a try body into its handler
                    out.handler = handlers[ev.node.args[0].value]  # type: ignore[attr-defined]
                continue
            a, v = tables.canon(sym(ev.node), ev.val)
            k = _R2_SEM.get(a)
            if k is None:
                raise Undecided(f'{qn}: condition outside the reference vocabulary: {a!r}')
            if k in out.view and out.view[k] != v:
                out.view['<infeasible>'] = True
            out.view[k] = v
        elif ev.kind == 'exc':
            out.handler = ev.node  # type: ignore[assignment]
        elif ev.kind in ('iter', 'with'):
            raise Undecided(f'{qn}: nested loop/with in the declaration loop')
        elif ev.kind == 'stmt':
            st = ev.node
            if isinstance(st, (ast.Raise, ast.Pass, ast.Return)):
                continue
            if isinstance(st, ast.Assign) and len(st.targets) == 1:
                t = st.targets[0]
                if isinstance(t, ast.Name):
                    val = sym(st.value)
                    if any(isinstance(c, ast.Call) and call_method(c) in ('set_option', 'set_value', 'add_project_option', 'remove')
                           for c in ast.walk(val)):
                        raise Undecided(f'{qn}: state change inside an assignment: {short(st)}')
                    env[t.id] = val
                    continue
                if isinstance(t, ast.Attribute) and norm(sym(t.value)) == 'NEW' and t.attr in WIRED_ATTRS:
                    v = norm(sym(st.value))
                    if v == f'OLD.{t.attr}':
                        out.acts.append((f'wire NEW: {t.attr}', st))
                        if t.attr == 'yielding':
                            out.acts.append(('wire NEW: keep-detached', st))
                    elif t.attr == 'yielding' and v in ('NEW.yielding and OLD.yielding', 'OLD.yielding and NEW.yielding'):
                        out.acts.append(('wire NEW: keep-detached', st))
                    else:
                        raise Undecided(f'{qn}: `{short(st)}`: wiring value not understood')
                    continue
                if isinstance(t, ast.Subscript) and norm(_subst(t, env)) == 'self.options[KEY]':
                    v = norm(sym(st.value))
                    out.stored = v if v in ('OLD', 'NEW') else 'OTHER'
                    out.acts.append((f'store {v}', st))
                    continue
                raise Undecided(f'{qn}: unknown write {short(st)}')
            if isinstance(st, ast.Expr) and isinstance(st.value, ast.Call):
                c = sym(st.value)
                assert isinstance(c, ast.Call)
                cn = call_name(c) or ''
                args = [norm(a) for a in c.args]
                if cn.startswith('mlog.') or cn in ('print',):
                    continue
                if cn == 'self.add_project_option':
                    if args == ['KEY', 'NEW'] and not c.keywords:
                        out.added = True
                        out.acts.append(('add', st))
                    else:
                        out.acts.append((f'add_project_option({", ".join(args)})', st))
                    continue
                if cn == 'self.set_option' and args[:1] == ['KEY']:
                    out.acts.append((f'set {out.stored} := {args[1] if len(args) > 1 else "?"}', st))
                    continue
                if cn.endswith('.set_value') and len(args) == 1:
                    out.acts.append((f'set {cn[:-len(".set_value")]} := {args[0]}', st))
                    continue
                if cn == 'self.remove' and args == ['KEY']:
                    out.stored = 'REMOVED'
                    out.acts.append(('remove', st))
                    continue
                if cn == 'self.__repoint__':
                    if args[:2] == ['OLD', 'NEW'] and len(args) == 3:
                        out.acts.append(('wire NEW: repoint-wrong ' + args[2], st))      # the loop was read completely and a row is wrong
                        continue
                    if args == ['OLD', 'NEW']:
                        out.acts.append(('wire NEW: repoint-children', st))
                        continue
                    if args == ['OLD', 'OLD']:
                        continue        # children are left on the replaced object: no re-pointing happened
                    raise Undecided(f'{qn}: re-pointing loop not understood: {args}')
                if cn.startswith('self.') and cn[5:] in _R2_WIRING and 'NEW' in args:
                    out.acts.append(('wire NEW: ' + ','.join(sorted(_R2_WIRING[cn[5:]])), st))
                    continue
                raise Undecided(f'{qn}: unknown call {short(st)}')
            if isinstance(st, ast.Delete) and [norm(_subst(t, env)) for t in st.targets] == ['self.options[KEY]']:
                out.stored = 'REMOVED'
                out.acts.append(('remove', st))
                continue
            raise Undecided(f'{qn}: unknown statement {short(st)}')
    out.outcome = p.outcome
    out.text = p.describe()
    return out


def _repoint_loops(block: T.List[ast.stmt]) -> None:
    """A loop over the stored options whose body, read as a decision table over the atoms `x.parent is E` and
    `type(x) is type(F)`, re-links every child of E to F (optionally only a child of F's class, any other child of E being
    detached: `x.parent = None; x.yielding = False`) and touches nothing else  ->  the single effect `self.__repoint__(E, F)`.
    The table makes the reading independent of nesting, guard clauses, named conditions and conditional expressions."""
    for blk in _blocks(block):
        for i, st in enumerate(blk):
            if not (isinstance(st, ast.For) and not st.orelse):
                continue
            it = st.iter
            x = None
            if isinstance(it, ast.Call) and norm(it.func) in ('self.options.values', 'list') and norm(it).replace('list(', '').rstrip(')') .startswith('self.options.values(') \
                    and isinstance(st.target, ast.Name):
                x = st.target.id
            elif isinstance(it, ast.Call) and norm(it.func) == 'self.options.items' and isinstance(st.target, ast.Tuple) and len(st.target.elts) == 2 \
                    and isinstance(st.target.elts[1], ast.Name):
                x = st.target.elts[1].id
            if x is None or any(isinstance(n, (ast.For, ast.While, ast.With, ast.Try, ast.Return, ast.Break)) for b in st.body for n in ast.walk(b)):
                continue
            try:
                tab = _ptable(_renamed(st.body, {x: 'X'}), _r1_eff, name='re-pointing loop')
            except Undecided:
                continue
            links = {e.split(' := ', 1)[1] for r in tab.rows for ee in r.effects for e in ee.split('; ')
                     if e.startswith('SET X.parent := ') and not e.endswith(':= None')}
            olds = {t for a in tab.atoms() if a.kind == 'is' and 'X.parent' in a.args for t in a.args if t != 'X.parent'}
            if len(links) != 1 or len(olds) != 1:
                continue
            new_e, old_e = next(iter(links)), next(iter(olds))
            read = True          # every atom and effect of the loop body is in the vocabulary
            wrong: T.List[str] = []
            for r in tab.rows:
                is_old = same = None
                other_state = False
                for a, v in r.conds.items():
                    if a.kind == 'is' and set(a.args) == {'X.parent', old_e}:
                        is_old = v
                    elif a.kind == 'is' and set(a.args) == {'type(X)', f'type({new_e})'}:
                        same = v
                    elif a.kind == 'truth' and len(a.args) == 1 and a.args[0].startswith('X.') and a.args[0][2:].isidentifier() and a.args[0] != 'X.parent':
                        # another field of the child (`X.yielding` ...): one more dimension of the worlds; the reference does
                        # not depend on it - every child of the replaced object is re-linked, whatever else is true of it
                        other_state = True
                    else:
                        read = False
                effs = sorted(e for ee in r.effects for e in ee.split('; '))
                if r.outcome[0] not in ('fall', 'continue') or (is_old is None and not other_state) or \
                        any(not (e.startswith('SET X.parent := ') or e.startswith('SET X.yielding := ')) for e in effs):
                    read = False
                    continue
                # the row fires in every world that completes its conditions: it must be right in each of them
                for io in ((True, False) if is_old is None else (is_old,)):
                    if io is False:
                        want = []
                    elif same is False:
                        want = sorted(['SET X.parent := None', 'SET X.yielding := False'])
                    else:
                        want = [f'SET X.parent := {new_e}']
                    if read and effs != want:
                        wrong.append(f'{r!r}' + (' (a child of the replaced object in this state is not re-linked)' if is_old is None else ''))
                        break
            if read and tab.rows:
                args: T.List[ast.expr] = [ast.parse(old_e, mode='eval').body, ast.parse(new_e, mode='eval').body]
                if wrong:
                    args.append(ast.Constant(value=wrong[0]))
                blk[i] = ast.fix_missing_locations(ast.copy_location(ast.Expr(value=ast.Call(
                    func=ast.Attribute(value=ast.Name(id='self', ctx=ast.Load()), attr='__repoint__', ctx=ast.Load()), args=args, keywords=[])), st))


def _lower_trys(qn: str, stmts: T.List[ast.stmt], handlers: T.Dict[int, ast.ExceptHandler]) -> T.List[ast.stmt]:
    """Make the exception edges of `try` bodies explicit for the path enumerator: `try: s1; s2 except H: hb` becomes
    `if __exc__(n): hb  else: s1; if __exc__(n+1): hb else: s2` where only statements containing a call are exception
    points (a subscript store cannot raise the handled MesonException); a statement that raises has no effect.
    The statement objects are reused, so parent-map queries on the original body stay valid."""
    out: T.List[ast.stmt] = []
    for st in stmts:
        if isinstance(st, ast.Try):
            if st.finalbody or st.orelse or len(st.handlers) != 1:
                raise Undecided(f'{qn}: try with finally/else or several handlers in the declaration loop')
            h = st.handlers[0]
            if not _covers(h, {'MesonException', 'Exception', 'BaseException'}):
                raise Undecided(f'{qn}: handler for {norm(h.type)}')
            if any(not isinstance(b, (ast.Expr, ast.Assign, ast.AnnAssign, ast.AugAssign, ast.Pass)) for b in st.body):
                raise Undecided(f'{qn}: compound statement inside a try of the declaration loop')
            hb = _lower_trys(qn, h.body, handlers)

            def chain(i: int) -> T.List[ast.stmt]:
                if i == len(st.body):
                    return []
                b = st.body[i]
                rest = [b] + chain(i + 1)
                if not any(isinstance(c, ast.Call) for c in ast.walk(b)):
                    return rest
                n = len(handlers)
                handlers[n] = h
                test = ast.Call(func=ast.Name(id='__exc__', ctx=ast.Load()), args=[ast.Constant(value=n)], keywords=[])
                node = ast.If(test=test, body=list(hb) or [ast.Pass()], orelse=rest)
                return [ast.fix_missing_locations(ast.copy_location(node, b))]
            out.extend(chain(0))
        elif isinstance(st, ast.If):
            out.append(ast.copy_location(ast.If(test=st.test, body=_lower_trys(qn, st.body, handlers), orelse=_lower_trys(qn, st.orelse, handlers)), st))
        elif isinstance(st, (ast.For, ast.While, ast.With)):
            raise Undecided(f'{qn}: nested loop/with in the declaration loop')
        else:
            out.append(st)
    return out


def _guarded_carry(pm: T.Dict[ast.AST, T.Tuple[ast.AST, str]], st: ast.AST) -> T.Optional[ast.Try]:
    for t, field in _contexts(pm, st, (ast.Try,)):
        if field == 'body' and any(_covers(h, {'MesonException', 'Exception', 'BaseException'}) for h in t.handlers):  # type: ignore[attr-defined]
            return t  # type: ignore[return-value]
    return None


def _r2_judge(pm: T.Dict[ast.AST, T.Tuple[ast.AST, str]], rp: _R2Path, want: str) -> T.Optional[T.Tuple[str, ast.AST, str]]:
    """None if the path realises `want`; else (message, node, construct)."""
    first = rp.acts[0][1] if rp.acts else None
    if rp.outcome in ('return', 'break', 'raise') and not (rp.outcome == 'raise' and want == 'dontcare'):
        return (f'leaves the declaration loop by {rp.outcome}', first, f'{rp.outcome} in declaration loop')  # type: ignore[return-value]
    whats = [w for w, _ in rp.acts]
    if want == 'add':
        if whats == ['add']:
            return None
        return (f'does {whats or "nothing"} instead of add_project_option(key, value)', first, '; '.join(whats) or 'nothing for a new key')  # type: ignore[return-value]
    if want == 'untouched':
        if not whats:
            return None
        return (f'changes the stored option ({whats}) although the declaration is unchanged', first, norm(first))  # type: ignore[return-value]
    assert want == 'replace'
    if rp.stored != 'NEW' and rp.handler is not None:
        return ('is the failure path of the carry-over (the old value is rejected) and leaves the '
                f'{"old declaration object" if rp.stored == "OLD" else rp.stored} stored: the new declaration is installed only when the old value is still valid',
                rp.handler, f'failure path of the carry-over leaves {rp.stored} stored')
    if rp.stored != 'NEW':
        culprit = next((n for w, n in rp.acts if w.startswith('set OLD')), first)
        detail = f'; instead it does {whats}' if whats else ''
        return (f'leaves the {"old declaration object" if rp.stored == "OLD" else rp.stored} stored in self.options[key] '
                f'(the new declaration is never installed{detail})', culprit, norm(culprit) if culprit is not None else 'redeclared option not replaced')  # type: ignore[return-value]
    if rp.handler is not None:
        # exceptional completion of the carry-over: the new object with its own default stays
        extra = [w for w in whats if w not in ('store NEW', 'set NEW := OLD.value') and not w.startswith('wire NEW')]
        if extra:
            return (f'on the failure path also does {extra}', rp.acts[-1][1], norm(rp.acts[-1][1]))
        return None
    carries = [(w, n) for w, n in rp.acts if w == 'set NEW := OLD.value']
    others = [(w, n) for w, n in rp.acts if w not in ('set NEW := OLD.value', 'store NEW') and not w.startswith('wire NEW')]
    if others:
        return (f'also does {[w for w, _ in others]}', others[0][1], norm(others[0][1]))
    if len(carries) != 1:
        return ('installs the new declaration but does not try the old value on it (user value lost although it may still be valid)',
                first, 'old value not carried over')  # type: ignore[return-value]
    if _guarded_carry(pm, carries[0][1]) is None:
        return ('carries the old value over outside a handler for MesonException: an old value that is no longer valid aborts '
                'instead of falling back to the new default', carries[0][1], norm(carries[0][1]))
    return None


WIRED_ATTRS = ('parent', 'yielding')


def _wiring_methods(mod: Module, cls: str) -> T.Dict[str, T.Set[str]]:
    """Methods of the store that link a declaration object (one of their parameters) to its parent: they assign
    `<param>.parent` / `<param>.yielding`, directly or through one level of another such method."""
    out: T.Dict[str, T.Set[str]] = {}
    meths = mod.methods(cls)
    for _ in range(2):
        for name, f in meths.items():
            ps = set(_pos_params(f))
            attrs = {t.attr for st in ast.walk(f) if isinstance(st, (ast.Assign, ast.AnnAssign, ast.AugAssign))
                     for t in (st.targets if isinstance(st, ast.Assign) else [st.target])
                     if isinstance(t, ast.Attribute) and isinstance(t.value, ast.Name) and t.value.id in ps and t.attr in WIRED_ATTRS}
            for c in ast.walk(f):
                if isinstance(c, ast.Call) and call_name(c) in {f'self.{m}' for m in out} and any(isinstance(a, ast.Name) and a.id in ps for a in c.args):
                    attrs |= out[call_method(c)]  # type: ignore[index]
            if attrs:
                out[name] = attrs
    return out


_R2_WIRING: T.Dict[str, T.Set[str]] = {}


def r2a(ctx: RuleCtx) -> None:
    _r2a_impl(ctx, False)


def r2d(ctx: RuleCtx) -> None:
    _r2a_impl(ctx, True)


def _r2a_impl(ctx: RuleCtx, wiring_mode: bool) -> None:
    mod = _m(ctx, OPTIONS)
    qn = 'OptionStore.update_project_options'
    _R2_WIRING.clear()
    _R2_WIRING.update(_wiring_methods(mod, 'OptionStore'))
    fn = _inlined(mod, qn, ('add_project_option', 'set_option', 'remove', 'get_value_object', 'set_value', 'is_project_option', 'choices_are_different') + tuple(_R2_WIRING))
    params = _pos_params(fn)
    if len(params) != 2:
        raise Undecided(f'{qn}: expected (project_options, subproject)')
    loops = [s for s in fn.body if isinstance(s, ast.For) and _items_loop(s, params[0]) is not None]
    if len(loops) != 1:
        raise Undecided(f'{qn}: expected one loop over {params[0]}.items()')
    k, v, _ = _items_loop(loops[0], params[0])  # type: ignore[misc]
    body = _renamed(loops[0].body, {k: 'KEY', v: 'NEW', params[0]: 'ARG1', params[1]: 'ARG2'}, fn)
    _repoint_loops(body)
    pm = _parent_map(ast.Module(body=body, type_ignores=[]))
    handlers: T.Dict[int, ast.ExceptHandler] = {}
    lowered = _lower_trys(qn, body, handlers)
    ps = paths.enumerate_paths(lowered, pure={'choices_are_different', 'get_value_object'})
    walked = [_r2_walk(qn, body, p, pm, handlers) for p in ps]
    walked = [w for w in walked if '<infeasible>' not in w.view]
    ctx.floor(f'{qn}: paths of the declaration loop', len(walked), 3)

    def ref(w: T.Dict[str, bool]) -> T.Optional[str]:
        if not w['known']:
            return 'add'
        if not w['own']:
            return None
        return 'replace' if (not w['same_type'] or w['diff_choices']) else 'untouched'

    import itertools
    bad: T.Dict[str, T.Tuple[str, ast.AST, str, T.Dict[str, bool]]] = {}
    okp: T.Dict[str, str] = {}
    worlds = 0
    for combo in itertools.product((True, False), repeat=4):
        w = dict(zip(('known', 'own', 'same_type', 'diff_choices'), combo))
        w['host'] = True
        want = ref(w)
        if want is None:
            continue
        firing = [rp for rp in walked if all(w.get(a) == x for a, x in rp.view.items())]
        normal = [rp for rp in firing if rp.handler is None]
        if not normal:
            raise Undecided(f'{qn}: no path for {_fmt(w)}')
        worlds += 1
        if wiring_mode:
            # K8 sibling agreement: what the `add` path does to link the declaration object to its parent (through
            # add_project_option) must also happen to the object installed on the `replace` path
            need = set(_R2_WIRING.get('add_project_option', set()))
            if not need:
                raise Undecided(f'{qn}: add_project_option does no parent wiring')
            if want != 'replace':
                continue
            for rp in firing:
                if rp.stored != 'NEW':
                    continue     # reported by C08.R2a
                done = {a.strip() for w_, _ in rp.acts if w_.startswith('wire NEW: ') for a in w_[len('wire NEW: '):].split(',')}
                store = next((n for w_, n in rp.acts if w_ == 'store NEW'), None)
                if need <= done and 'keep-detached' not in done:
                    bad.setdefault('store NEW: yielding not carried over from OLD',
                                   ('links the installed declaration to its parent anew but does not carry over the yielding state of the replaced object '
                                    '(`NEW.yielding` is never derived from `OLD.yielding`): a subproject option the user has given its own value '
                                    '(-Dsub:opt=v switches yielding off) follows the parent again after the option file changed, the user value is lost',
                                    store or rp.acts[0][1], want, w))
                wrongs = [w_ for w_, _ in rp.acts if w_.startswith('wire NEW: repoint-wrong ')]
                if wrongs:
                    bad.setdefault('re-pointing loop: ' + wrongs[0][len('wire NEW: repoint-wrong '):],
                                   ('re-points the options yielding to the replaced object, but one row of the loop is wrong: '
                                    f'{wrongs[0][len("wire NEW: repoint-wrong "):]} (reference: a child of the new object\'s class gets `.parent = NEW` only; any '
                                    'other child is detached with `.parent = None` and `.yielding = False`)', store or rp.acts[0][1], want, w))
                    continue
                if need <= done and 'repoint-children' not in done:
                    bad.setdefault('store NEW: options yielding to OLD not re-pointed',
                                   ('replaces the stored object but leaves every option whose `.parent` is the replaced object pointing at it: subproject options '
                                    'yielding to a redeclared top-level option keep reading the old object', store or rp.acts[0][1], want, w))
                if need <= done and {'keep-detached', 'repoint-children'} <= done:
                    okp.setdefault(rp.text, 'replace+wired')
                elif not need <= done:
                    bad.setdefault('store NEW without ' + '/'.join(sorted(need - done)),
                                   (f'installs the new declaration object without the parent link that add_project_option gives a new option '
                                    f'(`.{"`, `.".join(sorted(need - done))}` of the installed object are never set from the store): a subproject option declared '
                                    '`yield: true` is then stored with yielding=True and parent=None, and reading it fails', store or rp.acts[0][1], want, w))
            continue
        for rp in firing:
            if rp.handler is not None and want != 'replace':
                bad.setdefault(f'failure path where the reference is `{want}`', ('has a failure path (a handler runs) although no value may be set here',
                                                                                     rp.handler, want, w))
                continue
            res = _r2_judge(pm, rp, want)
            if res is None:
                okp.setdefault(rp.text, want)
            else:
                bad.setdefault(res[2], (res[0], res[1], want, w))
    for construct, (msg, node, want, w) in bad.items():
        if wiring_mode:
            ctx.violation(mod, qn, construct, f'option-file edit with {_fmt({k_: x for k_, x in w.items() if k_ != "host"})}: the path {msg}', node)
            continue
        ctx.violation(mod, qn, construct, f'option-file edit with {_fmt({k_: x for k_, x in w.items() if k_ != "host"})}: reference `{want}` '
                      f'(stored object afterwards is the new declaration, old value only through its set_value, else new default); the path {msg}', node)
    for text, want in okp.items():
        ctx.ok(f'{qn}: path `{short(text, 160)}` realises `{want}`')
    ctx.note(f'{qn}: {len(walked)} paths checked on {worlds} worlds of (known, own, same type, choices differ)')


# ---------------------------------------------------------------------------
# C08.R2b  removal of keys that are no longer declared

def _resolve_local(fn: ast.AST, e: ast.AST) -> ast.AST:
    """A Name whose only binding in fn is one assignment outside loops -> its value (one level)."""
    if isinstance(e, ast.Name):
        defs = _single_defs(fn)
        if e.id in defs:
            return defs[e.id]
        raise Undecided(f'cannot resolve `{e.id}` to a single definition')
    return e


def r2b(ctx: RuleCtx) -> None:
    mod = _m(ctx, OPTIONS)
    qn = 'OptionStore.update_project_options'
    fn = _inlined(mod, qn, ('add_project_option', 'set_option', 'remove', 'get_value_object', 'set_value', 'is_project_option', 'choices_are_different'))
    params = _pos_params(fn)
    def removes(l: ast.For) -> bool:
        return any((isinstance(c, ast.Call) and call_name(c) == 'self.remove') or
                   (isinstance(c, ast.Delete) and any(norm(t).startswith('self.options[') for t in c.targets)) for b in l.body for c in ast.walk(b))
    allfor = [n for n in walk_no_nested(fn) if isinstance(n, ast.For)]
    loops = [l for l in allfor if _items_loop(l, params[0]) is None and removes(l)]
    if len(loops) != 1 or not isinstance(loops[0].target, ast.Name):
        raise Undecided(f'{qn}: expected one removal loop `for key in ...`')
    loop = loops[0]
    first = [l for l in allfor if _items_loop(l, params[0]) is not None]
    cfg = CFG(fn)
    rem_it = [n for n in cfg.nodes if n.kind == 'iter' and n.ast is loop]
    dec_it = [n for n in cfg.nodes if n.kind == 'iter' and first and n.ast is first[0]]
    ctx.require(bool(dec_it) and all(cfg.can_reach(d, r) for d in dec_it for r in rem_it) and not any(cfg.can_reach(r, d) for d in dec_it for r in rem_it),
                f'{qn}: removal runs after the declarations were merged', mod, qn, 'order of loops', 'the removal loop does not follow the declaration loop')
    # K1: every normal completion passes the removal loop - "a removed option vanishes" also when nothing (else) is declared
    ctx.require(bool(rem_it) and cfg.must_pass(cfg.entry, cfg.exit_return, rem_it), f'{qn}: every normal path reaches the removal loop', mod, qn,
                'normal path around the removal loop', 'update_project_options can return normally without running the loop that removes options the option '
                'file no longer declares (e.g. an early return / a guard on the declared mapping): with such an option file the stale options stay', loop)
    it0 = _resolve_local(fn, loop.iter)
    loop_body: T.List[ast.stmt] = loop.body
    if isinstance(it0, (ast.ListComp, ast.SetComp, ast.GeneratorExp)) or (isinstance(it0, ast.Call) and call_name(it0) in ('list', 'tuple', 'set') and
                                                                           len(it0.args) == 1 and isinstance(it0.args[0], ast.GeneratorExp)):
        comp = it0 if not isinstance(it0, ast.Call) else it0.args[0]
        g = comp.generators[0]  # type: ignore[attr-defined]
        if len(comp.generators) == 1 and not g.is_async and isinstance(g.target, ast.Name) and norm(comp.elt) == g.target.id:  # type: ignore[attr-defined]
            # `for k in [k for k in X if c]: body`  ==  `for k in X: if c: body`
            if g.ifs:
                test = g.ifs[0] if len(g.ifs) == 1 else ast.BoolOp(op=ast.And(), values=list(g.ifs))
                test = _Rename({g.target.id: loop.target.id}).visit(copy.deepcopy(test))
                loop_body = [ast.fix_missing_locations(ast.copy_location(ast.If(test=test, body=loop.body, orelse=[]), loop))]
            it0 = _resolve_local(fn, g.iter)
    it = _Rename({params[0]: 'ARG1', params[1]: 'ARG2'}).visit(copy.deepcopy(it0))
    if isinstance(it, (ast.IfExp, ast.BoolOp)) and 'ARG1' in names_in(it.test if isinstance(it, ast.IfExp) else it.values[0]):
        ctx.violation(mod, qn, norm(it), f'the removal candidates `{norm(it)}` depend on a test of the declared mapping itself; the reference is the stored '
                      'keys minus the declared keys, whatever is declared', loop)
        return
    stored = {'self.options.keys()', 'set(self.options)', 'set(self.options.keys())'}
    declared = {'ARG1.keys()', 'set(ARG1)', 'set(ARG1.keys())'}
    undeclared_only = isinstance(it, ast.BinOp) and isinstance(it.op, ast.Sub) and norm(it.left) in stored and norm(it.right) in declared
    snapshot = norm(it) in {'list(self.options)', 'list(self.options.keys())', 'tuple(self.options)', 'tuple(self.options.keys())'}
    if not (undeclared_only or snapshot):
        if isinstance(it, ast.BinOp) and isinstance(it.op, ast.Sub):
            ctx.violation(mod, qn, norm(it), f'candidate keys are `{norm(it)}`; the reference is the stored keys minus the declared keys', loop)
            return
        raise Undecided(f'{qn}: removal loop iterates over `{norm(it)}`')
    body = _renamed(loop_body, {loop.target.id: 'KEY', params[0]: 'ARG1', params[1]: 'ARG2'})
    tab = _ptable(body, _r1_eff, pure={'is_project_option'}, name=qn + ':removal')
    sem = {Atom('truth', ('self.is_project_option(KEY)',)): 'project', Atom('in', ('KEY', 'self.project_options')): 'project',
           Atom('cmp', ('eq', 'KEY.subproject', 'ARG2')): 'own', Atom('cmp', ('eq', 'ARG2', 'KEY.subproject')): 'own',
           Atom('in', ('KEY', 'ARG1')): 'declared', Atom('in', ('KEY', 'ARG1.keys()')): 'declared'}
    extra = [a for a in sem if a in tab.atoms()]
    for need in ('project', 'own') + (() if undeclared_only else ('declared',)):
        if not any(sem[a] == need for a in extra):
            extra.append(next(a for a in sem if sem[a] == need))

    def ref(v: T.Dict[str, bool]) -> T.Optional[str]:
        if undeclared_only and v.get('declared'):
            return None
        decl = False if undeclared_only else v['declared']
        return 'remove' if (not decl and v['project'] and v['own']) else 'keep'

    def judge(row: tables.Row, want: str) -> T.Optional[str]:
        effs = [e for e in row.effects if not e.startswith('CALL mlog.')]
        if row.outcome[0] not in ('fall', 'continue'):
            return f'leaves the removal loop by {row.outcome[0]}'
        if effs == (['CALL self.remove(KEY)'] if want == 'remove' else []):
            return None
        if all(e == 'CALL self.remove(KEY)' for e in effs):
            return 'removes the option' if effs else 'keeps the option'
        raise Undecided(f'{qn}: unknown effect in removal loop: {effs}')
    _run_table(ctx, mod, qn, fn, tab, sem, ref, judge, extra)
    # OptionStore.remove really deletes the stored object
    rfn = mod.func('OptionStore.remove')
    rp = _pos_params(rfn)
    cfg = CFG(rfn)
    dels = [n for n in cfg.nodes if n.kind == 'stmt' and (
        (isinstance(n.ast, ast.Delete) and [norm(t) for t in n.ast.targets] == [f'self.options[{rp[0]}]']) or
        (isinstance(n.ast, ast.Expr) and norm(n.ast.value).startswith(f'self.options.pop({rp[0]}')))]
    ctx.require(bool(dels) and cfg.must_pass(cfg.entry, cfg.exit_return, dels), 'OptionStore.remove deletes self.options[key] on every normal path', mod,
                'OptionStore.remove', 'del self.options[key]', 'OptionStore.remove can return without deleting self.options[key]', rfn)


# ---------------------------------------------------------------------------
# C08.R2c  choices_are_different: symmetric projections that cover the declaration fields of every option class

DECL_FIELDS = ('choices', 'min_value', 'max_value')


class _Proj(ast.NodeTransformer):
    def __init__(self) -> None:
        self.seen: T.Set[str] = set()

    def visit_Name(self, n: ast.Name) -> ast.AST:
        if n.id in ('ARG1', 'ARG2'):
            self.seen.add(n.id)
            return ast.Name(id='@', ctx=n.ctx)
        return n


def _cmp_terms(qn: str, e: ast.AST) -> T.List[ast.Compare]:
    if isinstance(e, ast.BoolOp) and isinstance(e.op, ast.Or):
        return [t for v in e.values for t in _cmp_terms(qn, v)]
    if isinstance(e, ast.Constant) and e.value is False:
        return []
    if isinstance(e, ast.Compare) and len(e.ops) == 1 and isinstance(e.ops[0], ast.NotEq):
        l, r = e.left, e.comparators[0]
        if isinstance(l, (ast.Tuple, ast.List)) and isinstance(r, (ast.Tuple, ast.List)) and len(l.elts) == len(r.elts):
            # (a, b) != (c, d)  ==  a != c or b != d
            return [ast.Compare(left=x, ops=[ast.NotEq()], comparators=[y]) for x, y in zip(l.elts, r.elts)]
        return [e]
    if isinstance(e, ast.UnaryOp) and isinstance(e.op, ast.Not) and isinstance(e.operand, ast.Compare) and len(e.operand.ops) == 1 \
            and isinstance(e.operand.ops[0], ast.Eq):
        l, r = e.operand.left, e.operand.comparators[0]
        if isinstance(l, (ast.Tuple, ast.List)) and isinstance(r, (ast.Tuple, ast.List)) and len(l.elts) == len(r.elts):
            return [ast.Compare(left=x, ops=[ast.Eq()], comparators=[y]) for x, y in zip(l.elts, r.elts)]
        return [e.operand]
    raise Undecided(f'{qn}: result is not a disjunction of inequalities: {short(e)}')


def r2c(ctx: RuleCtx) -> None:
    mod = _m(ctx, OPTIONS)
    qn = 'choices_are_different'
    fn = mod.func(qn)
    if len(_pos_params(fn)) != 2:
        raise Undecided(f'{qn}: expected two parameters')
    pa_, pb_ = _pos_params(fn)
    tab = _ptable(_renamed(_inlined(mod, qn).body, {pa_: 'ARG1', pb_: 'ARG2'}), lambda st: None, name=qn)
    for a in tab.atoms():
        if not (a.kind == 'isinstance' and a.args[0] in ('ARG1', 'ARG2')):
            raise Undecided(f'{qn}: condition outside the vocabulary: {a!r}')
    # every comparison: same projection on both sides, one side from each parameter
    row_proj: T.Dict[int, T.Set[str]] = {}
    nterms = 0
    for r in tab.rows:
        if r.outcome[0] != 'return':
            ctx.violation(mod, qn, ' '.join(str(x) for x in r.outcome), f'row `{r!r}` leaves by {r.outcome[0]}', _row_node(r, fn))
            continue
        projs: T.Set[str] = set()
        for t in _cmp_terms(qn, ast.parse(r.outcome[1], mode='eval').body):
            nterms += 1
            pa, pb = _Proj(), _Proj()
            ta, tb = norm(pa.visit(copy.deepcopy(t.left))), norm(pb.visit(copy.deepcopy(t.comparators[0])))
            if len(pa.seen) != 1 or len(pb.seen) != 1 or pa.seen == pb.seen:
                ctx.violation(mod, qn, norm(t), f'`{norm(t)}` does not compare the old declaration with the new one (sides read {sorted(pa.seen)} and '
                              f'{sorted(pb.seen)}): a change of `{ta}` is not detected and the old declaration object stays stored', _row_node(r, fn))
            elif ta != tb:
                ctx.violation(mod, qn, norm(t), f'`{norm(t)}` compares different projections `{ta}` and `{tb}`', _row_node(r, fn))
            else:
                ctx.ok(f'{qn}: `{norm(t)}` compares `{ta}` of the old and the new declaration')
                projs.add(ta)
        row_proj[id(r)] = projs
    # every option class: the row taken for it covers the declaration fields the class has
    ncls = 0
    for cname, cnode in mod.classes().items():
        mro = ctx.repo.mro(mod, cnode)
        names = {c.name for _, c in mro}
        if 'UserOption' not in names or '.' in cname:
            continue
        fields = sorted({st.target.id for _, c in mro for st in c.body
                         if isinstance(st, ast.AnnAssign) and isinstance(st.target, ast.Name) and st.target.id in DECL_FIELDS})
        if not fields:
            continue
        ncls += 1
        w = {a: any(t in names for t in a.args[1]) for a in tab.atoms()}
        rows = tab.fire(w)
        if len(rows) != 1:
            raise Undecided(f'{qn}: {len(rows)} rows fire for class {cname}')
        got = row_proj.get(id(rows[0]), set())
        missing = [f for f in fields if f'@.{f}' not in got]
        ctx.require(not missing, f'{qn}: for {cname} the comparison covers {fields}', mod, qn, f'{cname}: {", ".join(missing)} not compared',
                    f'for option class {cname} (declaration fields {fields}) the row `{short(repr(rows[0]), 120)}` does not compare {missing}: '
                    'an option-file edit of these is not noticed', _row_node(rows[0], fn))
    ctx.floor(f'{qn}: option classes with declaration fields', ncls, 2)
    ctx.floor(f'{qn}: distinct projections compared', len({x for ps_ in row_proj.values() for x in ps_}), 1)


# ---------------------------------------------------------------------------
# C08.R3a  MesonApp._generate: persistent writers are guarded by the restoring handler

def _writer_kind(c: ast.Call) -> T.Optional[str]:
    m, n = call_method(c), call_name(c) or ''
    if m == 'dump_coredata' or n == 'coredata.save':
        return 'coredata.dat'
    if n == 'build.save':
        return 'build.dat'
    if m in ('write_cmd_line_file', 'update_cmd_line_file'):
        return 'cmd_line.txt'
    return None


def _guard_of(pm: T.Dict[ast.AST, T.Tuple[ast.AST, str]], st: ast.AST) -> T.Optional[T.Tuple[ast.Try, ast.ExceptHandler]]:
    """Innermost enclosing try (statement in its body) having a handler for Exception/BaseException."""
    for t, field in _contexts(pm, st, (ast.Try,)):
        assert isinstance(t, ast.Try)
        if field != 'body':
            continue
        wide = [h for h in t.handlers if _covers(h, {'Exception', 'BaseException'})]
        if wide:
            return t, wide[0]
        for h in t.handlers:
            if not _always_reraises(h):
                raise Undecided(f'handler `except {norm(h.type)}` between a writer and the restoring handler may swallow')
    return None


def _restore_problems(fn: ast.AST, h: ast.ExceptHandler, cdf: str, may_be_none: bool = True) -> T.Tuple[T.List[T.Tuple[str, str, ast.AST]], T.Optional[str], int]:
    """Decision table of the handler body over (cdf is None, <prev> exists) -> problems, suffix, rows."""
    body = _renamed(h.body, {cdf: 'CDF'})
    tab = _ptable(body, lambda st: ('CALL ' + norm(st.value)) if isinstance(st, ast.Expr) and isinstance(st.value, ast.Call) else None,
                  pure={'exists'}, name='restore handler')
    a_none = Atom('is', ('CDF', 'None'))
    a_exists: T.Optional[Atom] = None
    suffix: T.Optional[str] = None
    for a in tab.atoms():
        if a == a_none:
            continue
        e = ast.parse(a.args[0], mode='eval').body if a.kind == 'truth' else None
        if isinstance(e, ast.Call) and call_name(e) == 'os.path.exists' and len(e.args) == 1:
            x = e.args[0]
            if isinstance(x, ast.BinOp) and isinstance(x.op, ast.Add) and norm(x.left) == 'CDF' and isinstance(x.right, ast.Constant) and a_exists is None:
                a_exists, suffix = a, x.right.value
                continue
        raise Undecided(f'restore handler: condition outside the vocabulary: {a!r}')
    probs: T.List[T.Tuple[str, str, ast.AST]] = []
    for none in ((True, False) if may_be_none else (False,)):     # the handler can see "no coredata written" only if it also guards the dump
        for exists in (True, False):
            w = {a_none: none}
            if a_exists is not None:
                w[a_exists] = exists
            rows = tab.fire(w)
            if not rows:
                raise Undecided('restore handler: no row fires')
            for r in rows:
                osx = [e for e in r.effects if e.startswith(('CALL os.', 'CALL shutil.'))]
                if none:
                    want = [[]]
                elif exists:
                    want = [[f'CALL os.replace(CDF + {suffix!r}, CDF)']] if suffix is not None else [['<restore previous>']]
                else:
                    want = [['CALL os.unlink(CDF)'], ['CALL os.remove(CDF)']]
                what = 'no coredata written' if none else ('previous coredata saved' if exists else 'no previous coredata')
                unknown = [e for e in r.effects if e not in osx and not e.startswith(('CALL mintro.', 'CALL mlog.', 'CALL print('))]
                if osx not in want and unknown:
                    raise Undecided(f'restore handler: `{unknown[0][5:]}` may do the restoring; not understood')
                if osx not in want:
                    probs.append((f'{what}: {"; ".join(osx) or "nothing"}', f'with {what} the handler does [{"; ".join(osx) or "nothing"}]; '
                                  f'the reference is {want[0] or "nothing"}', _row_node(r, h)))
                if r.outcome[0] != 'raise':
                    probs.append((f'{what}: handler ends by {r.outcome[0]}', f'with {what} the handler ends by `{r.outcome[0]}` instead of re-raising '
                                  '(a failed configuration would be reported as success)', _row_node(r, h)))
    return probs, suffix, len(tab.rows)


def _prev_suffix_of_save(mod: Module) -> str:
    fn = _inlined(mod, 'save')
    rets = [n for n in walk_no_nested(fn) if isinstance(n, ast.Return)]
    if len(rets) != 1 or not isinstance(rets[0].value, ast.Name):
        raise Undecided('coredata.save: result is not one variable')
    fname = rets[0].value.id
    for c in walk_no_nested(fn):
        if isinstance(c, ast.Call) and call_name(c) in ('shutil.copyfile', 'shutil.copy', 'shutil.copy2', 'os.replace', 'os.rename') \
                and len(c.args) == 2 and norm(c.args[0]) == fname:
            dst = _resolve_local(fn, c.args[1])
            if isinstance(dst, ast.BinOp) and isinstance(dst.op, ast.Add) and norm(dst.left) == fname and isinstance(dst.right, ast.Constant):
                return T.cast(str, dst.right.value)
    raise Undecided('coredata.save: backup copy `<coredata.dat> + suffix` not found')


class _R3Result:
    def __init__(self) -> None:
        self.ok: T.List[str] = []
        self.bad: T.List[T.Tuple[str, str, ast.AST]] = []   # construct, message, node
        self.writers = 0
        self.after = 0
        self.suffix: T.Optional[str] = None
        # writers of cmd_line.txt inside the restoring try that are followed there by a statement that may raise
        self.exposed: T.List[T.Tuple[ast.Call, ast.AST, ast.ExceptHandler]] = []   # writer call, first follower, handler
        self.cmd_writers = 0


def _r3_analyse(fn: ast.AST, qn: str) -> _R3Result:
    res = _R3Result()
    pm = _parent_map(fn)
    cfg = CFG(fn)  # type: ignore[arg-type]
    writers = [(c, _writer_kind(c)) for c in walk_no_nested(fn) if isinstance(c, ast.Call) and _writer_kind(c)]
    dumps = [c for c, _ in writers if call_method(c) == 'dump_coredata']
    if len(dumps) != 1:
        raise Undecided(f'{qn}: expected exactly one dump_coredata() call, found {len(dumps)}')
    dst = _stmt_of(pm, dumps[0])
    if isinstance(dst, ast.Assign) and len(dst.targets) == 1 and isinstance(dst.targets[0], ast.Name):
        cdf = dst.targets[0].id
    elif isinstance(dst, ast.AnnAssign) and isinstance(dst.target, ast.Name):
        cdf = dst.target.id
    else:
        raise Undecided(f'{qn}: result of dump_coredata() is not kept in a variable')
    dump_nodes = cfg.stmt_nodes(dst)
    handlers_checked: T.Dict[ast.ExceptHandler, bool] = {}

    def guarded(st: ast.AST, what: str) -> bool:
        g = _guard_of(pm, st)
        if g is None:
            res.bad.append((norm(st) if not isinstance(st, (ast.If, ast.For, ast.While, ast.With, ast.Try)) else norm(getattr(st, 'test', None) or getattr(st, 'iter', None) or st.items[0].context_expr),  # type: ignore[attr-defined]
                            f'{what} is not inside a try whose `except Exception` handler restores the previous coredata: a failure here leaves the new '
                            'coredata.dat in place', st))
            return False
        h = g[1]
        if h not in handlers_checked:
            # can this handler run before the dump returned its file name?  only if some statement it guards is not dominated by the dump
            may_be_none = any(not cfg.must_pass(cfg.entry, n, dump_nodes) for b in g[0].body for x in ast.walk(b) if isinstance(x, ast.stmt)
                              for n in cfg.stmt_nodes(x) if cfg.is_reachable(n))
            probs, suffix, nrows = _restore_problems(fn, h, cdf, may_be_none)
            handlers_checked[h] = not probs
            if suffix is not None:
                res.suffix = suffix
            for c, m, n in probs:
                res.bad.append((c, m, n))
            if not probs:
                res.ok.append(f'{qn}: handler `except {norm(h.type)}` restores <coredata>{suffix!r} or unlinks, and re-raises ({nrows} rows)')
        return handlers_checked[h]

    for c, kind in writers:
        st = _stmt_of(pm, c)
        res.writers += 1
        if c is dumps[0]:
            # the dump itself needs no rollback: if it fails no new coredata.dat was published (C08.R3d), and there is no file name to
            # restore; what must be guarded is everything that runs after it
            res.ok.append(f'{qn}: `{short(c, 60)}` publishes coredata.dat; the statements after it are checked')
            continue
        okg = guarded(st, f'writer of {kind} `{short(c, 60)}`')
        if c is not dumps[0]:
            nodes = cfg.stmt_nodes(st)
            dom = all(cfg.must_pass(cfg.entry, n, dump_nodes) for n in nodes if cfg.is_reachable(n))
            if not dom:
                res.bad.append((norm(c), f'`{short(c, 70)}` ({kind}) can run before coredata was dumped: the handler sees `{cdf} is None` and restores nothing', st))
            elif okg:
                res.ok.append(f'{qn}: writer of {kind} `{short(c, 60)}` runs after the dump and inside the restoring try')
        elif okg:
            res.ok.append(f'{qn}: `{short(c, 60)}` is inside the restoring try')
    seen: T.Set[ast.AST] = set()
    for nid in sorted(cfg.reachable(dump_nodes, edge_ok=lambda a, b, lab: lab != 'exc')):
        n = cfg.nodes[nid]
        e = n.expr()
        if isinstance(e, ast.AnnAssign):
            e = e.value            # annotations are not evaluated (from __future__ import annotations)
        if n.kind not in ('stmt', 'test', 'iter', 'with_enter') or e is None or n.ast in seen or not _may_raise(e):
            continue
        if isinstance(n.ast, ast.Raise) and n.ast.exc is None:
            continue
        seen.add(n.ast)  # type: ignore[arg-type]
        res.after += 1
        if guarded(n.ast, f'`{short(e, 60)}` (runs after the coredata dump and may raise)'):  # type: ignore[arg-type]
            pass
    if res.after and not [b for b in res.bad]:
        res.ok.append(f'{qn}: all {res.after} may-raise statements reachable after the dump are inside the restoring try')
    # cmd_line.txt: the handler restores coredata only, so nothing that may raise may follow the write inside the try
    for c, kind in writers:
        if kind != 'cmd_line.txt':
            continue
        st = _stmt_of(pm, c)
        g = _guard_of(pm, st)
        if g is None:
            continue
        res.cmd_writers += 1
        t, h = g
        follower = None
        for nid in sorted(cfg.reachable(cfg.stmt_nodes(st), edge_ok=lambda a, b, lab: lab != 'exc')):
            n = cfg.nodes[nid]
            e = n.expr()
            if n.kind not in ('stmt', 'test', 'iter', 'with_enter') or e is None or not _may_raise(e):
                continue
            if any(tt is t and f == 'body' for tt, f in _contexts(pm, n.ast, (ast.Try,))):  # type: ignore[arg-type]
                has_call = any(isinstance(x, ast.Call) for x in walk_no_nested(e))
                if follower is None or (not follower[0] and has_call):
                    follower = (has_call, n.ast)
        if follower is not None:
            res.exposed.append((c, follower[1], h))
    return res


_R3_EXAMPLE = '''
def _generate(self, env):
    cdf = None
    try:
        cdf = env.dump_coredata()
    except Exception:
        if cdf is not None:
            if os.path.exists(cdf + '.prev'):
                os.replace(cdf + '.prev', cdf)
            else:
                os.unlink(cdf)
        raise
    cmdline.update_cmd_line_file(self.build_dir, self.options)
'''


def r3a(ctx: RuleCtx) -> None:
    ex = _r3_analyse(ast.parse(_R3_EXAMPLE).body[0], 'example')
    if not any('update_cmd_line_file' in c for c, _, _ in ex.bad):
        raise AnalysisError('C08.R3a: built-in positive example (writer after the try) was not flagged')
    mod = _m(ctx, MSETUP)
    qn = 'MesonApp._generate'
    fn = _inlined(mod, qn)
    res = _r3_analyse(fn, qn)
    for c, m, n in res.bad:
        ctx.violation(mod, qn, c, m, n)
    for o in res.ok:
        ctx.ok(o)
    ctx.floor(f'{qn}: persistent writer calls', res.writers, 1)
    ctx.floor(f'{qn}: may-raise statements after the dump', res.after, 1)
    cmod = _m(ctx, COREDATA)
    want = _prev_suffix_of_save(cmod)
    if res.suffix is not None:
        ctx.require(res.suffix == want, f'backup suffix {want!r} of coredata.save equals the one the handler restores from', mod, qn,
                    f'restore from suffix {res.suffix!r}', f'the handler restores from <coredata>{res.suffix!r} but coredata.save keeps the previous file as '
                    f'<coredata>{want!r}: the previous state is never restored', fn)


def r3d(ctx: RuleCtx) -> None:
    """Every save that publishes a new coredata.dat over an existing one first refreshes the backup the rollback restores."""
    mod = _m(ctx, COREDATA)
    qn = 'save'
    fn = _inlined(mod, qn)
    rets = [n for n in walk_no_nested(fn) if isinstance(n, ast.Return)]
    if len(rets) != 1 or not isinstance(rets[0].value, ast.Name):
        raise Undecided('coredata.save: result is not one variable')
    body = _renamed(fn.body, {rets[0].value.id: 'FNAME'})
    tab = _ptable(body, lambda st: ('CALL ' + norm(st.value)) if isinstance(st, ast.Expr) and isinstance(st.value, ast.Call) else None,
                  keep={'FNAME'}, pure={'exists', 'isfile', 'major_versions_differ'}, name=qn)
    exists = Atom('truth', ('os.path.exists(FNAME)',))
    try:
        suffix = _prev_suffix_of_save(mod)
        backup = {f'CALL shutil.{f}(FNAME, FNAME + {suffix!r})' for f in ('copyfile', 'copy', 'copy2')}
    except Undecided:
        # no copy of <coredata.dat> to <coredata.dat> + constant was recognised.  Only when nothing in save (helpers inlined) takes the
        # file as a source at all is "no path refreshes a backup" established; any other mention is an idiom not understood.
        for r in tab.rows:
            for e in r.effects:
                c = ast.parse(e[5:], mode='eval').body
                if isinstance(c, ast.Call) and c.args and norm(c.args[0]) == 'FNAME':
                    raise Undecided(f'coredata.save: `{e[5:]}` may be the backup copy, destination not understood')
        suffix, backup = '.<backup>', set()
    npub = 0
    for r in tab.rows:
        pubs = [i for i, e in enumerate(r.effects) if e.startswith(('CALL os.replace(', 'CALL os.rename(')) and e.endswith(', FNAME)')]
        if not pubs:
            if r.outcome[0] == 'return':
                raise Undecided(f'coredata.save: a path returns without publishing coredata.dat: {r!r}')
            continue
        npub += 1
        baks = [i for i, e in enumerate(r.effects) if e in backup]
        gate = ' & '.join(('' if v else 'not ') + repr(a) for a, v in r.conds.items() if a != exists) or 'always'
        if r.conds.get(exists) is False:
            ctx.ok(f'coredata.save: path `{short(repr(r), 110)}`: no previous coredata.dat, nothing to back up')
        elif baks and baks[0] < pubs[0]:
            ctx.ok(f'coredata.save: path `{short(repr(r), 110)}`: backup refreshed before the new file is published')
        elif baks:
            ctx.violation(mod, qn, 'backup copied after publishing', f'on the path `{short(repr(r), 140)}` <coredata>{suffix!r} is copied after the new '
                          'coredata.dat was published: the rollback of a failed reconfigure would restore the failed state', _row_node(r, fn))
        elif any(e not in backup and i < pubs[0] and 'FNAME' in names_in(ast.parse(e[5:], mode='eval')) and not e.startswith(('CALL os.path.', 'CALL pickle.'))
                 for i, e in enumerate(r.effects)):
            raise Undecided(f'coredata.save: a call before the publish takes the file and may be the backup; not understood: {r!r}')
        else:
            ctx.violation(mod, qn, f'backup skipped when: {gate}', f'on the path `{short(repr(r), 140)}` an existing coredata.dat is replaced without refreshing '
                          f'<coredata>{suffix!r}: the handler of MesonApp._generate then restores a stale older generation after a failed reconfigure',
                          _row_node(r, fn))
    ctx.floor('coredata.save: publishing paths', npub, 1)


_R3C_EXAMPLE = '''
def _generate(self, env, intr):
    cdf = None
    try:
        cdf = env.dump_coredata()
        cmdline.update_cmd_line_file(self.build_dir, self.options)
        intr.backend.run_postconf_scripts()
    except Exception:
        if cdf is not None:
            if os.path.exists(cdf + '.prev'):
                os.replace(cdf + '.prev', cdf)
            else:
                os.unlink(cdf)
        raise
'''


def r3c(ctx: RuleCtx) -> None:
    ex = _r3_analyse(ast.parse(_R3C_EXAMPLE).body[0], 'example')
    if len(ex.exposed) != 1:
        raise AnalysisError('C08.R3c: built-in positive example (postconf scripts after the cmd_line.txt update) was not flagged')
    mod = _m(ctx, MSETUP)
    qn = 'MesonApp._generate'
    fn = _inlined(mod, qn)
    res = _r3_analyse(fn, qn)
    ctx.floor(f'{qn}: guarded writers of cmd_line.txt', res.cmd_writers, 1)
    by_handler: T.Dict[ast.ExceptHandler, T.List[T.Tuple[ast.Call, ast.AST]]] = {}
    for c, follower, h in res.exposed:
        by_handler.setdefault(h, []).append((c, follower))
    exposed_calls = {id(c) for c, _, _ in res.exposed}
    for h, lst in by_handler.items():
        touches = [c for c in ast.walk(h) if isinstance(c, ast.Call) and call_method(c) in ('write_cmd_line_file', 'update_cmd_line_file', 'get_cmd_line_file')]
        if touches:
            raise Undecided(f'{qn}: the handler touches cmd_line.txt (`{short(touches[0], 60)}`); restore idiom not understood')
        ws = sorted({norm(c) for c, _ in lst})
        fol = sorted({short(f.test if isinstance(f, (ast.If, ast.While)) else f, 70) for _, f in lst})  # type: ignore[attr-defined]
        ctx.violation(mod, qn, 'cmd_line.txt not restored after: ' + ' | '.join(ws),
                      f'cmd_line.txt is rewritten inside the try ({" and ".join("`" + w + "`" for w in ws)}) and statements that may raise follow there '
                      f'(first: {fol[0]!r}), but the `except {norm(h.type)}` handler restores coredata.dat only: a configuration failing after the write '
                      'keeps the new -D values in cmd_line.txt (replayed by the next setup / --wipe) while coredata.dat is rolled back', lst[0][0])
    for c, kind in ((c, _writer_kind(c)) for c in walk_no_nested(fn) if isinstance(c, ast.Call)):
        if kind == 'cmd_line.txt' and id(c) not in exposed_calls and _guard_of(_parent_map(fn), c) is not None:
            ctx.ok(f'{qn}: nothing that may raise follows `{short(c, 70)}` inside the restoring try')


# ---------------------------------------------------------------------------
# C08.R3b  mconf.run_impl

class _R3bResult:
    def __init__(self) -> None:
        self.ok: T.List[str] = []
        self.bad: T.List[T.Tuple[str, str, ast.AST]] = []
        self.counts = (0, 0, 0)


def _r3b_analyse(fn: ast.AST, qn: str) -> _R3bResult:
    res = _R3bResult()
    cfg = CFG(fn)  # type: ignore[arg-type]
    pm = _parent_map(fn)
    S = cfg.nodes_with_call(lambda c: call_method(c) == 'set_from_configure_command')
    U = cfg.nodes_with_call(lambda c: call_method(c) in ('update_cmd_line_file', 'write_cmd_line_file'))
    V = cfg.nodes_with_call(lambda c: call_method(c) == 'save' and not c.args and isinstance(c.func, ast.Attribute) and isinstance(c.func.value, ast.Name))
    res.counts = (len(S), len(U), len(V))
    if not S or not U or not V:
        return res
    for u in U + V:
        what = 'cmd_line.txt is updated' if u in U else 'coredata is saved'
        if u in U:
            if cfg.must_pass(cfg.entry, u, S):
                res.ok.append(f'{qn}: `{short(u.expr(), 60)}` is reachable only after set_from_configure_command')
            else:
                res.bad.append((norm(u.ast), f'{what} on a path that has not yet applied the options (a rejected -D would already be recorded)', u.ast))  # type: ignore[arg-type]
    for s in S:
        exc = [cfg.nodes[b] for b, lab in cfg.succ[s.id] if lab == 'exc']
        after_exc = cfg.reachable(exc, include_start=True) if exc else set()
        for u in U + V:
            what = 'cmd_line.txt is updated' if u in U else 'coredata is saved'
            if u.id in after_exc:
                res.bad.append((norm(u.ast), f'{what} after set_from_configure_command raised (a handler swallows the failure and continues to '
                                f'`{short(u.expr(), 50)}`)', u.ast))  # type: ignore[arg-type]
            else:
                res.ok.append(f'{qn}: no handler leads from a failing set_from_configure_command to `{short(u.expr(), 50)}`')
        for v in V:
            if not cfg.can_reach(s, v, no_exc=True):
                res.bad.append((norm(v.ast), 'coredata is never saved after the options were applied', v.ast))  # type: ignore[arg-type]
    fl = Flow(fn)  # type: ignore[arg-type]
    src = {f'call:{call_name(c)}' for s in S for c in walk_no_nested(s.expr()) if isinstance(c, ast.Call) and call_method(c) == 'set_from_configure_command'}  # type: ignore[arg-type]
    for v in V:
        tests = [t.test for t, field in _contexts(pm, v.ast, (ast.If,)) if field == 'body']  # type: ignore[attr-defined,arg-type]
        if not tests:
            res.ok.append(f'{qn}: `{short(v.expr(), 40)}` is unconditional')
            continue
        if any(fl.origins(t) & src for t in tests):
            res.ok.append(f'{qn}: the result of set_from_configure_command flows into the condition guarding `{short(v.expr(), 40)}`')
        elif all(isinstance(s_.ast, ast.Expr) and isinstance(s_.ast.value, ast.Call) and call_method(s_.ast.value) == 'set_from_configure_command' for s_ in S):
            # positive evidence: the call is a bare statement, its result is discarded
            res.bad.append(('save condition: ' + ' and '.join(norm(t) for t in tests), 'the result of set_from_configure_command is discarded and cannot reach the '
                            f'condition guarding `{short(v.expr(), 40)}`: changed options are not persisted', v.ast))  # type: ignore[arg-type]
        else:
            raise Undecided(f'{qn}: cannot follow the result of set_from_configure_command to the condition guarding `{short(v.expr(), 40)}`')
    return res


_R3B_EXAMPLE = '''
def run_impl(options, builddir):
    c = Conf(builddir)
    save = False
    try:
        save |= c.coredata.set_from_configure_command(options)
    except MesonException as e:
        mlog.log(e)
    cmdline.update_cmd_line_file(builddir, options)
    if save:
        c.save()
'''


def r3b(ctx: RuleCtx) -> None:
    ex = _r3b_analyse(ast.parse(_R3B_EXAMPLE).body[0], 'example')
    if not any('after set_from_configure_command raised' in m for _, m, _ in ex.bad):
        raise AnalysisError('C08.R3b: built-in positive example (swallowing handler) was not flagged')
    mod = _m(ctx, MCONF)
    qn = 'run_impl'
    fn = _inlined(mod, qn, ('save', 'print_conf'))
    res = _r3b_analyse(fn, qn)
    for what, cnt in zip(('set_from_configure_command', 'cmd_line.txt update', 'Conf.save'), res.counts):
        if cnt == 0:
            raise Undecided(f'{qn}: no {what} call found in run_impl or the helpers it calls (written differently?)')
    seen: T.Set[str] = set()
    for c, m, n in res.bad:
        if (c, m) not in seen:
            seen.add((c, m))  # type: ignore[arg-type]
            ctx.violation(mod, qn, c, m, n)
    for o in dict.fromkeys(res.ok):
        ctx.ok(o)
    # Conf.save writes coredata unless the Conf is an introspection-only view
    sqn = 'Conf.save'
    sfn = mod.func(sqn)
    tab = tables.extract(sfn, effects=lambda st: ('CALL ' + norm(st.value)) if isinstance(st, ast.Expr) and isinstance(st.value, ast.Call) else None, name=sqn)
    sem = {Atom('truth', ('self.default_values_only',)): 'introspection'}

    def judge(row: tables.Row, want: str) -> T.Optional[str]:
        saves = [e for e in row.effects if e == 'CALL coredata.save(self.coredata, self.build_dir)']
        other = [e for e in row.effects if 'save(' in e and e not in saves]
        if other:
            raise Undecided(f'{sqn}: unknown save call {other}')
        got = 'save' if saves else 'nothing'
        return None if got == want else f'does {got}'
    _run_table(ctx, mod, sqn, sfn, tab, sem, lambda v: 'nothing' if v['introspection'] else 'save', judge, list(sem))


# ---------------------------------------------------------------------------
# C08.R4  --wipe

DELETERS = {'mesonlib.windows_proof_rmtree', 'mesonlib.windows_proof_rm', 'shutil.rmtree', 'os.remove', 'os.unlink', 'os.rmdir',
            'windows_proof_rmtree', 'windows_proof_rm'}
COPIERS = {'shutil.copy', 'shutil.copy2', 'shutil.copyfile'}
MOVERS = {'shutil.move', 'shutil.copy', 'shutil.copy2', 'shutil.copyfile', 'os.replace', 'os.rename'}


class _R4Result:
    def __init__(self) -> None:
        self.ok: T.List[str] = []
        self.bad: T.List[T.Tuple[str, str, ast.AST]] = []
        self.counts: T.Dict[str, int] = {}


_RECORDS: T.Dict[str, T.List[str]] = {}


def _record_classes(mod: Module) -> T.Dict[str, T.List[str]]:
    """NamedTuple / dataclass record classes of the module: name -> field names in declaration order."""
    out: T.Dict[str, T.List[str]] = {}
    for name, c in mod.classes().items():
        if '.' in name:
            continue
        is_rec = any((attr_chain(b) or '').split('.')[-1] == 'NamedTuple' for b in c.bases) or \
            any((attr_chain(d.func if isinstance(d, ast.Call) else d) or '').split('.')[-1] == 'dataclass' for d in c.decorator_list)
        flds = [st.target.id for st in c.body if isinstance(st, ast.AnnAssign) and isinstance(st.target, ast.Name)]
        if is_rec and flds:
            out[name] = flds
    return out


def _resolve_in_loop(loop: ast.For, e: ast.AST) -> ast.AST:
    """Substitute locals bound once in the loop body to call-free expressions (`backup, original = saved` / `dst = saved.original`)."""
    env: T.Dict[str, ast.AST] = {}
    for st in loop.body:
        if isinstance(st, ast.Assign) and len(st.targets) == 1 and _transparent(st.value):
            t = st.targets[0]
            if isinstance(t, ast.Name):
                env[t.id] = _subst(st.value, env)
            elif isinstance(t, ast.Tuple) and all(isinstance(x, ast.Name) for x in t.elts):
                for i, x in enumerate(t.elts):
                    env[x.id] = ast.Subscript(value=_subst(st.value, env), slice=ast.Constant(value=i), ctx=ast.Load())  # type: ignore[attr-defined]
    return _subst(e, env)


def _unfold_list_comps(fn: ast.AST) -> None:
    """`x = [E for t in IT if C]` as a statement  ->  `x = []; for t in IT: if C: x.append(E)` (on the analysed copy only)."""
    for block in _blocks(fn.body):  # type: ignore[attr-defined]
        i = 0
        while i < len(block):
            st = block[i]
            tv = None
            if isinstance(st, ast.Assign) and len(st.targets) == 1 and isinstance(st.targets[0], ast.Name):
                tv = (st.targets[0].id, st.value)
            elif isinstance(st, ast.AnnAssign) and isinstance(st.target, ast.Name) and st.value is not None:
                tv = (st.target.id, st.value)
            if tv and isinstance(tv[1], ast.ListComp) and len(tv[1].generators) == 1 and not tv[1].generators[0].is_async:
                g = tv[1].generators[0]
                app: ast.stmt = ast.Expr(value=ast.Call(func=ast.Attribute(value=ast.Name(id=tv[0], ctx=ast.Load()), attr='append', ctx=ast.Load()),
                                                        args=[tv[1].elt], keywords=[]))
                if g.ifs:
                    app = ast.If(test=g.ifs[0] if len(g.ifs) == 1 else ast.BoolOp(op=ast.And(), values=list(g.ifs)), body=[app], orelse=[])
                new = [ast.Assign(targets=[ast.Name(id=tv[0], ctx=ast.Store())], value=ast.List(elts=[], ctx=ast.Load())),
                       ast.For(target=g.target, iter=g.iter, body=[app], orelse=[])]
                for x in new:
                    ast.fix_missing_locations(ast.copy_location(x, st))
                block[i:i + 1] = new
                i += 1
            i += 1


def _pair_stores(fn: ast.AST) -> None:
    """A local insertion-ordered dict that is used ONLY as a store of pairs is read as the list of 2-tuples it stands for
    (on the analysed copy only):
        X = {} / dict()                  ->  X = []
        X[K] = V                         ->  X.append((K, V))
        for T in X.items():              ->  for T in X:
        for k in X: / X.keys(): ..X[k].. ->  for (k, k__value) in X: ..k__value..
        for v in X.values():             ->  for (v__key, v) in X:
    Closed world: every occurrence of X in the function must be one of these, otherwise nothing is rewritten (a keyed read, a
    deletion or an escape of X makes it a real mapping).  The reading assumes what the list form cannot express anyway: the keys
    stored are pairwise distinct (the rules check that the key is the loop item of the storing loop)."""
    pm = _parent_map(fn)
    by_name: T.Dict[str, T.List[ast.Name]] = {}
    for n in ast.walk(fn):
        if isinstance(n, ast.Name):
            by_name.setdefault(n.id, []).append(n)
    for name, occs in by_name.items():
        inits: T.List[ast.Assign] = []
        stores: T.List[ast.Assign] = []
        loops: T.List[T.Tuple[ast.For, str]] = []
        reads: T.List[ast.Subscript] = []
        ok = True
        for n in occs:
            par, field = pm.get(n, (None, ''))
            if isinstance(n.ctx, ast.Store):
                v = par.value if isinstance(par, ast.Assign) and len(par.targets) == 1 and par.targets[0] is n else None
                if (isinstance(v, ast.Dict) and not v.keys) or (isinstance(v, ast.Call) and isinstance(v.func, ast.Name) and v.func.id == 'dict'
                                                                  and not v.args and not v.keywords):
                    inits.append(par)  # type: ignore[arg-type]
                    continue
                ok = False
                break
            if isinstance(par, ast.Subscript) and field == 'value':
                gp, gfield = pm.get(par, (None, ''))
                if isinstance(par.ctx, ast.Store) and isinstance(gp, ast.Assign) and len(gp.targets) == 1 and gp.targets[0] is par \
                        and name not in names_in(par.slice) and name not in names_in(gp.value):
                    stores.append(gp)
                    continue
                if isinstance(par.ctx, ast.Load) and isinstance(par.slice, ast.Name):
                    reads.append(par)
                    continue
            if isinstance(par, ast.For) and field == 'iter':
                loops.append((par, 'keys'))
                continue
            if isinstance(par, ast.Attribute) and par.attr in ('items', 'keys', 'values'):
                gp, gfield = pm.get(par, (None, ''))
                ggp, ggfield = pm.get(gp, (None, '')) if gp is not None else (None, '')
                if isinstance(gp, ast.Call) and gfield == 'func' and not gp.args and not gp.keywords and isinstance(ggp, ast.For) and ggfield == 'iter':
                    loops.append((ggp, par.attr))
                    continue
            ok = False
            break
        if not ok or not inits or not stores or not loops:
            continue
        # every keyed read must be `X[k]` inside a loop `for k in X` whose body does not rebind k
        sub: T.Dict[int, ast.Name] = {}
        for rd in reads:
            host = next((l for l, kind in loops if kind == 'keys' and isinstance(l.target, ast.Name) and l.target.id == rd.slice.id  # type: ignore[attr-defined]
                         and any(x is rd for b in l.body for x in ast.walk(b))
                         and not any(isinstance(x, ast.Name) and x.id == l.target.id and isinstance(x.ctx, (ast.Store, ast.Del))
                                     for b in l.body for x in ast.walk(b))), None)
            if host is None:
                ok = False
                break
            sub[id(rd)] = ast.Name(id=host.target.id + '__value', ctx=ast.Load())  # type: ignore[attr-defined]
        if not ok or any(kind != 'items' and not isinstance(l.target, ast.Name) for l, kind in loops):
            continue
        for a in inits:
            a.value = ast.copy_location(ast.List(elts=[], ctx=ast.Load()), a.value)
        for l, kind in loops:
            l.iter = ast.copy_location(ast.Name(id=name, ctx=ast.Load()), l.iter)
            if kind == 'keys':
                l.target = ast.copy_location(ast.Tuple(elts=[l.target, ast.Name(id=l.target.id + '__value', ctx=ast.Store())], ctx=ast.Store()), l.target)  # type: ignore[attr-defined]
            elif kind == 'values':
                l.target = ast.copy_location(ast.Tuple(elts=[ast.Name(id=l.target.id + '__key', ctx=ast.Store()), l.target], ctx=ast.Store()), l.target)  # type: ignore[attr-defined]
            ast.fix_missing_locations(l.target)
        for rd in reads:
            par, field = pm[rd]
            new = ast.copy_location(sub[id(rd)], rd)
            cur = getattr(par, field)
            if isinstance(cur, list):
                cur[cur.index(rd)] = new
            else:
                setattr(par, field, new)
        for s in stores:
            par, field = pm[s]
            tgt = T.cast(ast.Subscript, s.targets[0])
            app = ast.Expr(value=ast.Call(func=ast.Attribute(value=ast.Name(id=name, ctx=ast.Load()), attr='append', ctx=ast.Load()),
                                          args=[ast.Tuple(elts=[tgt.slice, s.value], ctx=ast.Load())], keywords=[]))
            ast.fix_missing_locations(ast.copy_location(app, s))
            blk = getattr(par, field)
            blk[blk.index(s)] = app


def _r4_analyse(fn: ast.AST, qn: str) -> _R4Result:
    res = _R4Result()
    _unfold_list_comps(fn)
    _pair_stores(fn)
    pm = _parent_map(fn)
    cfg = CFG(fn)  # type: ignore[arg-type]
    params = _pos_params(fn)
    calls = [c for c in walk_no_nested(fn) if isinstance(c, ast.Call)]
    dels = [c for c in calls if (call_name(c) or '') in DELETERS]
    reads = [c for c in calls if call_method(c) == 'read_cmd_line_file']
    # copies: X.append((copy(F, d), F))
    copies: T.List[T.Tuple[ast.Call, ast.Call, str]] = []   # (append call, copy call, list name)
    for c in calls:
        if call_method(c) == 'append' and isinstance(c.func, ast.Attribute) and isinstance(c.func.value, ast.Name) and len(c.args) == 1:
            for x in ast.walk(c.args[0]):
                if isinstance(x, ast.Call) and call_name(x) in COPIERS:
                    copies.append((c, x, c.func.value.id))
    res.counts = {'deletions': len(dels), 'read_cmd_line_file': len(reads), 'backup copies': len(copies)}
    if not dels or not reads or len(copies) != 1:
        return res
    app, cp, lst = copies[0]
    restore_loops = [n for n in walk_no_nested(fn) if isinstance(n, ast.For) and isinstance(n.iter, ast.Name) and n.iter.id == lst]
    res.counts['restore loops'] = len(restore_loops)
    if len(restore_loops) != 1:
        return res
    rl = restore_loops[0]
    # (1) what is backed up
    cloops = [l for l, f in _contexts(pm, app, (ast.For,)) if f == 'body']
    if not cloops:
        raise Undecided(f'{qn}: backup copy is not in a loop')
    cloop = T.cast(ast.For, cloops[0])
    src_iter = _resolve_deep(fn, cloop.iter)
    has_cmd = any(isinstance(x, ast.Call) and call_method(x) == 'get_cmd_line_file' for x in ast.walk(src_iter))
    has_ini = any(isinstance(x, ast.Call) and call_method(x) == 'glob' and any(isinstance(k, ast.Constant) and k.value == '*.ini' for k in ast.walk(x))
                  for x in ast.walk(src_iter))
    opaque = [c for c in ast.walk(src_iter) if isinstance(c, ast.Call) and call_method(c) not in ('get_cmd_line_file', 'glob', 'join', 'list', 'sorted', 'str', 'chain')]
    opaque += [n for n in ast.walk(src_iter) if isinstance(n, ast.Name) and n.id not in ('self', 'cmdline', 'glob', 'os', 'environment', 'list', 'sorted', 'str', 'itertools')
               and n.id not in params]
    for okk, what in ((has_cmd, 'cmd_line.txt (cmdline.get_cmd_line_file)'), (has_ini, 'the machine files (glob *.ini)')):
        if not okk and opaque:
            raise Undecided(f'{qn}: the backup set `{short(src_iter, 90)}` is built from `{short(opaque[0], 40)}`, which is not understood')
        if okk:
            res.ok.append(f'{qn}: the backup loop covers {what}')
        else:
            res.bad.append((f'backup set lacks {what.split(" (")[0]}', f'the files backed up before the wipe (`{short(src_iter, 90)}`) do not include {what}: '
                            'the wipe deletes it and the recorded command line cannot be replayed', cloop))
    # the copied file is the loop item, the destination is the temporary directory
    withs = [w for w, f in _contexts(pm, app, (ast.With,)) if f == 'body']
    tmp = None
    for w in withs:
        for i in w.items:  # type: ignore[attr-defined]
            if isinstance(i.context_expr, ast.Call) and call_method(i.context_expr) == 'TemporaryDirectory' and isinstance(i.optional_vars, ast.Name):
                tmp = (w, i.optional_vars.id)
    if tmp is None:
        raise Undecided(f'{qn}: backup destination is not a `with tempfile.TemporaryDirectory() as d`')
    item = norm(cloop.target)
    if not (len(cp.args) == 2 and norm(cp.args[0]) == item and norm(cp.args[1]) == tmp[1]):
        res.bad.append((norm(cp), f'backup copy `{norm(cp)}` does not copy the loop item `{item}` into the temporary directory `{tmp[1]}`', cp))
    # (2) pairing copy -> original on restore
    elem = app.args[0]
    movers = [c for c in walk_no_nested(rl) if isinstance(c, ast.Call) and call_name(c) in MOVERS]
    # the backup list holds (copy, original) records: a tuple display, or a NamedTuple/dataclass record built positionally / by keyword
    fields: T.List[T.Tuple[str, ast.AST]] = []
    if isinstance(elem, ast.Tuple):
        fields = [(str(i), e) for i, e in enumerate(elem.elts)]
    elif isinstance(elem, ast.Call) and isinstance(elem.func, ast.Name) and elem.func.id in _RECORDS and not any(isinstance(a, ast.Starred) for a in elem.args):
        names_ = _RECORDS[elem.func.id]
        fields = list(zip(names_, elem.args)) + [(k.arg or '?', k.value) for k in elem.keywords]
        if sorted(f for f, _ in fields) != sorted(names_):
            fields = []
    if len(fields) != 2 or len(movers) != 1 or len(movers[0].args) != 2:
        raise Undecided(f'{qn}: backup list is not a list of (copy, original) records moved back one by one')
    f_copy = next((f for f, e in fields if any(x is cp for x in ast.walk(e))), None)
    f_orig = next((f for f, e in fields if f != f_copy), None)
    if f_copy is None or f_orig is None:
        raise Undecided(f'{qn}: backup record does not hold the copy')
    orig_expr = dict(fields)[f_orig]
    if norm(orig_expr) != item:
        res.bad.append((norm(app), f'the backup list records `{norm(orig_expr)}` instead of the original path `{item}`', app))

    def access(f: str) -> T.List[str]:
        t = rl.target
        if isinstance(t, ast.Tuple) and len(t.elts) == 2:
            order = [x for x, _ in fields] if isinstance(elem, ast.Tuple) else _RECORDS[elem.func.id]  # type: ignore[union-attr]
            return [norm(t.elts[order.index(f)])]
        if isinstance(t, ast.Name):
            idx = ([x for x, _ in fields] if isinstance(elem, ast.Tuple) else _RECORDS[elem.func.id]).index(f)  # type: ignore[union-attr]
            return [f'{t.id}[{idx}]'] + ([] if isinstance(elem, ast.Tuple) else [f'{t.id}.{f}'])
        raise Undecided(f'{qn}: restore loop target not understood')
    mv = movers[0]
    a0, a1 = norm(_resolve_in_loop(rl, mv.args[0])), norm(_resolve_in_loop(rl, mv.args[1]))
    if a0 in access(f_copy) and a1 in access(f_orig):
        res.ok.append(f'{qn}: `{norm(mv)}` moves each backup copy back to its original path')
    elif a0 in access(f_orig) + access(f_copy) and a1 in access(f_orig) + access(f_copy):
        res.bad.append((norm(mv), f'`{norm(mv)}` does not move the backup copy (`{access(f_copy)[-1]}`) to the original path (`{access(f_orig)[-1]}`)', mv))
    else:
        raise Undecided(f'{qn}: `{norm(mv)}`: operands not understood')
    # (3) order: copy loop and read before every deletion
    read_nodes = [n for c in reads for n in cfg.node_containing(c)]
    cl_iter = [n for n in cfg.nodes if n.kind == 'iter' and n.ast is cloop]
    rl_iter = [n for n in cfg.nodes if n.kind == 'iter' and n.ast is rl]
    for r in reads:
        args = [norm(a) for a in r.args]
        if len(args) == 2 and args[0] == 'self.build_dir' and args[1] in ([params[0]] if params else []) + ['self.options']:
            res.ok.append(f'{qn}: `{norm(r)}` merges the recorded command line into the options being set up')
        else:
            res.bad.append((norm(r), f'`{norm(r)}` does not read the recorded command line of self.build_dir into the setup options', r))
    for d in dels:
        dn = [n for n in cfg.node_containing(d) if cfg.is_reachable(n)]
        if not dn:
            continue
        for n in dn:
            if not cfg.must_pass(cfg.entry, n, read_nodes):
                res.bad.append((norm(d), f'`{short(d, 60)}` can run before read_cmd_line_file: the recorded command line is deleted unread', d))
            elif not cfg.must_pass(cfg.entry, n, cl_iter):
                res.bad.append((norm(d), f'`{short(d, 60)}` can run before cmd_line.txt and *.ini were copied away', d))
            elif not (cfg.must_pass(n, cfg.exit_return, rl_iter) and cfg.must_pass(n, cfg.exit_raise, rl_iter)):
                res.bad.append((norm(d), f'after `{short(d, 60)}` the function can be left without moving the backups back', d))
            else:
                # exceptional completion: the CFG has no exception edges inside a handler-less try/finally, decide structurally
                st = _stmt_of(pm, d)
                fin = [t for t, f in _contexts(pm, st, (ast.Try,)) if f == 'body' and rl in t.finalbody]  # type: ignore[attr-defined]
                has_exc_edges = any(lab == 'exc' for _, lab in cfg.succ[n.id])
                if fin or has_exc_edges:
                    res.ok.append(f'{qn}: `{short(d, 50)}` runs after backup+read and the restore loop is executed on every way out')
                elif any(w is not tmp[0] for w, f in _contexts(pm, st, (ast.With,)) if f == 'body'):
                    raise Undecided(f'{qn}: `{short(d, 50)}` runs under a context manager that may do the restoring; not understood')
                else:
                    res.bad.append((norm(d), f'`{short(d, 60)}` is not inside a try whose finally moves the backups back: a failure while deleting '
                                    'loses cmd_line.txt', d))
    # (4) restore happens while the temporary directory still exists
    wnode = tmp[0]
    inside = any(w is wnode and f == 'body' for w, f in _contexts(pm, rl, (ast.With,)))
    if inside:
        res.ok.append(f'{qn}: the restore loop runs inside the TemporaryDirectory scope')
    else:
        res.bad.append(('restore outside TemporaryDirectory', 'the restore loop runs after the temporary directory holding the backups was removed', rl))
    return res


_R4_EXAMPLE = '''
def __init__(self, options):
    restore = []
    with tempfile.TemporaryDirectory() as d:
        for filename in [cmdline.get_cmd_line_file(self.build_dir)] + glob.glob(os.path.join(self.build_dir, 'meson-private', '*.ini')):
            restore.append((shutil.copy(filename, d), filename))
        for l in os.listdir(self.build_dir):
            mesonlib.windows_proof_rm(l)
        cmdline.read_cmd_line_file(self.build_dir, options)
        for b, f in restore:
            shutil.move(b, f)
'''


def r4(ctx: RuleCtx) -> None:
    ex = _r4_analyse(ast.parse(_R4_EXAMPLE).body[0], 'example')
    if not (any('before read_cmd_line_file' in m for _, m, _ in ex.bad)):
        raise AnalysisError('C08.R4: built-in positive example (deletion before read, no finally) was not flagged')
    mod = _m(ctx, MSETUP)
    qn = 'MesonApp.__init__'
    fn = _inlined(mod, qn, ('add_ignore_files',))
    _RECORDS.clear()
    _RECORDS.update(_record_classes(mod))
    res = _r4_analyse(fn, qn)
    for what, mn in (('deletions', 1), ('read_cmd_line_file', 1), ('backup copies', 1), ('restore loops', 1)):
        if res.counts.get(what, 0) < mn:
            raise Undecided(f'{qn}: {what}: none found in the wipe branch or the helpers it calls (written differently?)')
    seen: T.Set[T.Tuple[str, str]] = set()
    for c, m, n in res.bad:
        if (c, m) not in seen:
            seen.add((c, m))
            ctx.violation(mod, qn, c, m, n)
    for o in dict.fromkeys(res.ok):
        ctx.ok(o)


# ---------------------------------------------------------------------------
# C08.R4b  read_cmd_line_file: the recorded command line is replayed *below* the options of the current command line

def _merge_loops(block: T.List[ast.stmt]) -> None:
    """`for k, v in X.items(): d[k] = v` -> `d.update(X)`;  `... d.setdefault(k, v)` / `if k not in d: d[k] = v` -> `d.__merge_below__(X)`."""
    for i, st in enumerate(block):
        if not (isinstance(st, ast.For) and not st.orelse and len(st.body) == 1):
            continue
        il = _items_loop(st)
        if il is None:
            continue
        k, v, src = il
        b = st.body[0]
        kind = None
        recv = None
        if isinstance(b, ast.Assign) and len(b.targets) == 1 and isinstance(b.targets[0], ast.Subscript) and norm(b.value) == v \
                and {n for n in names_in(b.targets[0].slice) if n not in ('OptionKey', 'str')} == {k}:     # d[k] = v / d[f(k)] = v
            kind, recv = 'update', b.targets[0].value
        elif isinstance(b, ast.Expr) and isinstance(b.value, ast.Call) and call_method(b.value) == 'setdefault' and [norm(a) for a in b.value.args] == [k, v]:
            kind, recv = '__merge_below__', b.value.func.value  # type: ignore[attr-defined]
        elif isinstance(b, ast.If) and not b.orelse and len(b.body) == 1 and isinstance(b.body[0], ast.Assign) and len(b.body[0].targets) == 1 \
                and isinstance(b.body[0].targets[0], ast.Subscript) and norm(b.body[0].targets[0].slice) == k and norm(b.body[0].value) == v \
                and tables.canon(b.test, True) == (Atom('in', (k, norm(b.body[0].targets[0].value))), False):
            kind, recv = '__merge_below__', b.body[0].targets[0].value
        if kind is not None and recv is not None:
            block[i] = ast.fix_missing_locations(ast.copy_location(
                ast.Expr(value=ast.Call(func=ast.Attribute(value=recv, attr=kind, ctx=ast.Load()), args=[src], keywords=[])), st))


def r4b(ctx: RuleCtx) -> None:
    mod = _m(ctx, CMDLINE)
    qn = 'read_cmd_line_file'
    fn = copy.deepcopy(_inlined(mod, qn))
    params = _pos_params(fn)
    if len(params) != 2:
        raise Undecided(f'{qn}: expected (build_dir, options)')
    cur = f'{params[1]}.cmd_line_options'
    for blk in _blocks(fn.body):
        _merge_loops(blk)
    parsers = {st.targets[0].id for st in ast.walk(fn) if isinstance(st, ast.Assign) and len(st.targets) == 1 and isinstance(st.targets[0], ast.Name)
               and isinstance(st.value, ast.Call) and call_method(st.value) == 'CmdLineFileParser'}
    if len(parsers) != 1:
        raise Undecided(f'{qn}: the parsed cmd_line.txt is not held in one variable')
    parser = next(iter(parsers))

    def prio(e: ast.AST, env: T.Dict[str, T.Optional[T.List[str]]]) -> T.Optional[T.List[str]]:
        """Sources of a mapping expression, lowest priority first; None = not understood."""
        if isinstance(e, ast.Name):
            return list(env[e.id]) if env.get(e.id) is not None else None  # type: ignore[arg-type]
        if norm(e) == cur:
            return ['current']
        if isinstance(e, ast.Subscript) and norm(e.value) == parser and isinstance(e.slice, ast.Constant):
            return ['recorded'] if e.slice.value == 'options' else None
        if isinstance(e, ast.Dict):
            out: T.List[str] = []
            for k_, v_ in zip(e.keys, e.values):
                if k_ is not None:
                    return None
                p_ = prio(v_, env)
                if p_ is None:
                    return None
                out += p_
            return out
        if isinstance(e, ast.DictComp) and len(e.generators) == 1 and not e.generators[0].ifs:
            it = e.generators[0].iter
            if isinstance(it, ast.Call) and call_method(it) == 'items' and not it.args and isinstance(it.func, ast.Attribute):
                it = it.func.value
            return prio(it, env)
        if isinstance(e, ast.Call) and ((call_name(e) in ('dict', 'OrderedDict') and len(e.args) == 1 and not e.keywords) or
                                        (call_method(e) == 'copy' and not e.args and isinstance(e.func, ast.Attribute))):
            return prio(e.args[0] if e.args else e.func.value, env)  # type: ignore[attr-defined]
        if isinstance(e, ast.BinOp) and isinstance(e.op, ast.BitOr):
            a, b = prio(e.left, env), prio(e.right, env)
            return None if a is None or b is None else a + b
        return None

    nfinal = 0
    norec: T.List[T.Tuple[str, ast.AST]] = []
    merged: T.Set[str] = set()
    for p in paths.enumerate_paths(fn.body, pure={'isfile', 'exists', 'has_section'}):
        if p.outcome == 'raise':
            continue
        env: T.Dict[str, T.Optional[T.List[str]]] = {}
        for ev in p.events:
            if ev.kind == 'iter' and ev.val == 'iter':
                # a loop that was not recognised as a merge: what it mutates is no longer known
                for n_ in ast.walk(ev.node):
                    base = n_.value if isinstance(n_, ast.Subscript) and isinstance(n_.ctx, (ast.Store, ast.Del)) else \
                        (n_.func.value if isinstance(n_, ast.Call) and isinstance(n_.func, ast.Attribute) else None)
                    if isinstance(base, ast.Name) and base.id in env:
                        env[base.id] = None
                continue
            if ev.kind != 'stmt':
                continue
            st = ev.node
            if isinstance(st, (ast.Assign, ast.AnnAssign)) and getattr(st, 'value', None) is not None:
                tgts = st.targets if isinstance(st, ast.Assign) else [st.target]
                if len(tgts) == 1 and isinstance(tgts[0], ast.Name):
                    env[tgts[0].id] = prio(st.value, env)   # type: ignore[arg-type]
                elif len(tgts) == 1 and norm(tgts[0]) == cur:
                    nfinal += 1
                    got = prio(st.value, env)  # type: ignore[arg-type]
                    if got is None:
                        raise Undecided(f'{qn}: cannot tell what `{short(st.value, 70)}` is merged from')  # type: ignore[arg-type]
                    rec = max((i for i, x in enumerate(got) if x == 'recorded'), default=None)
                    now = max((i for i, x in enumerate(got) if x == 'current'), default=None)
                    order = ' < '.join(got) or 'nothing'
                    if rec is None and now is not None:
                        norec.append((order, st))       # e.g. the file has no [options] section on this path
                    elif now is None:
                        ctx.violation(mod, qn, f'cmd_line_options := merge({order})', f'the options set up after reading cmd_line.txt are merged from [{order}] '
                                      '(lowest priority first): the options of the current command line are dropped', st)
                    elif now < rec:
                        ctx.violation(mod, qn, f'cmd_line_options := merge({order})', f'the options set up after reading cmd_line.txt are merged as [{order}] (lowest '
                                      'priority first): a value recorded in cmd_line.txt wins over the one given on the current command line, so '
                                      '`setup --wipe -Dopt=new` keeps the old value', st)
                    else:
                        merged.add(order)
            elif isinstance(st, ast.AugAssign) and isinstance(st.target, ast.Name) and isinstance(st.op, ast.BitOr) and st.target.id in env:
                a, b = env[st.target.id], prio(st.value, env)
                env[st.target.id] = None if a is None or b is None else a + b
            elif isinstance(st, ast.Expr) and isinstance(st.value, ast.Call) and isinstance(st.value.func, ast.Attribute) \
                    and isinstance(st.value.func.value, ast.Name) and st.value.func.value.id in env:
                nm, meth = st.value.func.value.id, st.value.func.attr
                if meth in ('update', '__merge_below__') and len(st.value.args) == 1 and not st.value.keywords:
                    a, b = env[nm], prio(st.value.args[0], env)
                    env[nm] = None if a is None or b is None else (a + b if meth == 'update' else b + a)
                elif meth in ('pop', 'setdefault', 'clear', 'popitem', '__setitem__', '__delitem__'):
                    env[nm] = None
            elif isinstance(st, (ast.Delete, ast.Assign)) and any(isinstance(t, ast.Subscript) and isinstance(t.value, ast.Name) and t.value.id in env
                                                                  for t in getattr(st, 'targets', [])):
                for t in st.targets:  # type: ignore[union-attr]
                    if isinstance(t, ast.Subscript) and isinstance(t.value, ast.Name):
                        env[t.value.id] = None
    if nfinal == 0:
        raise Undecided(f'{qn}: no assignment to {cur} found')
    for order in sorted(merged):
        ctx.ok(f'{qn}: merge order [{order}] (lowest priority first): the current command line overrides the recorded one')
    if norec and not merged and not ctx.findings:
        ctx.violation(mod, qn, f'cmd_line_options := merge({norec[0][0]})', f'on every path the options set up after reading cmd_line.txt are merged from [{norec[0][0]}] '
                      'only: the recorded command line is never replayed', norec[0][1])


# ---------------------------------------------------------------------------
# C08.R4c  cmd_line.txt [properties]: what read_cmd_line_file restores, write_cmd_line_file records (K5 writer/reader agreement)

def r4c(ctx: RuleCtx) -> None:
    mod = _m(ctx, CMDLINE)
    rfn = _inlined(mod, 'read_cmd_line_file')
    rparams = _pos_params(rfn)
    keys: T.Set[str] = set()
    for st in ast.walk(rfn):
        if isinstance(st, ast.Assign) and len(st.targets) == 1 and isinstance(st.targets[0], ast.Attribute) and norm(st.targets[0].value) == rparams[1]:
            for c in ast.walk(st.value):
                if isinstance(c, ast.Call) and call_method(c) == 'get' and c.args and isinstance(c.args[0], ast.Constant) and c.args[0].value == st.targets[0].attr:
                    keys.add(st.targets[0].attr)
    if not keys:
        raise Undecided('read_cmd_line_file: no `options.K = ...properties.get("K")...` restore found (written differently?)')
    qn = 'write_cmd_line_file'
    wfn = _inlined(mod, qn)
    wparams = _pos_params(wfn)
    if len(wparams) != 2:
        raise Undecided(f'{qn}: expected (build_dir, options)')
    body = _renamed(wfn.body, {wparams[0]: 'ARG1', wparams[1]: 'ARG2'}, wfn)
    # the statement that fills the [properties] section, and the shape of its value
    fills = [st for st in ast.walk(ast.Module(body=body, type_ignores=[])) if isinstance(st, ast.Assign) and len(st.targets) == 1
             and isinstance(st.targets[0], ast.Subscript) and isinstance(st.targets[0].slice, ast.Constant) and st.targets[0].slice.value == 'properties']
    table_rows: T.Optional[T.List[T.Tuple[str, str]]] = None      # (key, value expression) pairs of a literal table of pairs
    src_dict: T.Optional[str] = None
    filtered = False
    if len(fills) == 1 and isinstance(fills[0].value, ast.Name):
        # `D = {}; for k, v in N.items(): D[k] = f(v); config['properties'] = D`  (the loop form of the comprehension), or D filled directly
        dname = fills[0].value.id
        loops_ = [l for l in ast.walk(ast.Module(body=body, type_ignores=[])) if isinstance(l, ast.For) and _items_loop(l) is not None and len(l.body) == 1
                  and isinstance(l.body[0], ast.Assign) and isinstance(l.body[0].targets[0], ast.Subscript) and norm(l.body[0].targets[0].value) == dname
                  and norm(l.body[0].targets[0].slice) == _items_loop(l)[0]]  # type: ignore[index]
        if len(loops_) == 1 and isinstance(_items_loop(loops_[0])[2], ast.Name):  # type: ignore[index]
            fills = [ast.Assign(targets=fills[0].targets, value=ast.DictComp(key=ast.Name(id='k', ctx=ast.Load()), value=ast.Name(id='v', ctx=ast.Load()), generators=[
                ast.comprehension(target=ast.Tuple(elts=[ast.Name(id='k', ctx=ast.Store()), ast.Name(id='v', ctx=ast.Store())], ctx=ast.Store()),
                                  iter=ast.Call(func=ast.Attribute(value=_items_loop(loops_[0])[2], attr='items', ctx=ast.Load()), args=[], keywords=[]),  # type: ignore[index]
                                  ifs=[], is_async=0)]))]
    if len(fills) != 1 or not isinstance(fills[0].value, ast.DictComp) or len(fills[0].value.generators) != 1:
        raise Undecided(f'{qn}: the [properties] section is not filled by one dict comprehension or its loop form (written differently?)')
    comp = fills[0].value
    g = comp.generators[0]
    src = g.iter
    if isinstance(src, ast.Call) and call_method(src) == 'items' and isinstance(src.func, ast.Attribute) and isinstance(src.func.value, ast.Name) and not g.ifs:
        src_dict = src.func.value.id
    else:
        tdef = src
        if isinstance(src, ast.Name):
            ds = [st.value for st in ast.walk(ast.Module(body=body, type_ignores=[])) if isinstance(st, (ast.Assign, ast.AnnAssign)) and st.value is not None
                  and norm(st.targets[0] if isinstance(st, ast.Assign) else st.target) == src.id]
            tdef = ds[0] if len(ds) == 1 else src
        if isinstance(tdef, (ast.Tuple, ast.List)) and all(isinstance(e, ast.Tuple) and len(e.elts) == 2 and isinstance(e.elts[0], ast.Constant) for e in tdef.elts) \
                and isinstance(g.target, ast.Tuple) and len(g.target.elts) == 2 and norm(comp.key) == norm(g.target.elts[0]) \
                and (not g.ifs or [norm(i) for i in g.ifs] == [norm(g.target.elts[1])]):
            table_rows = [(e.elts[0].value, norm(e.elts[1])) for e in tdef.elts]  # type: ignore[attr-defined]
            filtered = bool(g.ifs)
    if src_dict is None and table_rows is None:
        raise Undecided(f'{qn}: source of the [properties] section not understood: {short(src, 60)}')
    tab = _ptable(body, _r1_eff, keep={src_dict} if src_dict else (), name=qn)
    sem: T.Dict[Atom, str] = {}
    for a in tab.atoms():
        t = a.args[0] if a.kind == 'truth' else ''
        if t.startswith('bool(') and t.endswith(')'):
            t = t[5:-1]                      # bool(x) and x are the same truth test
        if a.kind == 'truth' and t.startswith('ARG2.') and t[5:].isidentifier():
            sem[a] = t[5:]
        else:
            raise Undecided(f'{qn}: condition outside the vocabulary: {a!r}')
    for k in sorted(keys):
        sem.setdefault(Atom('truth', (f'ARG2.{k}',)), k)
    bad: T.Dict[str, T.Tuple[str, ast.AST]] = {}
    nworlds = 0
    for w in tab.worlds(list(sem)):
        rows = tab.fire(w)
        if not rows:
            raise Undecided(f'{qn}: no row fires')
        given_of: T.Dict[str, bool] = {}
        consistent = True
        for a, v in w.items():
            if sem[a] in given_of and given_of[sem[a]] != v:
                consistent = False           # bool(x) and x disagree: not a world
            given_of[sem[a]] = v
        if not consistent:
            continue
        nworlds += 1
        for r in rows:
            effs = [e.strip() for ee in r.effects for e in ee.split('; ')]
            for k in sorted(keys):
                given = given_of[k]
                if table_rows is not None:
                    ent = [v for kk, v in table_rows if kk == k]
                    if any(v != f'ARG2.{k}' for v in ent):
                        raise Undecided(f'{qn}: the table records `{ent[0]}` under {k!r}')
                    recorded = bool(ent) and (given or not filtered)
                else:
                    recs = [e for e in effs if e.startswith(f'SET {src_dict}[') and f"[{k!r}] := " in e]
                    if any(not e.endswith(f':= ARG2.{k}') for e in recs):
                        raise Undecided(f'{qn}: `{recs[0][4:]}` records something else than options.{k}')
                    others_ = [e for e in effs if e.startswith(f'SET {src_dict}[') and not any(f"[{kk!r}] := " in e for kk in keys)]
                    if others_ and not recs:
                        raise Undecided(f'{qn}: `{others_[0][4:]}`: key not understood')
                    recorded = bool(recs)
                if given and not recorded:
                    others = ', '.join(f'{kk}={"set" if v else "unset"}' for kk, v in sorted(given_of.items()) if kk != k)
                    bad.setdefault(f'{k} not recorded when {others or "always"}',
                                   (f'with options.{k} set ({others}) the [properties] section does not record `{k}`, but read_cmd_line_file restores '
                                    f'options.{k} from it: `setup --wipe` forgets the machine files given as --{k.replace("_", "-")}', _row_node(r, wfn)))
    for c, (m, node) in bad.items():
        ctx.violation(mod, qn, c, m, node)
    if not bad:
        ctx.ok(f'{qn}: each of {sorted(keys)} is recorded exactly when it is set, on {nworlds} worlds (read_cmd_line_file restores them)')


# ---------------------------------------------------------------------------
# C08.R4d  the interpreter of a (re)configuration is given the recorded command line merged with the current one (K1)

def _r4d_analyse(fn: ast.AST, qn: str, caller_merges: bool) -> T.Tuple[T.List[str], T.List[T.Tuple[str, str, ast.AST]]]:
    cfg = CFG(fn)  # type: ignore[arg-type]
    oks: T.List[str] = []
    bad: T.List[T.Tuple[str, str, ast.AST]] = []
    interps = [c for c in walk_no_nested(fn) if isinstance(c, ast.Call) and call_method(c) == 'Interpreter']
    if not interps:
        raise Undecided(f'{qn}: no Interpreter(...) construction found (written differently?)')
    defs = _single_defs(fn)
    for ic in interps:
        x = next((k.value for k in ic.keywords if k.arg == 'user_defined_options'), ic.args[1] if len(ic.args) > 1 else None)
        if not isinstance(x, ast.Name):
            raise Undecided(f'{qn}: options handed to the interpreter are not a local: {short(ic, 70)}')
        inodes = cfg.node_containing(ic)
        # names denoting the same object: x = y, x = T.cast('...', y)
        def plain(v: ast.AST) -> T.Optional[str]:
            if isinstance(v, ast.Call) and call_method(v) == 'cast' and len(v.args) == 2:
                v = v.args[1]
            return v.id if isinstance(v, ast.Name) else None
        alias = {x.id}
        for _ in range(4):
            alias |= {n for n, v in defs.items() if plain(v) in alias} | {plain(defs[n]) for n in alias if n in defs and plain(defs[n])}  # type: ignore[misc]
        reads = cfg.nodes_with_call(lambda c: call_method(c) == 'read_cmd_line_file' and len(c.args) == 2 and norm(c.args[1]) in alias)
        if reads and all(cfg.must_pass(cfg.entry, n, reads) for n in inodes if cfg.is_reachable(n)):
            oks.append(f'{qn}: `{short(ic, 60)}` runs only after read_cmd_line_file(…, {x.id}) merged the recorded command line')
            continue
        roots = [n for n in alias if n in defs and plain(defs[n]) is None]
        src = defs.get(roots[0]) if len(roots) == 1 else None
        from_self = src is not None and 'self.options' in {attr_chain(n) for n in ast.walk(src) if isinstance(n, ast.Attribute)}
        if not reads and from_self and caller_merges:
            oks.append(f'{qn}: `{x.id}` is built from self.options, into which every caller merges the recorded command line first')
            continue
        takers = [c for c in walk_no_nested(fn) if isinstance(c, ast.Call) and c is not ic and call_method(c) not in ('read_cmd_line_file', 'format_cmd_line_options', 'cast')
                  and any(isinstance(a, ast.Name) and a.id in alias for a in list(c.args) + [k.value for k in c.keywords])
                  and any(cfg.can_reach(n, m) for n in cfg.node_containing(c) for m in inodes)]
        if takers or src is None:
            raise Undecided(f'{qn}: `{short(takers[0], 60) if takers else x.id}` may merge the recorded command line; not understood')
        bad.append((f'Interpreter(user_defined_options={x.id}) without read_cmd_line_file',
                    f'`{x.id} = {short(src, 60)}` is handed to the interpreter ' + ('on a path that does not pass' if reads else 'and nothing merges') +
                    f' the recorded command line (cmdline.read_cmd_line_file(self.build_dir, {x.id})): on --reconfigure a subproject configured for the first '
                    'time does not see the -D values given at an earlier setup', ic))
    return oks, bad


_R4D_EXAMPLE = '''
def _generate(self, env):
    user_defined_options = argparse.Namespace(**vars(self.options))
    b = build.Build(env)
    intr = interpreter.Interpreter(b, user_defined_options=user_defined_options)
'''


def r4d(ctx: RuleCtx) -> None:
    _, exbad = _r4d_analyse(ast.parse(_R4D_EXAMPLE).body[0], 'example', False)
    if not exbad:
        raise AnalysisError('C08.R4d: built-in positive example (interpreter without the recorded command line) was not flagged')
    mod = _m(ctx, MSETUP)
    qn = 'MesonApp._generate'
    fn = _inlined(mod, qn)
    # do all same-class callers merge the recorded command line into self.options before calling?
    callers = [(n, f) for n, f in mod.methods('MesonApp').items() if n != '_generate' and
               any(isinstance(c, ast.Call) and call_name(c) == 'self._generate' for c in ast.walk(f))]
    caller_merges = bool(callers)
    for n, _f in callers:
        cf = _inlined(mod, f'MesonApp.{n}')
        ccfg = CFG(cf)
        rd = ccfg.nodes_with_call(lambda c: call_method(c) == 'read_cmd_line_file' and len(c.args) == 2 and norm(c.args[1]) == 'self.options')
        gen = ccfg.nodes_with_call(lambda c: call_name(c) == 'self._generate')
        if not (rd and all(ccfg.must_pass(ccfg.entry, g, rd) for g in gen)):
            caller_merges = False
    oks, bad = _r4d_analyse(fn, qn, caller_merges)
    for o in oks:
        ctx.ok(o)
    for c, m, node in bad:
        ctx.violation(mod, qn, c, m, node)


# ---------------------------------------------------------------------------
# C08.R5  per-subproject inputs

class _Site:
    def __init__(self) -> None:
        self.calls: T.List[ast.Call] = []
        self.paths: T.List[T.Tuple[T.Dict[str, bool], str, T.Set[str], ast.AST]] = []   # conds, resolved arg text, names, node


class _R5Path:
    def __init__(self) -> None:
        self.conds: T.List[T.Tuple[Atom, bool]] = []
        self.process: T.List[T.Tuple[ast.Call, ast.AST, ast.AST]] = []     # original call, resolved receiver, resolved arg
        self.updates: T.List[T.Tuple[ast.Call, ast.AST, ast.AST]] = []     # call, resolved options arg, resolved subproject arg
        self.records: T.List[T.Tuple[ast.AST, ast.AST, ast.AST]] = []      # stmt, resolved key, resolved value
        self.opaque: T.List[ast.Call] = []                                  # self.m(...) calls that were not analysed in place
        self.text = ''


def _r5_walk(body: T.List[ast.stmt], p: paths.Path) -> _R5Path:
    out = _R5Path()
    env: T.Dict[str, ast.AST] = {}

    def bind(t: ast.AST, v: ast.AST) -> None:
        if isinstance(t, ast.Name):
            env[t.id] = v
        elif isinstance(t, (ast.Tuple, ast.List)):
            if isinstance(v, (ast.Tuple, ast.List)) and len(v.elts) == len(t.elts):
                for a, b in zip(t.elts, v.elts):
                    bind(a, b)
            else:
                for i, a in enumerate(t.elts):
                    bind(a, ast.Subscript(value=copy.deepcopy(v), slice=ast.Constant(value=i), ctx=ast.Load()))

    def scan(e: ast.AST, st: ast.AST) -> None:
        for c in walk_no_nested(e):
            if not isinstance(c, ast.Call):
                continue
            m = call_method(c)
            if m == 'process' and isinstance(c.func, ast.Attribute) and len(c.args) == 1:
                recv = _subst(c.func.value, env)
                if isinstance(recv, ast.Call) and call_method(recv) == 'OptionInterpreter':
                    out.process.append((c, recv, _subst(c.args[0], env)))
            elif m == 'update_project_options' and len(c.args) == 2:
                out.updates.append((c, _subst(c.args[0], env), _subst(c.args[1], env)))
            elif isinstance(c.func, ast.Attribute) and isinstance(c.func.value, ast.Name) and c.func.value.id == 'self':
                out.opaque.append(c)

    for ev in p.events:
        if ev.kind == 'cond':
            out.conds.append(tables.canon(_subst(ev.node, env), ev.val))
        elif ev.kind == 'with':
            for i in ev.node.items:  # type: ignore[union-attr]
                scan(i.context_expr, ev.node)  # type: ignore[arg-type]
                if i.optional_vars is not None:
                    bind(i.optional_vars, _subst(i.context_expr, env))
        elif ev.kind == 'iter':
            if ev.val == 'iter':
                bind(ev.node.target, _subst(ev.node.iter, env))  # type: ignore[union-attr]
        elif ev.kind == 'stmt':
            st = ev.node
            scan(st, st)  # type: ignore[arg-type]
            if isinstance(st, ast.Assign):
                val = _subst(st.value, env)
                for t in st.targets:
                    if isinstance(t, ast.Subscript) and (attr_chain(t.value) or '').endswith('options_files'):
                        out.records.append((st, _subst(t.slice, env), val))
                    else:
                        bind(t, val)
            elif isinstance(st, ast.AnnAssign) and st.value is not None:
                bind(st.target, _subst(st.value, env))
            elif isinstance(st, ast.AugAssign) and isinstance(st.target, ast.Name):
                env[st.target.id] = ast.BinOp(left=env.get(st.target.id, ast.Name(id=st.target.id, ctx=ast.Load())), op=st.op, right=_subst(st.value, env))
    out.text = p.describe()
    return out


def _r5_key_checks(rp: _R5Path, subkey: str) -> T.List[T.Tuple[str, str, ast.AST]]:
    """The same subproject key for interpreter, store update and recorded hash; the recorded path is the processed one."""
    bad: T.List[T.Tuple[str, str, ast.AST]] = []
    for c, recv, arg in rp.process:
        a = [norm(x) for x in recv.args]  # type: ignore[attr-defined]
        if len(a) != 2 or a[1] != subkey:
            bad.append((norm(recv), f'the option file is interpreted for subproject `{a[1] if len(a) > 1 else "?"}` instead of `{subkey}`', c))
    for c, opts, sp in rp.updates:
        if norm(sp) != subkey:
            bad.append((norm(c), f'`{short(c, 80)}` updates the options of `{norm(sp)}` instead of `{subkey}`', c))
        if rp.process:
            if norm(opts) != norm(rp.process[-1][1]) + '.options':
                bad.append((norm(c), f'`{short(c, 80)}` does not pass the options read from the processed file', c))
        elif not (isinstance(opts, ast.Dict) and not opts.keys):
            bad.append((norm(c), f'`{short(c, 80)}` passes options although no option file was processed on this path', c))
    if rp.process and not rp.updates:
        bad.append((norm(rp.process[0][0]), 'the option file is processed but the store is not updated on this path', rp.process[0][0]))
    for st, key, val in rp.records:
        if norm(key) != subkey:
            bad.append((norm(st), f'`{short(st, 80)}` records the option file under `{norm(key)}` instead of `{subkey}`', st))
        if isinstance(val, ast.Tuple) and len(val.elts) == 2:
            if rp.process and norm(val.elts[0]) != norm(rp.process[-1][2]):
                bad.append((norm(st), f'`{short(st, 80)}` records `{norm(val.elts[0])}` but `{norm(rp.process[-1][2])}` was processed', st))
        elif not (isinstance(val, ast.Constant) and val.value is None):
            raise Undecided(f'unknown options_files record {short(st)}')
    return bad


def _conf_loop(ctx: RuleCtx) -> T.Tuple[Module, str, ast.AST, T.List[_R5Path], T.List[ast.stmt]]:
    mod = _m(ctx, MCONF)
    qn = 'Conf.__init__'
    fn = _inlined(mod, qn)
    loops = [n for n in walk_no_nested(fn) if isinstance(n, ast.For) and _items_loop(n) is not None
             and (attr_chain(_items_loop(n)[2]) or '').endswith('options_files')]  # type: ignore[index]
    if len(loops) != 1:
        raise Undecided(f'{qn}: expected one loop over options_files.items(), found {len(loops)}')
    k, v, _ = _items_loop(loops[0])  # type: ignore[misc]
    body = _renamed(loops[0].body, {k: 'SUB', v: 'ITEM'}, fn)
    ps = paths.enumerate_paths(body, pure={'exists', 'isfile', 'join'})
    return mod, qn, fn, [_r5_walk(body, p) for p in ps], body


_NOT_NONE = Atom('is', ('ITEM', 'None'))


def _recorded(rp: _R5Path) -> bool:
    """Path on which the recorded option file is known to be usable: ITEM is not None and no test about ITEM failed."""
    d = {a: v for a, v in rp.conds}
    if d.get(_NOT_NONE) is not False:
        return False
    for a, v in rp.conds:
        if a == _NOT_NONE:
            continue
        txt = repr(a)
        if 'ITEM' in txt and a.kind == 'truth' and 'exists' in txt and v is False:
            return False
    return True


def r5a(ctx: RuleCtx) -> None:
    mod, qn, fn, walked, body = _conf_loop(ctx)
    rec = [rp for rp in walked if _recorded(rp)]
    ctx.floor(f'{qn}: paths with a usable recorded option file', len(rec), 1)
    bad: T.Dict[T.Tuple[str, str], ast.AST] = {}
    n = nskip = nskipbad = 0
    for rp in rec:
        n += 1
        probs = _r5_key_checks(rp, 'SUB')
        if not rp.process:
            # the reload is skipped: only because the content hash of the recorded file equals the recorded hash ITEM[1]
            hs = [(a, v) for a, v in rp.conds if 'ITEM[1]' in repr(a)]
            # (what the recorded hash is compared with - a digest object, a helper - is not read: only that equality with it decides)
            good = [a for a, v in hs if a.kind == 'cmp' and a.args[0] == 'eq' and v is True and 'ITEM[1]' in a.args[1:]]
            if not hs:
                nskipbad += 1
                skip = next((a for a, v in reversed(rp.conds) if a != _NOT_NONE and not ('exists' in repr(a) and a.kind == 'truth')), None)
                probs.append(('reload skipped without comparing the recorded hash',
                              f'subproject with a usable recorded option file: the path `{short(rp.text, 140)}` skips the reload without comparing the '
                              f'content hash of the file with the recorded one (deciding test: `{skip!r}`): an edit of the option file is not noticed by '
                              '`meson configure`', fn))
            elif not good:
                raise Undecided(f'{qn}: reload skipped on a test of the recorded hash that is not an equality `ITEM[1] == ...`: {[repr(a) for a, _ in hs]}')
            else:
                nskip += 1
        for c, recv, arg in rp.process:
            if norm(arg) != 'ITEM[0]':
                probs.append((f'process({norm(arg)})', f'subproject with recorded option file `ITEM[0]`: `{norm(arg)}` is processed instead', c))
        for c, m, node in probs:
            bad.setdefault((c, m), node)
        if not probs:
            ctx.ok(f'{qn}: recorded-file path `{short(rp.text, 120)}`: {len(rp.process)} file(s) processed = the recorded path, key = loop key')
    for (c, m), node in bad.items():
        ctx.violation(mod, qn, c, m, node)
    sites = {id(c) for rp in rec for c, _, _ in rp.process}
    ctx.floor(f'{qn}: process() sites reading the recorded file', len(sites), 1)
    ctx.floor(f'{qn}: recorded-file paths that skip the reload because the content hash equals the recorded hash (or reported)', nskip + nskipbad, 1)


def _r5b_analyse(qn: str, other: T.List[_R5Path]) -> T.Tuple[T.List[str], T.List[T.Tuple[str, str, ast.AST]]]:
    oks: T.List[str] = []
    sites: T.Dict[int, T.Tuple[ast.Call, T.Set[str], T.List[str]]] = {}
    bad: T.Dict[T.Tuple[str, str], ast.AST] = {}
    for rp in other:
        probs = _r5_key_checks(rp, 'SUB')
        for c, m, node in probs:
            bad.setdefault((c, m), node)
        dep_ok = True
        for c, recv, arg in rp.process:
            s = sites.setdefault(id(c), (c, set(), []))
            s[1].add(norm(arg))
            if not (names_in(arg) & {'SUB', 'ITEM'}):
                dep_ok = False
                s[2].append(norm(arg))
        if dep_ok and not probs:
            oks.append(f'{qn}: no-recorded-file path `{short(rp.text, 120)}`: ' +
                       (f'processes {[norm(a) for _, _, a in rp.process]} (depends on the loop item)' if rp.process else 'no file is read, store updated with no declarations'))
    out: T.List[T.Tuple[str, str, ast.AST]] = []
    for _, (c, allargs, indep) in sites.items():
        if indep:
            cand = ' | '.join(sorted(set(indep)))
            out.append((f'process({cand})', f'for a subproject `SUB` without usable recorded option file the path handed to OptionInterpreter(…, SUB).process '
                        f'is `{cand}`: it does not depend on the subproject (loop key/item), so every such subproject is given the options of that one file', c))
    out.extend((c, m, node) for (c, m), node in bad.items())
    return oks, out


_R5B_EXAMPLE = '''
for SUB, ITEM in self.coredata.options_files.items():
    if ITEM is None:
        opfile = os.path.join(self.source_dir, 'meson.options')
        oi = OptionInterpreter(self.coredata.optstore, SUB)
        oi.process(opfile)
        self.coredata.optstore.update_project_options(oi.options, SUB)
'''


def r5b(ctx: RuleCtx) -> None:
    exb = ast.parse(_R5B_EXAMPLE).body[0].body  # type: ignore[attr-defined]
    _, exbad = _r5b_analyse('example', [_r5_walk(exb, p) for p in paths.enumerate_paths(exb)])
    if not any(c.startswith('process(') for c, _, _ in exbad):
        raise AnalysisError('C08.R5b: built-in positive example (top-level file probed for every subproject) was not flagged')
    mod, qn, fn, walked, body = _conf_loop(ctx)
    other = [rp for rp in walked if not _recorded(rp)]
    ctx.floor(f'{qn}: paths without a usable recorded option file', len(other), 1)
    oks, bad = _r5b_analyse(qn, other)
    for o in oks:
        ctx.ok(o)
    for c, m, node in bad:
        ctx.violation(mod, qn, c, m, node)


def r5c(ctx: RuleCtx) -> None:
    mod = _m(ctx, IBASE)
    qn = 'InterpreterBase._load_option_file'
    fn = _inlined(mod, qn)
    ps = paths.enumerate_paths(fn.body, pure={'exists', 'samefile', 'join'})
    walked = [_r5_walk(fn.body, p) for p in ps if p.outcome != 'raise']
    ctx.floor(f'{qn}: normal paths', len(walked), 2)
    bad: T.Dict[T.Tuple[str, str], ast.AST] = {}
    nproc = 0
    for rp in walked:
        probs: T.List[T.Tuple[str, str, ast.AST]] = []
        for c, recv, arg in rp.process:
            nproc += 1
            chains = {attr_chain(x) for x in ast.walk(arg) if isinstance(x, ast.Attribute)}
            if 'self.subdir' not in chains:
                probs.append((f'process({norm(arg)})', f'the option file `{norm(arg)}` loaded for self.subproject does not depend on self.subdir', c))
            a = [norm(x) for x in recv.args]  # type: ignore[attr-defined]
            if len(a) != 2 or a[1] != 'self.subproject':
                probs.append((norm(recv), f'the option file is interpreted for `{a[1] if len(a) > 1 else "?"}` instead of self.subproject', c))
        for c, opts, sp in rp.updates:
            if norm(sp) != 'self.subproject':
                probs.append((norm(c), f'`{short(c, 80)}` updates the options of `{norm(sp)}` instead of self.subproject', c))
            if rp.process and norm(opts) != norm(rp.process[-1][1]) + '.options':
                probs.append((norm(c), f'`{short(c, 80)}` does not pass the options read from the processed file', c))
            elif not rp.process and not (isinstance(opts, ast.Dict) and not opts.keys):
                probs.append((norm(c), f'`{short(c, 80)}` passes options although no option file was processed on this path', c))
        if rp.process and not rp.updates:
            probs.append((norm(rp.process[0][0]), 'the option file is processed but the store is not updated', rp.process[0][0]))
        if rp.process and len(rp.records) != 1:
            probs.append(('options_files record', f'{len(rp.records)} options_files records on a path that processes an option file (the recorded hash is what '
                          'lets `meson configure` notice edits)', rp.process[0][0]))
        for st, key, val in rp.records:
            if norm(key) != 'self.subproject':
                probs.append((norm(st), f'`{short(st, 80)}` records under `{norm(key)}` instead of self.subproject', st))
            if isinstance(val, ast.Tuple) and len(val.elts) == 2:
                if not rp.process or norm(val.elts[0]) != norm(rp.process[-1][2]):
                    probs.append((norm(st), f'`{short(st, 80)}` records `{norm(val.elts[0])}` which is not the processed file', st))
            elif isinstance(val, ast.Constant) and val.value is None:
                if rp.process:
                    probs.append((norm(st), 'records "no option file" although one was processed', st))
            else:
                raise Undecided(f'{qn}: unknown record {short(st)}')
        for c, m, node in probs:
            bad.setdefault((c, m), node)
        if not probs:
            ctx.ok(f'{qn}: path `{short(rp.text, 110)}`: ' + ('file under self.subdir processed for self.subproject and recorded' if rp.process else 'no option file, recorded as None'))
    ctx.floor(f'{qn}: paths that process an option file', nproc, 1)
    for (c, m), node in bad.items():
        ctx.violation(mod, qn, c, m, node)


def r5d(ctx: RuleCtx) -> None:
    """K1: every normal path of _load_option_file brings the store up to date for self.subproject - with the declarations
    read from the option file, or with none when there is no option file ("a removed option vanishes")."""
    mod = _m(ctx, IBASE)
    qn = 'InterpreterBase._load_option_file'
    fn = _inlined(mod, qn)
    walked = [_r5_walk(fn.body, p) for p in paths.enumerate_paths(fn.body, pure={'exists', 'samefile', 'join'}) if p.outcome != 'raise']
    ctx.floor(f'{qn}: normal paths', len(walked), 2)
    bad: T.Dict[str, T.Tuple[str, ast.AST]] = {}
    for rp in walked:
        ups = [u for u in rp.updates if norm(u[2]) == 'self.subproject']
        if ups:
            ctx.ok(f'{qn}: path `{short(rp.text, 110)}` updates the store for self.subproject ({"declarations of the file" if rp.process else "no declarations"})')
            continue
        if rp.opaque:
            raise Undecided(f'{qn}: `{short(rp.opaque[0], 60)}` may update the store; not understood')
        rec = [norm(st) for st, _, _ in rp.records]
        bad.setdefault('no store update when: ' + (' ; '.join(rec) or 'no option file'),
                       (f'on the path `{short(rp.text, 120)}` (no option file: {"; ".join(rec) or "nothing recorded"}) update_project_options is not called for '
                        'self.subproject: options declared by an option file that has since been deleted stay in the store (mconf.Conf.__init__ does call '
                        'update_project_options({}, sub) in the same situation)', rp.records[0][0] if rp.records else fn))
    for c, (m, node) in bad.items():
        ctx.violation(mod, qn, c, m, node)


ENVIRONMENT = 'mesonbuild/environment.py'


def _r6_analyse(fn: ast.AST, qn: str) -> T.Tuple[T.List[str], T.List[T.Tuple[str, str, ast.AST]], int]:
    """Option writers that replay the initial option sources (`self.options`) must be unreachable when `self.first_invocation` is
    false (K1): remove the CFG edges on which first_invocation is known true and see whether the writer is still reachable."""
    oks: T.List[str] = []
    bad: T.List[T.Tuple[str, str, ast.AST]] = []
    cfg = CFG(fn)  # type: ignore[arg-type]
    fl = Flow(fn)  # type: ignore[arg-type]
    writers = cfg.nodes_with_call(lambda c: call_method(c) in ('set_option', 'set_user_option', 'set_value') and
                                  any('attr:self.options' in fl.origins(a) for a in list(c.args) + [k.value for k in c.keywords]))
    if not writers:
        return oks, bad, 0
    guard_pol: T.Dict[int, bool] = {}
    for n in cfg.nodes:
        if n.kind != 'test':
            continue
        t = n.ast.test  # type: ignore[union-attr]
        if not any(isinstance(x, ast.Attribute) and x.attr == 'first_invocation' for x in ast.walk(t)):
            continue
        a, v = tables.canon(t, True)
        if a != Atom('truth', ('self.first_invocation',)):
            raise Undecided(f'{qn}: test on first_invocation not understood: {short(t)}')
        guard_pol[n.id] = v          # value of first_invocation on the True edge
    reach = cfg.reachable([cfg.entry], edge_ok=lambda a, b, lab: not (a.id in guard_pol and lab in (True, False) and (guard_pol[a.id] if lab else not guard_pol[a.id])))
    for w in writers:
        if w.id in reach:
            bad.append((norm(w.ast), f'`{short(w.expr(), 70)}` writes option values taken from the initial sources (machine files / first command line, self.options) '  # type: ignore[arg-type]
                        'and is reachable when this is not the first invocation: a reconfigure writes them over the values the user has set since', w.ast))  # type: ignore[arg-type]
        else:
            oks.append(f'{qn}: `{short(w.expr(), 60)}` (replays self.options) runs only on the first invocation')
    return oks, bad, len(writers)


_R6_EXAMPLE = '''
def init_backend_options(self, backend_name):
    self.coredata.init_backend_options(backend_name)
    for k, v in self.options.items():
        if self.coredata.optstore.is_backend_option(k):
            self.coredata.optstore.set_option(k, v)
'''


def r6(ctx: RuleCtx) -> None:
    _, exbad, _ = _r6_analyse(ast.parse(_R6_EXAMPLE).body[0], 'example')
    if not exbad:
        raise AnalysisError('C08.R6: built-in positive example (unguarded replay of self.options) was not flagged')
    mod = _m(ctx, ENVIRONMENT)
    total = 0
    for name in sorted(mod.methods('Environment')):
        qn = f'Environment.{name}'
        fn = _inlined(mod, qn, ('set_option', 'set_user_option'))
        oks, bad, n = _r6_analyse(fn, qn)
        total += n
        if bad and any(attr_chain(d.func if isinstance(d, ast.Call) else d) not in ('staticmethod', 'classmethod') for d in fn.decorator_list):
            raise Undecided(f'{qn}: a decorator may provide the first-invocation guard; not understood')
        for o in oks:
            ctx.ok(o)
        for c, m, node in bad:
            ctx.violation(mod, qn, c, m, node)
    if total == 0:
        raise Undecided('Environment: no option writer replaying self.options found (written differently?)')


# ---------------------------------------------------------------------------
# C08.R7  interpreter: the project()/subproject() default options are applied once per (sub)project
#
# `initialize_from_top_level_project_call` / `initialize_from_subproject_call(S, ..)` write the *initial* option sources
# (default_options of project() and subproject(), machine files, command line) into the store.  On a reconfigure they must not
# run again for a (sub)project that has been initialised before: they would put the defaults back over what the user has done
# since (a dropped override comes back, a changed default_options replaces the value the option was created with).  The memory
# of "initialised before" is the persisted set coredata.initialized_subprojects, so three things have to agree on ONE key S:
# the membership test that opens the gate, the subproject the initialiser is called for, and the key recorded afterwards.

INTERPRETER = 'mesonbuild/interpreter/interpreter.py'
INIT_SUB, INIT_TOP = 'initialize_from_subproject_call', 'initialize_from_top_level_project_call'
_R7_WORDS = ('first_invocation', 'initialized_subprojects')
_R7_FIRST = __import__('re').compile(r'[\w.]+\.first_invocation\Z')


def _inline_pure_predicates(mod: Module, cls: T.Optional[str], fn: ast.AST) -> None:
    """`self.p()` where p is an undecorated method of the class whose body is the single statement `return E`, E call-free and
    reading nothing but `self.…`  ->  E (so `self.is_subproject()` and `self.subproject != ''` are the same atom)."""
    if cls is None or not mod.has_cls(cls):
        return
    meths = mod.methods(cls)

    class P(ast.NodeTransformer):
        def visit_Call(self, node: ast.Call) -> ast.AST:
            self.generic_visit(node)
            f = node.func
            if isinstance(f, ast.Attribute) and isinstance(f.value, ast.Name) and f.value.id == 'self' and not node.args and not node.keywords:
                m = meths.get(f.attr)
                body = [s for s in (m.body if m is not None else []) if not (isinstance(s, ast.Expr) and isinstance(s.value, ast.Constant)) and not isinstance(s, ast.Pass)]
                if m is not None and not m.decorator_list and len(body) == 1 and isinstance(body[0], ast.Return) and body[0].value is not None:
                    e = body[0].value
                    if not any(isinstance(x, (ast.Call, ast.NamedExpr, ast.Lambda, ast.Await)) for x in ast.walk(e)) and names_in(e) <= {'self'}:
                        return ast.copy_location(copy.deepcopy(e), node)
            return node
    P().visit(fn)


def _r7_relevant(n: ast.AST) -> bool:
    for x in walk_no_nested(n):
        if isinstance(x, ast.Return) or (isinstance(x, ast.Attribute) and x.attr in _R7_WORDS) or (isinstance(x, ast.Call) and call_method(x) in (INIT_SUB, INIT_TOP)):
            return True
    return False


def _r7_slice(stmts: T.List[ast.stmt]) -> T.List[ast.stmt]:
    """The statements that can matter for the gate: those containing an initialiser call, a read/write of first_invocation or
    initialized_subprojects, or a `return` (which may skip the record); compound statements are kept with their headers and
    sliced recursively.  Statements that only raise are dropped: an aborted configuration persists nothing."""
    out: T.List[ast.stmt] = []
    for st in stmts:
        if isinstance(st, (ast.FunctionDef, ast.AsyncFunctionDef, ast.ClassDef)) or not _r7_relevant(st):
            continue
        if not any(isinstance(getattr(st, f, None), list) and getattr(st, f) and isinstance(getattr(st, f)[0], (ast.stmt, ast.ExceptHandler))
                   for f in ('body', 'orelse', 'finalbody', 'handlers')):
            out.append(st)
            continue
        st = copy.copy(st)
        for f in ('body', 'orelse', 'finalbody'):
            sub = getattr(st, f, None)
            if isinstance(sub, list) and sub and isinstance(sub[0], ast.stmt):
                new = _r7_slice(sub)
                setattr(st, f, new if new or f != 'body' else [ast.copy_location(ast.Pass(), sub[0])])
        if isinstance(st, ast.Try):
            hs = []
            for h in st.handlers:
                h = copy.copy(h)
                h.body = _r7_slice(h.body) or [ast.copy_location(ast.Pass(), h.body[0])]
                hs.append(h)
            st.handlers = hs
        out.append(st)
    return out


def _r7_record_of(st: ast.AST, defs: T.Dict[str, ast.AST]) -> T.Optional[T.Tuple[str, T.List[str]]]:
    """('add' | 'drop' | 'unknown', keys) when the statement changes X.initialized_subprojects, else None."""
    def is_set(e: ast.AST) -> bool:
        return (attr_chain(_subst(e, defs)) or '').endswith('.initialized_subprojects')

    def keys_of(e: ast.AST) -> T.Optional[T.List[str]]:
        if isinstance(e, (ast.Set, ast.List, ast.Tuple)) and not any(isinstance(x, ast.Starred) for x in e.elts):
            return [norm(_subst(x, defs)) for x in e.elts]
        return None
    if isinstance(st, ast.Expr) and isinstance(st.value, ast.Call) and isinstance(st.value.func, ast.Attribute) and is_set(st.value.func.value):
        c = st.value
        meth = c.func.attr  # type: ignore[attr-defined]
        if meth == 'add' and len(c.args) == 1 and not c.keywords:
            return 'add', [norm(_subst(c.args[0], defs))]
        if meth == 'update' and len(c.args) == 1 and not c.keywords and keys_of(c.args[0]) is not None:
            return 'add', T.cast(T.List[str], keys_of(c.args[0]))
        if meth in ('discard', 'remove') and len(c.args) == 1:
            return 'drop', [norm(_subst(c.args[0], defs))]
        if meth in ('clear', 'pop', 'difference_update', 'intersection_update', 'symmetric_difference_update'):
            return 'drop', ['*']
        return 'unknown', []
    if isinstance(st, ast.AugAssign) and is_set(st.target):
        ks = keys_of(st.value)
        if isinstance(st.op, ast.BitOr) and ks is not None:
            return 'add', ks
        return ('drop', ['*']) if isinstance(st.op, (ast.Sub, ast.BitAnd, ast.BitXor)) else ('unknown', [])
    if isinstance(st, (ast.Assign, ast.AnnAssign, ast.Delete)):
        tg = st.targets if isinstance(st, (ast.Assign, ast.Delete)) else [st.target]
        if any(is_set(t) for t in tg if isinstance(t, ast.Attribute)):
            v = getattr(st, 'value', None)
            if isinstance(v, ast.BinOp) and isinstance(v.op, ast.BitOr) and is_set(v.left) and keys_of(v.right) is not None:
                return 'add', T.cast(T.List[str], keys_of(v.right))
            return 'unknown', []
    return None


def _r7_analyse(fn: ast.AST, qn: str) -> T.Tuple[T.List[str], T.List[T.Tuple[str, str, ast.AST]], T.Dict[str, int]]:
    oks: T.List[str] = []
    bad: T.Dict[T.Tuple[str, str], ast.AST] = {}
    counts = {INIT_SUB: 0, INIT_TOP: 0, 'records': 0}
    defs = {k: v for k, v in _single_defs(fn).items() if _transparent(v) and not isinstance(v, (ast.List, ast.Dict, ast.Set, ast.ListComp, ast.Constant))}
    for _ in range(3):
        defs = {k: _subst(v, {k2: v2 for k2, v2 in defs.items() if k2 != k}) for k, v in defs.items()}
    # copy propagation first (unique reaching definition of a call-free expression): `sub = self.subproject`, `done = X.initialized_subprojects`
    # must be the same atoms / the same set as the spelled-out forms, for the slice as well as for the path conditions
    _Sub(defs).visit(fn)
    body = _r7_slice(fn.body)  # type: ignore[attr-defined]
    ps = [p for p in paths.enumerate_paths(body, max_paths=4000) if p.outcome != 'raise']
    good_sites: T.Dict[int, ast.Call] = {}
    bad_sites: T.Set[int] = set()
    sites: T.Dict[int, str] = {}
    for p in ps:
        first: T.Optional[bool] = None                  # what the path knows about first_invocation
        absent: T.Set[str] = set()                      # keys known not to be in initialized_subprojects
        pending: T.List[T.Tuple[str, ast.Call]] = []    # subprojects initialised on this path and not recorded yet
        wrong: T.List[str] = []
        recorded: T.Set[str] = set()                    # keys added to initialized_subprojects so far on this path
        for ev in p.events:
            if ev.kind == 'cond':
                e = _subst(ev.node, defs)
                if not any(isinstance(x, ast.Attribute) and x.attr in _R7_WORDS for x in ast.walk(e)):
                    continue
                a, v = tables.canon(e, ev.val)
                if a.kind == 'truth' and _R7_FIRST.match(a.args[0]):
                    first = v
                elif a.kind == 'in' and a.args[1].endswith('.initialized_subprojects'):
                    if not v:
                        absent.add(a.args[0])
                else:
                    raise Undecided(f'{qn}: test on first_invocation / initialized_subprojects not understood: {short(ev.node)}')
                continue
            node = ev.node.iter if ev.kind == 'iter' else ev.node  # type: ignore[union-attr]
            if node is None or ev.kind == 'exc':
                continue
            roots = [i.context_expr for i in node.items] if ev.kind == 'with' else [node]  # type: ignore[union-attr]
            for c in [c for r in roots for c in walk_no_nested(r) if isinstance(c, ast.Call) and call_method(c) in (INIT_SUB, INIT_TOP)]:
                kind = call_method(c)
                if c.keywords or any(isinstance(x, ast.Starred) for x in c.args) or (kind == INIT_SUB and not c.args):
                    raise Undecided(f'{qn}: `{short(c, 70)}`: arguments not understood')
                key = norm(_subst(c.args[0], defs)) if kind == INIT_SUB else ''
                sites[id(c)] = kind or ''
                if first is True or (kind == INIT_SUB and key in absent):
                    good_sites.setdefault(id(c), c)
                else:
                    bad_sites.add(id(c))
                    if kind == INIT_SUB:
                        other = sorted(absent)
                        bad.setdefault((f'{INIT_SUB}: reached without the first-run / not-yet-initialised gate',
                                        f'`{short(c, 60)}` is reached on the path `{short(p.describe(), 150)}` where neither first_invocation is known true nor '
                                        f'`{key}` is known to be missing from initialized_subprojects' + (f' (the membership test is on `{other[0]}`)' if other else '') +
                                        ': a reconfigure applies the default_options of project()/subproject() again to a subproject that was initialised before, '
                                        'over what the user has changed since (e.g. an override dropped with -U comes back)'), c)
                    else:
                        bad.setdefault((f'{INIT_TOP}: reached when first_invocation is not known true',
                                        f'`{short(c, 60)}` is reached on the path `{short(p.describe(), 150)}` where first_invocation is not known true: a reconfigure '
                                        'applies the project() default_options again over the values the options have'), c)
                if kind == INIT_SUB and key not in recorded:     # (recording first and initialising next is the same on every normal path)
                    pending.append((key, c))
            rec = _r7_record_of(node, defs) if ev.kind == 'stmt' else None
            if rec is not None:
                what, keys = rec
                if what == 'unknown':
                    raise Undecided(f'{qn}: `{short(node, 70)}` changes initialized_subprojects in a way that is not understood')
                if what == 'add':
                    counts['records'] += 1
                    recorded.update(keys)
                    if pending and not any(k == pk for pk, _ in pending for k in keys):
                        wrong.extend(keys)
                    pending = [(pk, c) for pk, c in pending if pk not in keys]
                else:
                    raise Undecided(f'{qn}: `{short(node, 70)}` removes entries of initialized_subprojects; not understood')
        for key, c in pending:
            bad_sites.add(id(c))
            bad.setdefault((f'{INIT_SUB}: the initialised subproject is not recorded in initialized_subprojects',
                            f'after `{short(c, 60)}` the path `{short(p.describe(), 150)}` ends without adding `{key}` to initialized_subprojects' +
                            (f' (it records `{wrong[0]}`)' if wrong else '') + ': the subproject is not remembered as initialised, so every reconfigure applies its '
                            'project()/subproject() default_options again (an override dropped with -U comes back)'), c)
    for i, c in good_sites.items():
        if i not in bad_sites:
            oks.append(f'{qn}: `{short(c, 60)}` runs only ' + ('on the first invocation' if call_method(c) == INIT_TOP else
                                                              'on the first invocation or for a subproject not yet in initialized_subprojects, and records it afterwards'))
    for k in sites.values():
        counts[k] += 1
    return oks, [(c, m, n) for (c, m), n in bad.items()], counts


_R7_EXAMPLE = '''
def func_project(self, node, args, kwargs):
    if self.environment.first_invocation or self.subproject not in self.coredata.initialized_subprojects:
        self.coredata.optstore.initialize_from_subproject_call(self.subproject, a, b, c, d)
        self.coredata.initialized_subprojects.add(self.subproject_dir)
'''


def r7(ctx: RuleCtx) -> None:
    _, exbad, _ = _r7_analyse(ast.parse(_R7_EXAMPLE).body[0], 'example')
    if not any('not recorded' in c for c, _, _ in exbad):
        raise AnalysisError('C08.R7: built-in positive example (another key recorded than the one initialised) was not flagged')
    mod = ctx.repo.module(INTERPRETER)
    funcs = {q: f for q, f in mod.funcs().items() if '#' not in q}
    cls_of = lambda q: q.rsplit('.', 1)[0] if '.' in q else ''  # noqa: E731
    # one pass over the module: which function reads/writes the gate's state, calls an initialiser, calls which same-class method
    spans = sorted(((f.lineno, f.end_lineno or f.lineno, q) for q, f in funcs.items()), key=lambda t: t[1] - t[0])
    owner_cache: T.Dict[int, T.Optional[str]] = {}

    def owner(line: int) -> T.Optional[str]:
        if line not in owner_cache:
            owner_cache[line] = next((q for a_, b_, q in spans if a_ <= line <= b_), None)
        return owner_cache[line]
    direct: T.List[str] = []
    touching: T.Set[str] = set()
    self_calls: T.Dict[str, T.Set[str]] = {}
    name_calls: T.Dict[str, T.Set[str]] = {}      # calls of module-level functions
    for n in ast.walk(mod.tree):
        if isinstance(n, ast.Attribute) and n.attr in _R7_WORDS:
            q = owner(n.lineno)
            if q:
                touching.add(q)
        elif isinstance(n, ast.Call) and isinstance(n.func, ast.Attribute):
            q = owner(n.lineno)
            if q is None:
                continue
            if n.func.attr in (INIT_SUB, INIT_TOP):
                touching.add(q)
                if q not in direct:
                    direct.append(q)
            elif isinstance(n.func.value, ast.Name) and n.func.value.id in ('self', 'cls', cls_of(q)):
                self_calls.setdefault(q, set()).add(n.func.attr)
        elif isinstance(n, ast.Call) and isinstance(n.func, ast.Name) and n.func.id in funcs:
            q = owner(n.lineno)
            if q:
                name_calls.setdefault(q, set()).add(n.func.id)
    if not direct:
        raise Undecided(f'{INTERPRETER}: no call of {INIT_SUB} / {INIT_TOP} found (written differently?)')

    def callers_of(q: str) -> T.List[str]:
        if not cls_of(q):
            return [g for g in name_calls if g != q and q in name_calls[g]]
        return [g for g in self_calls if g != q and cls_of(g) == cls_of(q) and q.rsplit('.', 1)[-1] in self_calls[g]]
    # analyse each initialiser where its gate is: in the function itself, or in the same-class caller the helper is inlined into
    roots: T.List[str] = []
    involved: T.Set[str] = set(direct)        # functions on a call chain root -> initialiser, and those touching the gate's state
    for q in direct:
        level = [q]
        for _ in range(3):
            nxt = [g for x in level for g in callers_of(x)]
            if not nxt:
                break
            involved.update(nxt)
            level = nxt
        for r in level:
            if r not in roots:
                roots.append(r)
    involved |= {q for q in touching if cls_of(q) in {cls_of(r) for r in roots} | {''}}
    _m_funcs(ctx, mod, sorted(involved))
    total = {INIT_SUB: 0, INIT_TOP: 0, 'records': 0}
    for qn in roots:
        others = {q.rsplit('.', 1)[-1] for q in funcs if cls_of(q) in (cls_of(qn), '') and q not in involved}
        fn = copy.deepcopy(_inlined(mod, qn, others))      # helpers that cannot matter stay opaque calls
        _inline_pure_predicates(mod, qn.rsplit('.', 1)[0] if '.' in qn else None, fn)
        oks, bad, counts = _r7_analyse(fn, qn)
        if qn not in direct and counts[INIT_SUB] + counts[INIT_TOP] == 0:
            raise Undecided(f'{qn}: calls a helper that applies the initial option sources in a way that could not be read in place')
        for k in total:
            total[k] += counts.get(k, 0)
        for o in oks:
            ctx.ok(o)
        for c, m, node in bad:
            ctx.violation(mod, qn, c, m, node)
    for k in (INIT_SUB, INIT_TOP):
        if total[k] == 0:
            raise Undecided(f'{INTERPRETER}: no reachable call of {k} on a normal path (written differently?)')
    ctx.note(f'initialiser call sites read: {total[INIT_SUB]} subproject, {total[INIT_TOP]} top-level; roots: {", ".join(roots)}')


RULES = [
    Rule('C08.R1', '-D/-U decision table of set_from_configure_command', r1),
    Rule('C08.R1b', 'cmd_line.txt: -D recorded as str(value), -U (value is None) erases', r1b),
    Rule('C08.R2a', 'update_project_options: new / redeclared / unchanged keys', r2a),
    Rule('C08.R2d', 'update_project_options: a replaced declaration gets the parent link a new one gets', r2d),
    Rule('C08.R2b', 'update_project_options: undeclared keys of this subproject are removed', r2b),
    Rule('C08.R2c', 'choices_are_different: symmetric projections covering choices/min_value/max_value', r2c),
    Rule('C08.R3a', 'setup: writers after the coredata dump are guarded by the restoring handler', r3a),
    Rule('C08.R3d', 'coredata.save: the rollback backup is refreshed before every overwrite', r3d),
    Rule('C08.R3b', 'configure: persisted only after the options were applied', r3b),
    Rule('C08.R3c', 'setup: cmd_line.txt is not left rewritten by a failing configuration', r3c),
    Rule('C08.R4', '--wipe: backup + read before deleting, restore in finally', r4),
    Rule('C08.R4b', 'read_cmd_line_file: current command line overrides the recorded one', r4b),
    Rule('C08.R4c', 'cmd_line.txt: every machine-file property that is restored is recorded when set', r4c),
    Rule('C08.R4d', 'setup: the interpreter sees the recorded command line merged with the current one', r4d),
    Rule('C08.R5a', 'mconf: recorded option file of the subproject is the one reloaded', r5a),
    Rule('C08.R5b', 'mconf: no recorded file - nothing foreign is loaded for the subproject', r5b),
    Rule('C08.R5c', 'interpreter: option file comes from the subproject directory', r5c),
    Rule('C08.R6', 'environment: initial option sources are replayed on the first invocation only', r6),
    Rule('C08.R5d', 'interpreter: the store is updated for the subproject also when there is no option file', r5d),
    Rule('C08.R7', 'interpreter: project()/subproject() default options are applied once per (sub)project', r7),
]
